#!/bin/sh
# Offline setup: third-party pieces used by the monitors (icontract, jsonschema) from the local wheelhouse.
HERE="$(cd "$(dirname "$0")" && pwd)"
if [ -d "$HERE/.deps/jsonschema" ] && [ -d "$HERE/.deps/icontract" ]; then
  exit 0
fi
PIP_NO_INDEX=1 /venv/bin/pip install -q --no-index --find-links /opt/veriftools/wheels --target "$HERE/.deps" icontract jsonschema 2>&1 | grep -v "conda" || true
test -d "$HERE/.deps/jsonschema" && test -d "$HERE/.deps/icontract"
