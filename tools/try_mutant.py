#!/venv/bin/python
"""Verify a seeded mutant and run checks against it, in a scratch worktree of /repo HEAD.

usage: try_mutant.py <mutant_dir> <PROP>[,<PROP2>...] [--tier quick] [--no-verify] [--keep]
  mutant_dir holds patch.diff, demo.py (optional), meta.json (optional)
Prints one JSON line with: demo_clean, applies, baseline_ok, demo_mutant, and per-property check exit codes.
"""
import json, os, subprocess, sys, tempfile, shutil

def sh(cmd, cwd=None, env=None, timeout=3600):
    p = subprocess.run(cmd, cwd=cwd, env=env, shell=isinstance(cmd, str), capture_output=True, text=True, timeout=timeout)
    return p.returncode, (p.stdout + p.stderr)

def main():
    args = sys.argv[1:]
    mdir = os.path.abspath(args[0]); props = args[1].split(",")
    tier = args[args.index("--tier") + 1] if "--tier" in args else "quick"
    verify = "--no-verify" not in args
    os.makedirs("/var/tmp/fvwt", exist_ok=True)
    wt = tempfile.mkdtemp(prefix="m-", dir="/var/tmp/fvwt"); os.rmdir(wt)
    res = {"mutant": mdir, "tier": tier}
    rc, out = sh(["git", "-C", "/repo", "worktree", "add", "-q", "--detach", wt, "HEAD"])
    if rc: print(json.dumps({"error": out})); return 2
    try:
        demo = os.path.join(mdir, "demo.py")
        if verify and os.path.exists(demo):
            rc, out = sh(["/venv/bin/python", demo], cwd=wt, timeout=600)
            res["demo_clean"] = rc
        patch = os.path.join(mdir, "patch.diff")
        rc, out = sh(["git", "apply", "--whitespace=nowarn", patch], cwd=wt)
        if rc:
            rc, out = sh(f"patch -p1 --fuzz=3 < {patch}", cwd=wt)
        res["applies"] = (rc == 0)
        if rc:
            res["apply_error"] = out[-400:]
            print(json.dumps(res)); return 1
        if verify:
            rc, out = sh(["/verif/tools/baseline.sh", wt], timeout=1800)
            res["baseline_ok"] = (rc == 0); res["baseline"] = [l for l in out.splitlines() if "baseline" in l or "NOT PASSING" in l][:6]
            if os.path.exists(demo):
                rc, out = sh(["/venv/bin/python", demo], cwd=wt, timeout=600)
                res["demo_mutant"] = rc
        env = dict(os.environ); env["FVMON_REPO"] = wt
        res["checks"] = {}
        for p in props:
            rc, out = sh(["/verif/check", p, "--tier", tier], cwd="/verif", env=env, timeout=7200)
            lines = [l[:300] for l in out.splitlines() if l.startswith(("VIOLATION", "INCONCLUSIVE", "KNOWN"))]
            res["checks"][p] = {"exit": rc, "lines": lines[:6], "summary": out.strip().splitlines()[-1][:300] if out.strip() else ""}
    finally:
        if "--keep" not in args:
            sh(["git", "-C", "/repo", "worktree", "remove", "--force", wt]); shutil.rmtree(wt, ignore_errors=True)
    print(json.dumps(res))
    return 0

if __name__ == "__main__":
    sys.exit(main())
