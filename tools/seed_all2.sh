#!/bin/sh
# round 2: staging /var/tmp/mutants2, results /var/tmp/seedres2
mkdir -p /var/tmp/seedres2
for P in "$@"; do
  for m in /var/tmp/mutants2/$P/m*; do
    [ -d "$m" ] || continue
    n=$(basename $m)
    /verif/tools/try_mutant.py $m $P > /var/tmp/seedres2/$P-$n.json 2>/dev/null
  done
done
