#!/bin/sh
# usage: seed_all.sh P1 P2 ...   (runs try_mutant for every staged mutant of each property, sequentially)
for P in "$@"; do
  for m in /var/tmp/mutants/$P/m*; do
    [ -d "$m" ] || continue
    n=$(basename $m)
    /verif/tools/try_mutant.py $m $P > /var/tmp/seedres/$P-$n.json 2>/dev/null
  done
done
