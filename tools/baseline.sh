#!/bin/sh
# Run the repository's pinned baseline (guard OFF) in $1 (default /repo) and compare the set of
# passing tests with /root/.vp/BASELINE.json stable_pass.  Exit 0 iff every stable_pass test passes.
REPO="${1:-/repo}"
OUT="$(mktemp -d /var/tmp/fvbase.XXXXXX)"
cd "$REPO" || exit 2
env -u FIBERTREE_VERIF /venv/bin/python -m pytest -ra -q -p no:cacheprovider --timeout=900 --continue-on-collection-errors --junitxml="$OUT/j.xml" >"$OUT/log" 2>&1
/venv/bin/python - "$OUT/j.xml" <<'PY'
import sys, json, xml.etree.ElementTree as ET
base = json.load(open('/root/.vp/BASELINE.json'))
want = set(base['stable_pass'])
passed = set()
for tc in ET.parse(sys.argv[1]).getroot().iter('testcase'):
    if not any(ch.tag in ('failure', 'error', 'skipped') for ch in tc):
        passed.add(f"{tc.get('classname')}::{tc.get('name')}")
missing = sorted(want - passed)
print(f"baseline: {len(want & passed)}/{len(want)} stable tests pass; {len(passed)} pass in total")
for m in missing[:20]:
    print("  NOT PASSING:", m)
sys.exit(1 if missing else 0)
PY
RC=$?
rm -rf "$OUT" "$REPO/tmp" 2>/dev/null
[ "$REPO" = "/repo" ] && mkdir -p /repo/tmp
exit $RC
