#!/bin/sh
# round 5: staging /var/tmp/mutants5, results /var/tmp/seedres5
mkdir -p /var/tmp/seedres5
for P in "$@"; do
  for m in /var/tmp/mutants5/$P/m*; do
    [ -d "$m" ] || continue
    n=$(basename $m)
    /verif/tools/try_mutant.py $m $P > /var/tmp/seedres5/$P-$n.json 2>/dev/null
  done
done
