#!/venv/bin/python
"""Regenerate /verif/MANIFEST.json from the checks that exist (checks/cNN.py with a SPEC)."""
import importlib, json, os, sys
sys.path.insert(0, "/verif")
os.environ.setdefault("FVMON_REPO", "/repo")
from fvmon import env
env.setup_import_path()
props = [json.loads(l) for l in open("/verif/properties.jsonl")]
checks, na = [], []
PENDING = {}
for p in props:
    pid = p["id"]
    path = f"/verif/checks/{pid.lower()}.py"
    ready = set(open("/verif/checks/READY").read().split())
    if not os.path.exists(path) or pid not in ready:
        na.append({"property_id": pid, "reason": PENDING.get(pid, "check not built yet in this revision of /verif (planned, see DESIGN.md section 5); not claimed")})
        continue
    mod = importlib.import_module(f"checks.{pid.lower()}")
    S = mod.SPEC
    checks.append({
        "property_id": pid,
        "quick_cmd": f"./check {pid} --tier quick",
        "thorough_cmd": f"./check {pid} --tier thorough",
        "evidence_file": f"/verif/evidence/{pid}.json",
        "replay_cmd_template": f"./check {pid} --replay {{path}}",
        "engine": "fvmon",
        "level_claimed": {"category": "exploration",
                          "text": S.get("level_text", "Held on the executions observed: an oracle (reference model / invariant / offline log checker) watched every generated execution of the real code; no claim beyond the explored inputs."),
                          "design_ref": f"DESIGN.md section 5 ({pid})"},
        "level_note": S.get("level_note", "Trusted base: CPython 3.12, the monitors and reference models in /verif/fvmon and /verif/checks, the stated input-domain guards (evidence.assumptions)."),
        "technique": S.get("technique", "runtime monitoring: oracle over observed executions"),
    })
man = {
    "version": 1,
    "setup_cmd": "sh ./setup.sh",
    "hooks": {"guard": "FIBERTREE_VERIF",
              "enable": "no source hooks: instrumentation is installed from the harness (public-attribute observers, wrappers, sys.monitoring taps, icontract contracts) in shard processes that import fibertree from $FVMON_REPO (default /repo) working tree; FIBERTREE_VERIF=1 is set in those processes only",
              "baseline_off_cmd": "cd /repo && env -u FIBERTREE_VERIF /venv/bin/python -m pytest -ra -q -p no:cacheprovider --timeout=900 --continue-on-collection-errors",
              "source_commits": [],
              "add_only": True},
    "engines": [{"name": "fvmon", "path": "/verif/fvmon", "serves_properties": [c["property_id"] for c in checks],
                 "kind_free_text": "runtime monitoring framework: seeded workload generators, raw observers (snapshots, identity sets, content maps, WF/RC invariants), executable reference models, offline trace checkers, sharded runner with three-valued verdicts"}],
    "checks": checks,
    "not_applicable": na,
    "notes": "Technique family: runtime monitoring. Sanitizers/race detectors/linearizability checkers have no object here (pure single-threaded Python, no native code) - see DESIGN.md section 1. Exit codes: 0 held, 1 VIOLATION, 2 INCONCLUSIVE.",
}
json.dump(man, open("/verif/MANIFEST.json", "w"), indent=1)
sys.path.append(env.DEPS)
import jsonschema
jsonschema.validate(man, json.load(open("/root/.vp/MANIFEST.schema.json")))
print("MANIFEST ok:", len(checks), "checks,", len(na), "not_applicable")
