#!/venv/bin/python
"""Regenerate /verif/MANIFEST.json from the checks that exist (checks/cNN.py with a SPEC)."""
import importlib, json, os, sys
sys.path.insert(0, "/verif")
os.environ.setdefault("FVMON_REPO", "/repo")
from fvmon import env
env.setup_import_path()
TECH = {
 "C01": ("runtime monitoring: structural invariant (WF) hooked at every quiescent point of random operation histories + raw-snapshot atomicity of rejected operations",
         "Held on every history executed: each step of each generated history of public mutators was followed by a well-formedness walk of the raw lists; rejected operations were compared bit-for-bit (values and box identities) with the pre-state. Exploration is the right level: the quantifier is over unbounded histories, no finite run closes it."),
 "C02": ("runtime monitoring: rank-bookkeeping invariant (RC) at every quiescent point of operation histories on tensors from every constructor; derived per-rank quantities recomputed from a raw walk",
         "Held on every history executed, for the mutated tensor and the tensors it was derived from; two mechanisms that violate it on the unchanged tree are recorded as known findings and keep being reported as such."),
 "C03": ("runtime monitoring: history + executable reference model (point->value dict) compared after every access; aliasing/freshness probes; checking wrapper on Fiber._coord2pos",
         "Held on every access history executed; the model comparison after each step is what shows that a write disturbs no other point."),
 "C04": ("runtime monitoring: definitional set-operation oracle over raw lists on the yielded sequences, identity/freshness/mask checks, operand snapshots; exhaustive small-scope pair sweep as workload",
         "Held on the complete 3-state pair sweep (exhaustive for that scope) and on the random operand classes listed in the evidence rule."),
 "C05": ("runtime monitoring: lock-step executable model of populate with observation at every yield and after the loop",
         "Held on every generated destination x source x action table; the systematic part enumerates all action tables over three coordinates."),
 "C06": ("runtime monitoring: differential execution of generated kernels (all loop orders, tilings, styles) against a dense reference evaluation",
         "Held on every dataflow executed for every generated expression; metamorphic equality across dataflows plus the dense oracle."),
 "C07": ("runtime monitoring: definitional traversal oracles from raw lists vs yielded sequences, snapshots before/after",
         "Held on the complete 3-state fiber x range sweep and the random classes listed."),
 "C08": ("runtime monitoring: independent partition model recomputed per split target + model-free invariants (tiling, losslessness, halo membership)",
         "Held on every split executed, including nested re-splits."),
 "C09": ("runtime monitoring: content-map image oracle under the stated coordinate map, round trips, WF/RC/containment of every result",
         "Held on every transform executed over the systematic (transform, depth, levels, style, permutation) sweep and random trees."),
 "C10": ("runtime monitoring: deep structural snapshots + object-identity sets before/after every operation of the two families, follow-up mutations, byte-wise image comparison",
         "Held on every operation executed from the statement's two families."),
 "C11": ("runtime monitoring: icontract postconditions on every Payload/CoordPayload operator (evaluated on every call the workload causes) + dense-view oracle for fiber arithmetic; exhaustive operator table as workload",
         "Held on the complete operator x operand-kind x value-grid table and on the fiber workloads."),
 "C12": ("runtime monitoring: content oracle over families of representations of the same content; all ordered pairs and triples",
         "Held on the complete 2x2 grid sweep (all ordered pairs) and on the random families."),
 "C13": ("runtime monitoring: round-trip oracles (nest <-> tree, YAML/dict through real files, seeded random construction) with raw-walk checks",
         "Held on every small nest (exhaustive for the stated bound) and the random conversions executed."),
 "C14": ("runtime monitoring: attribute-algebra oracle (expected ids/shape/default/formats/ranges computed from the operand's constructor arguments) vs the getters of every result; containment walk",
         "Held on every transform chain / lazy result / join executed."),
 "C15": ("runtime monitoring: off/on differential runs, sys.monitoring taps counting operator executions independently of Metrics, session-position equality of dumps and traces",
         "Held on every kernel x registration x session sequence executed."),
 "C16": ("runtime monitoring: offline checker matching the library's trace files / consumed traces against a ground-truth event log recorded by the harness from raw lists; flush-threshold and consumable invariance",
         "Held on every traced kernel executed (each under five buffering configurations)."),
 "C17": ("runtime monitoring: independent policy models (window counter, furthest-next-use simulator, exhaustive optimum search) and metamorphic sweeps over generated and real traces",
         "Held on the complete short-sequence sweeps and the random / real traces executed."),
 "C18": ("runtime monitoring: recursive raw-walk footprint oracle + postcondition on Format._getFiberFootprint evaluated on every internal call",
         "Held on every tensor x specification executed."),
 "C19": ("runtime monitoring: closed-form merge-count oracles over raw coordinate lists vs the models fed with real traces in several batchings; round-by-round swap simulation",
         "Held on the complete subset-pair sweeps and random fiber sequences executed."),
 "C20": ("runtime monitoring: independent decoder written from the documented layouts, handle-API scans, bisect lookups, word-count formula on every encoding",
         "Held on every tensor x descriptor x imposed shape executed (all 3^depth descriptors for the systematic trees)."),
}
props = [json.loads(l) for l in open("/verif/properties.jsonl")]
checks, na = [], []
PENDING = {}
for p in props:
    pid = p["id"]
    path = f"/verif/checks/{pid.lower()}.py"
    ready = set(open("/verif/checks/READY").read().split())
    if not os.path.exists(path) or pid not in ready:
        na.append({"property_id": pid, "reason": PENDING.get(pid, "check not built yet in this revision of /verif (planned, see DESIGN.md section 5); not claimed")})
        continue
    mod = importlib.import_module(f"checks.{pid.lower()}")
    S = mod.SPEC
    checks.append({
        "property_id": pid,
        "quick_cmd": f"./check {pid} --tier quick",
        "thorough_cmd": f"./check {pid} --tier thorough",
        "evidence_file": f"/verif/evidence/{pid}.json",
        "replay_cmd_template": f"./check {pid} --replay {{path}}",
        "engine": "fvmon",
        "level_claimed": {"category": "exploration",
                          "text": TECH[pid][1] + " No claim beyond the explored inputs (evidence gives the measured counts, distinct cases, states, anchor reach).",
                          "design_ref": f"DESIGN.md section 5 ({pid})"},
        "level_note": S.get("level_note", "Trusted base: CPython 3.12, the monitors and reference models in /verif/fvmon and /verif/checks, the stated input-domain guards (evidence.assumptions)."),
        "technique": TECH[pid][0],
    })
man = {
    "version": 1,
    "setup_cmd": "sh ./setup.sh",
    "hooks": {"guard": "FIBERTREE_VERIF",
              "enable": "no source hooks: instrumentation is installed from the harness (public-attribute observers, wrappers, sys.monitoring taps, icontract contracts) in shard processes that import fibertree from $FVMON_REPO (default /repo) working tree; FIBERTREE_VERIF=1 is set in those processes only",
              "baseline_off_cmd": "cd /repo && env -u FIBERTREE_VERIF /venv/bin/python -m pytest -ra -q -p no:cacheprovider --timeout=900 --continue-on-collection-errors",
              "source_commits": [],
              "add_only": True},
    "engines": [{"name": "fvmon", "path": "/verif/fvmon", "serves_properties": [c["property_id"] for c in checks],
                 "kind_free_text": "runtime monitoring framework: seeded workload generators, raw observers (snapshots, identity sets, content maps, WF/RC invariants), executable reference models, offline trace checkers, sharded runner with three-valued verdicts"}],
    "checks": checks,
    "not_applicable": na,
    "notes": "Technique family: runtime monitoring. Sanitizers/race detectors/linearizability checkers have no object here (pure single-threaded Python, no native code) - see DESIGN.md section 1. Exit codes: 0 held, 1 VIOLATION, 2 INCONCLUSIVE.",
}
json.dump(man, open("/verif/MANIFEST.json", "w"), indent=1)
sys.path.append(env.DEPS)
import jsonschema
jsonschema.validate(man, json.load(open("/root/.vp/MANIFEST.schema.json")))
print("MANIFEST ok:", len(checks), "checks,", len(na), "not_applicable")
