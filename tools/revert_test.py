#!/venv/bin/python
"""Regression of the repairs: for every 'fixed' entry of known_findings.json revert that commit in a scratch worktree of
/repo HEAD and run the property's quick check there - it must report a VIOLATION again ("a fixed entry suppresses nothing").
usage: revert_test.py [PROP ...]   -> writes /verif/selftest/revert_results.json and prints a table."""
import json, os, subprocess, sys, tempfile, shutil

def sh(cmd, cwd=None, env=None, timeout=3600):
    p = subprocess.run(cmd, cwd=cwd, env=env, capture_output=True, text=True, timeout=timeout)
    return p.returncode, p.stdout + p.stderr

def main():
    only = set(sys.argv[1:])
    d = json.load(open("/verif/known_findings.json"))
    os.makedirs("/var/tmp/fvwt", exist_ok=True)
    os.makedirs("/verif/selftest", exist_ok=True)
    out = []
    for f in d["findings"]:
        if f.get("status") != "fixed" or (only and f["property"] not in only):
            continue
        prop, commit = f["property"], f["commit"]
        wt = tempfile.mkdtemp(prefix="rv-", dir="/var/tmp/fvwt"); os.rmdir(wt)
        sh(["git", "-C", "/repo", "worktree", "add", "-q", "--detach", wt, "HEAD"])
        res = {"property": prop, "commit": commit, "what": f["what"][:140]}
        try:
            rc, o = sh(["git", "-c", "user.email=x@x", "-c", "user.name=x", "revert", "--no-commit", commit], cwd=wt)
            if rc != 0:
                res["status"] = "revert-conflict (later fixes touch the same lines)"
            else:
                env = dict(os.environ); env["FVMON_REPO"] = wt
                rc, o = sh(["/verif/check", prop, "--tier", "quick"], cwd="/verif", env=env)
                keys = [l.split("[", 1)[1].split("]", 1)[0] for l in o.splitlines() if l.startswith("VIOLATION") and "[" in l]
                res["status"] = "detected" if rc == 1 else f"NOT DETECTED (exit {rc})"
                res["keys"] = keys[:4]
        finally:
            sh(["git", "-C", "/repo", "worktree", "remove", "--force", wt]); shutil.rmtree(wt, ignore_errors=True)
        print(f"{prop} {commit} {res['status']} {res.get('keys', '')}", flush=True)
        out.append(res)
    json.dump(out, open("/verif/selftest/revert_results.json", "w"), indent=1)

if __name__ == "__main__":
    main()
