#!/bin/sh
# round 7: staging /var/tmp/mutants7, results /var/tmp/seedres7
mkdir -p /var/tmp/seedres7
for P in "$@"; do
  for m in /var/tmp/mutants7/$P/m*; do
    [ -d "$m" ] || continue
    n=$(basename $m)
    /verif/tools/try_mutant.py $m $P > /var/tmp/seedres7/$P-$n.json 2>/dev/null
  done
done
