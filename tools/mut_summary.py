#!/venv/bin/python
import sys, json
for l in sys.stdin:
    try: r = json.loads(l)
    except Exception: continue
    print(r['mutant'][-7:], 'clean', r.get('demo_clean'), 'applies', r.get('applies'), 'base', r.get('baseline_ok'), 'demoM', r.get('demo_mutant'), r.get('apply_error', '')[:100])
    for p, c in r.get('checks', {}).items():
        print('   ', p, 'exit', c['exit'], [x[:230] for x in c['lines'][:2]])
