#!/bin/sh
# round 9: staging /var/tmp/mutants9, results /var/tmp/seedres9
mkdir -p /var/tmp/seedres9
for P in "$@"; do
  for m in /var/tmp/mutants9/$P/m*; do
    [ -d "$m" ] || continue
    n=$(basename $m)
    /verif/tools/try_mutant.py $m $P > /var/tmp/seedres9/$P-$n.json 2>/dev/null
  done
done
