#!/venv/bin/python
"""Copy confirmed seeded mutants from the staging area into /verif/seeded/<PROP>-mN/ and write seeded/INDEX.md.
A mutant is confirmed when, in a scratch worktree of /repo HEAD: its demo passes on the clean tree, the patch
applies, the repository's 453-test baseline is unchanged, and its demo fails with the patch."""
import json, os, shutil, glob, subprocess
STAGE, RES, OUT = "/var/tmp/mutants", "/var/tmp/seedres", "/verif/seeded"
os.makedirs(OUT, exist_ok=True)
head = subprocess.run(["git", "-C", "/repo", "rev-parse", "--short", "HEAD"], capture_output=True, text=True).stdout.strip()
rows = []
for rf in sorted(glob.glob(f"{RES}/C*-m*.json")):
    name = os.path.basename(rf)[:-5]
    prop, m = name.split("-")
    try:
        r = json.load(open(rf))
    except Exception:
        continue
    src = f"{STAGE}/{prop}/{m}"
    ok = r.get("demo_clean") == 0 and r.get("applies") and r.get("baseline_ok") and r.get("demo_mutant") not in (0, None)
    chk = r.get("checks", {}).get(prop, {})
    keys = []
    for ln in chk.get("lines", []):
        if ln.startswith("VIOLATION") and "[" in ln:
            keys.append(ln.split("[", 1)[1].split("]", 1)[0])
    try:
        meta = json.load(open(f"{src}/meta.json"))
    except Exception:
        meta = {}
    status = "caught" if chk.get("exit") == 1 else ("MISSED" if chk.get("exit") == 0 else f"exit {chk.get('exit')}")
    if ok:
        dst = f"{OUT}/{prop}-{m}"
        os.makedirs(dst, exist_ok=True)
        for fn in ("patch.diff", "demo.py"):
            if os.path.exists(f"{src}/{fn}"):
                shutil.copy(f"{src}/{fn}", f"{dst}/{fn}")
        meta.update({"property": prop, "origin": "independent sub-agent given only the property text and a scratch worktree",
                     "confirmed": {"against_repo_head": head, "demo_on_clean_tree_exit": r.get("demo_clean"), "patch_applies": True,
                                   "baseline_453_unchanged": True, "demo_with_patch_exit": r.get("demo_mutant"),
                                   "how": "tools/try_mutant.py (scratch worktree of /repo HEAD; git apply; tools/baseline.sh; demo.py; ./check with FVMON_REPO)"},
                     "check_result": {"tier": r.get("tier"), "exit": chk.get("exit"), "violation_keys": keys, "summary": chk.get("summary", "")}})
        json.dump(meta, open(f"{dst}/meta.json", "w"), indent=1)
    rows.append((prop, m, "confirmed" if ok else f"NOT CONFIRMED ({'does not apply' if not r.get('applies') else 'see result'})", status,
                 ", ".join(keys[:3]), (meta.get("summary") or "")[:110], (meta.get("needs") or "")[:110]))
with open(f"{OUT}/INDEX.md", "w") as fh:
    fh.write("# Seeded property-breaking changes\n\nEach directory holds patch.diff, demo.py (passes on the clean tree, fails with the patch) and meta.json.\n"
             "All keep the repository's 453-test baseline passing.  `status` is the result of the property's quick check on the patched tree.\n\n")
    fh.write("| property | mutant | verification | check | first violation keys | change | needs |\n|---|---|---|---|---|---|---|\n")
    for r in rows:
        fh.write("| " + " | ".join(str(x).replace("|", "/") for x in r) + " |\n")
print(f"{len(rows)} mutants indexed; {sum(1 for r in rows if r[2]=='confirmed')} confirmed; missed: {[r[0]+'-'+r[1] for r in rows if r[3]=='MISSED']}")
