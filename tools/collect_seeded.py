#!/venv/bin/python
"""Copy confirmed seeded mutants from the staging areas into /verif/seeded/<PROP>-[r2]mN/ and write seeded/INDEX.md.

A mutant is confirmed when, in a scratch worktree of /repo HEAD (tools/try_mutant.py): its demo passes on the
clean tree, the patch applies, the repository's 453-test baseline is unchanged, and its demo fails with the patch."""
import glob
import json
import os
import shutil
import subprocess

OUT = "/verif/seeded"
# changes judged outside their property's quantifier (not kept as seeded breaks); reason shown in INDEX.md
OUT_OF_SCOPE = {"C20-r3-m3": "needs Codec(cumulative_payloads[d]=False): the property quantifies over format descriptors and imposed shapes "
                             "and fixes the layout as 'cumulative occupancies as segment ends'; the flag that asks for another layout is outside it"}
OUT_OF_SCOPE["C12-r9-m2"] = ("needs a tensor declared with a falsy NON-NUMERIC leaf default (None, '' or ()): C12's check quantifies over numeric leaf "
                              "defaults (SPEC assumptions: leaf values and defaults are Python numbers compared by value; DESIGN section 9: undocumented argument "
                              "types are not judged), and with the numeric defaults it generates (0, 0.0, 7, ...) the change is behaviour-preserving")
ROUNDS = [("/var/tmp/mutants", "/var/tmp/seedres", ""), ("/var/tmp/mutants2", "/var/tmp/seedres2", "r2"),
          ("/var/tmp/mutants3", "/var/tmp/seedres3", "r3"), ("/var/tmp/mutants4", "/var/tmp/seedres4", "r4"),
          ("/var/tmp/mutants5", "/var/tmp/seedres5", "r5"), ("/var/tmp/mutants6", "/var/tmp/seedres6", "r6"),
          ("/var/tmp/mutants7", "/var/tmp/seedres7", "r7"), ("/var/tmp/mutants8", "/var/tmp/seedres8", "r8"), ("/var/tmp/mutants9", "/var/tmp/seedres9", "r9")]
# changes that break another property's clause than the one they were written for: judged by that property's check
OTHER_CHECK = {"C12-r7-m1": ("C10", "RankAttrs.getDefault() hands out the stored default box for float defaults: nothing goes wrong until a caller writes into "
                                    "the returned box, which is C10's clause (a returned default is a fresh box), not a content-dependence of ==, isEmpty or countValues"),
               "C12-r7-m2": ("C10", "nonEmpty() shares its leaf boxes with the original: the pruned copy is an equal tree at return time (C12); that a later "
                                    "update of one shows in the other is C10's no-aliasing clause"),
               "C05-r9-m1": ("C14", "the destination keeps a stale active range after a second populate from a longer source: what the loops offer and leave behind "
                                    "is unchanged (C05, whose check states that z's active range after the loop is C14's to judge); that the destination's active "
                                    "range is the source's after a populate is C14's clause"),
               "C08-r4-m3": ("C10", "skips the deep copy of a depth-0 split: the result shares payload boxes with the operand, which C08's statement "
                                    "(a property of the result at return time) does not exclude; it is C10's no-aliasing clause")}


def main():
    os.makedirs(OUT, exist_ok=True)
    head = subprocess.run(["git", "-C", "/repo", "rev-parse", "--short", "HEAD"], capture_output=True, text=True).stdout.strip()
    rows = []
    for stage, res, tag in ROUNDS:
        for rf in sorted(glob.glob(f"{res}/[CR]*-m*.json")):
            name = os.path.basename(rf)[:-5]
            prop, m = name.split("-")
            try:
                r = json.load(open(rf))
            except Exception:
                continue
            src = f"{stage}/{prop}/{m}"
            region = None
            if prop.startswith("R"):
                # region-based round: the change was written inside a source region and names the property it breaks
                region = prop
                try:
                    prop = json.load(open(f"{src}/meta.json")).get("property")
                except Exception:
                    continue
                m = region + m
                chk_all = r.get("checks", {})
                if chk_all.get(prop, {}).get("exit") != 1:
                    other = [p for p, c in chk_all.items() if c.get("exit") == 1]
                    if other:
                        OTHER_CHECK.setdefault(f"{prop}-{tag}-{m}", (other[0], "written for a source region; its meta.json lists this property among those it breaks"))
            ok = r.get("demo_clean") == 0 and r.get("applies") and r.get("baseline_ok") and r.get("demo_mutant") not in (0, None)
            label0 = (tag + "-" if tag else "") + m
            judge = OTHER_CHECK.get(f"{prop}-{label0}", (prop, ""))[0]
            chk = r.get("checks", {}).get(judge, {})
            keys = []
            for ln in chk.get("lines", []):
                if ln.startswith("VIOLATION") and "[" in ln:
                    keys.append(ln.split("[", 1)[1].split("]", 1)[0])
            try:
                meta = json.load(open(f"{src}/meta.json"))
            except Exception:
                meta = {}
            if judge != prop:
                meta["judged_by_other_property"] = {"property": judge, "why": OTHER_CHECK[f"{prop}-{label0}"][1]}
            status = ("caught" if judge == prop else f"caught by {judge}") if chk.get("exit") == 1 else ("MISSED" if chk.get("exit") == 0 else f"exit {chk.get('exit')}")
            label = (tag + "-" if tag else "") + m
            if f"{prop}-{label}" in OUT_OF_SCOPE:
                rows.append((prop, label, "not kept: " + OUT_OF_SCOPE[f"{prop}-{label}"], "n/a", "", (meta.get("summary") or "")[:110], (meta.get("needs") or "")[:110]))
                continue
            if ok:
                dst = f"{OUT}/{prop}-{label}"
                os.makedirs(dst, exist_ok=True)
                for fn in ("patch.diff", "demo.py"):
                    if os.path.exists(f"{src}/{fn}"):
                        shutil.copy(f"{src}/{fn}", f"{dst}/{fn}")
                meta.update({
                    "property": prop,
                    "origin": "independent sub-agent given only the property text and a scratch worktree"
                              + ({"r2": " (second round, on the repaired tree)", "r3": " (third round: history- and entry-point-dependent breaks)",
                                 "r4": " (fourth round: shared helpers, second uses, boundary values, legal type variety, ordering)",
                                 "r5": " (fifth round: Fiber- vs Tensor-level forms, compositions, aggregate sums, fast paths, cleanup, shared attributes)",
                                 "r6": " (sixth round: written for a region of the source, naming the property it breaks)",
                                 "r7": " (seventh round, ten properties: promises attacked least so far, feature interactions, longer histories, error paths)",
                                 "r8": " (eighth round, all twenty properties: cooperating pairs of edits, error / early-exit paths, second uses after three or more operations)",
                                 "r9": " (ninth round, ten properties, same directions as the eighth)"}.get(tag, "")),
                    "confirmed": {"against_repo_head": head, "demo_on_clean_tree_exit": r.get("demo_clean"), "patch_applies": True,
                                  "baseline_453_unchanged": True, "demo_with_patch_exit": r.get("demo_mutant"),
                                  "how": "tools/try_mutant.py (scratch worktree of /repo HEAD; git apply; tools/baseline.sh; demo.py; "
                                         "./check with FVMON_REPO pointing at the scratch tree)"},
                    "check_result": {"judged_by": judge, "tier": r.get("tier"), "exit": chk.get("exit"), "violation_keys": keys,
                                     "summary": chk.get("summary", "")}})
                json.dump(meta, open(f"{dst}/meta.json", "w"), indent=1)
            if not ok:
                status = "n/a (not a break on this HEAD: a later repair removed what it relied on)" if r.get("applies") else "n/a"
            why = "confirmed" if ok else ("NOT CONFIRMED (patch does not apply to HEAD)" if not r.get("applies") else "NOT CONFIRMED")
            rows.append((prop, label, why, status, ", ".join(keys[:3]), (meta.get("summary") or "")[:110], (meta.get("needs") or "")[:110]))
    with open(f"{OUT}/INDEX.md", "w") as fh:
        fh.write("# Seeded property-breaking changes\n\nEach directory holds patch.diff, demo.py (passes on the clean tree, fails with the "
                 "patch) and meta.json.\nAll keep the repository's 453-test baseline passing.  `check` is the result of the property's "
                 "quick check on the patched tree\n(r2 = second round, written after the first-round repairs; r3..r5 = later property-based rounds; r6 = region-based round, the directory name carries the region; r7 = a property-based round for ten properties; r8 = a later-session round for all twenty: cooperating edits, error paths, second uses; r9 = the same for ten properties).\n\n")
        fh.write("| property | mutant | verification | check | first violation keys | change | needs |\n|---|---|---|---|---|---|---|\n")
        for r in rows:
            fh.write("| " + " | ".join(str(x).replace("|", "/").replace("\n", " ") for x in r) + " |\n")
    print(f"{len(rows)} mutants indexed; {sum(1 for r in rows if r[2] == 'confirmed')} confirmed; "
          f"not caught: {[r[0] + '-' + r[1] for r in rows if r[2] == 'confirmed' and not str(r[3]).startswith('caught')]}")


if __name__ == "__main__":
    main()
