#!/bin/sh
# round 4: staging /var/tmp/mutants4, results /var/tmp/seedres4
mkdir -p /var/tmp/seedres4
for P in "$@"; do
  for m in /var/tmp/mutants4/$P/m*; do
    [ -d "$m" ] || continue
    n=$(basename $m)
    /verif/tools/try_mutant.py $m $P > /var/tmp/seedres4/$P-$n.json 2>/dev/null
  done
done
