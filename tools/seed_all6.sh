#!/bin/sh
# round 6 (region-based): staging /var/tmp/mutants6/<Rxx>/m*, results /var/tmp/seedres6/<Rxx>-mN.json
# each mutant names the property it breaks (meta.json "property", "also"); those checks are run
mkdir -p /var/tmp/seedres6
for R in "$@"; do
  for m in /var/tmp/mutants6/$R/m*; do
    [ -d "$m" ] || continue
    n=$(basename $m)
    props=$(/venv/bin/python -c "
import json,sys
d=json.load(open('$m/meta.json'))
ps=[d.get('property')]+[p for p in (d.get('also') or []) if isinstance(p,str)]
ps=[p for p in ps if isinstance(p,str) and len(p)==3 and p[0]=='C']
out=[]
[out.append(p) for p in ps if p not in out]
print(','.join(out[:3]))" 2>/dev/null | tail -1)
    /verif/tools/try_mutant.py $m $props > /var/tmp/seedres6/$R-$n.json 2>/dev/null
  done
done
