#!/bin/sh
# round 2: staging /var/tmp/mutants3, results /var/tmp/seedres3
mkdir -p /var/tmp/seedres3
for P in "$@"; do
  for m in /var/tmp/mutants3/$P/m*; do
    [ -d "$m" ] || continue
    n=$(basename $m)
    /verif/tools/try_mutant.py $m $P > /var/tmp/seedres3/$P-$n.json 2>/dev/null
  done
done
