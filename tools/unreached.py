#!/venv/bin/python
"""Show, per check, the statement-start lines of the anchored functions that the last run (evidence/<id>.json) never executed.
usage: tools/unreached.py C05 [C06 ...]   (a guide for widening workloads; continuation lines of multi-line statements are filtered out)"""
import ast, json, sys, importlib.util, os
REPO = os.environ.get("FVMON_REPO", "/repo")
_cache = {}
def stmt_lines(path):
    if path not in _cache:
        tree = ast.parse(open(path).read())
        _cache[path] = ({n.lineno for n in ast.walk(tree) if isinstance(n, ast.stmt)}, open(path).read().splitlines())
    return _cache[path]
for pid in sys.argv[1:]:
    cov = json.load(open(f"/verif/evidence/{pid}.json"))["coverage"]
    print(f"== {pid}")
    for label, lines in cov.get("anchor_unreached_lines", {}).items():
        mod = label.split(":")[0]
        path = os.path.join(REPO, mod.replace(".", "/") + ".py")
        starts, src = stmt_lines(path)
        ls = [l for l in lines if l in starts]
        if not ls:
            continue
        print(f"-- {label}: reached {cov['anchor_reach_lines'][label]}/{cov['anchor_code_lines'][label]}")
        for l in ls:
            print(f"   {l}: {src[l-1].strip()[:110]}")
