#!/bin/sh
# round 8: staging /var/tmp/mutants8, results /var/tmp/seedres8
mkdir -p /var/tmp/seedres8
for P in "$@"; do
  for m in /var/tmp/mutants8/$P/m*; do
    [ -d "$m" ] || continue
    n=$(basename $m)
    /verif/tools/try_mutant.py $m $P > /var/tmp/seedres8/$P-$n.json 2>/dev/null
  done
done
