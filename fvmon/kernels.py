"""Einsum-like kernels interpreted in the library's idiom (intersection to co-iterate factors, populate
to drive the output, in-place payload update to reduce) + a dense nested-loop reference.

A kernel spec (JSON-able):
  {"ops": [["A", "mk"], ["B", "kn"]], "out": "mn", "ext": {"m": 3, "k": 4, "n": 2},
   "vals": {"A": <nest>, "B": <nest>}, "order": ["m", "k", "n"], "tiles": {"k": 2}, "style": "two-finger"}
Tiling a variable v with size s replaces v in the loop order by the two loop variables "v1" (tile) and
"v0" (element, absolute coordinate); `order` then lists "v1"/"v0" instead of "v".
"""
import itertools

from fibertree import Fiber, Payload, Tensor

FAMILIES = [
    # (operands, out)
    ([["A", "k"], ["B", "k"]], ""),            # dot product
    ([["A", "mk"], ["B", "k"]], "m"),          # matrix-vector
    ([["A", "km"], ["B", "k"]], "m"),          # transposed matrix-vector
    ([["A", "mk"], ["B", "kn"]], "mn"),        # matrix-matrix
    ([["A", "mk"], ["B", "nk"]], "mn"),        # matrix-matrix, B transposed
    ([["A", "m"], ["B", "m"]], "m"),           # element-wise product
    ([["A", "mn"], ["B", "mn"]], "mn"),        # element-wise product 2D
    ([["A", "mk"]], "m"),                      # row reduction
    ([["A", "mk"]], "k"),                      # column reduction
    ([["A", "mk"]], ""),                       # full reduction
    ([["A", "mk"]], "km"),                     # transpose copy
    ([["A", "m"]], "m"),                       # copy
    ([["A", "mk"], ["B", "k"], ["C", "m"]], "m"),     # 3-operand chain
    ([["A", "mk"], ["B", "kn"], ["C", "n"]], "m"),    # 3-operand chain with 3 variables
    ([["A", "m"], ["B", "n"]], "mn"),          # outer product
    ([["A", "mnk"], ["B", "k"]], "mn"),        # 3-index operand
    ([["A", "mnk"], ["B", "k"]], "m"),         # 3-index operand, two reductions
]

# three operands co-iterated on one rank (used by C06 only: the trace oracles of C15/C16 assume two per level)
FAMILIES3 = [
    ([["A", "k"], ["B", "k"], ["C", "k"]], ""),       # triple dot product
    ([["A", "mk"], ["B", "k"], ["C", "k"]], "m"),     # matrix times two vectors
    ([["A", "mk"], ["B", "mk"], ["C", "k"]], "m"),    # two matrices and a vector
    ([["A", "m"], ["B", "m"], ["C", "m"], ["D", "m"]], "m"),    # four-way element-wise product
]


def rid(v):
    return v.upper()


def variables(spec):
    seen = []
    for _, idx in spec["ops"]:
        for v in idx:
            if v not in seen:
                seen.append(v)
    return seen


def rand_spec(rng, family=None, tiles=True, empties=True, big=False):
    ops, out = family if family is not None else rng.choice(FAMILIES)
    ops = [list(o) for o in ops]
    vs = []
    for _, idx in ops:
        for v in idx:
            if v not in vs:
                vs.append(v)
    ext = {v: rng.randint(1, 5) for v in vs}
    if big:
        # one long rank (searches and shortcuts inside long fibers), the others short
        ext = {v: rng.randint(1, 3) for v in vs}
        ext[rng.choice(vs)] = rng.randint(17, 40)
    vals = {}
    for name, idx in ops:
        dens = rng.choice([0.0, 0.3, 0.6, 0.9, 1.0]) if empties else rng.choice([0.4, 0.7, 1.0])
        vals[name] = _rand_nest(rng, [ext[v] for v in idx], dens)
    order = list(vs)
    rng.shuffle(order)
    spec = {"ops": ops, "out": out, "ext": ext, "vals": vals, "order": order, "tiles": {}, "style": "two-finger"}
    if tiles and rng.random() < 0.4:
        v = rng.choice(vs)
        spec["tiles"] = {v: rng.randint(1, ext[v] + 1)}
        spec["order"] = tile_order(rng, order, spec["tiles"])
        if rng.random() < 0.35:
            # the same tiling written as `tensor / parts` after bringing the rank to the top (the tile size then
            # comes from the declared extent of the swizzled tensor's top rank)
            parts = rng.randint(1, 4)
            spec["div"] = {v: parts}
            spec["tiles"] = {v: (ext[v] + parts - 1) // parts}
    if rng.random() < 0.3:
        spec["style"] = "leader-follower"
    return spec


def tile_order(rng, order, tiles):
    out = list(order)
    for v in tiles:
        i = out.index(v)
        out[i:i + 1] = [v + "0"]
        j = rng.randint(0, out.index(v + "0"))
        out.insert(j, v + "1")
    return out


def all_orders(spec):
    """Every legal loop order of the (possibly tiled) kernel: permutations with v1 before v0."""
    base = []
    for v in variables(spec):
        if v in spec["tiles"]:
            base += [v + "1", v + "0"]
        else:
            base.append(v)
    for perm in itertools.permutations(base):
        ok = all(perm.index(v + "1") < perm.index(v + "0") for v in spec["tiles"])
        if ok:
            yield list(perm)


def _rand_nest(rng, shape, density):
    if not shape:
        return rng.choice([1, 2, 3, -1, -2])
    if len(shape) == 1:
        return [(rng.choice([1, 2, 3, -1, -2, 4]) if rng.random() < density else 0) for _ in range(shape[0])]
    return [_rand_nest(rng, shape[1:], density) for _ in range(shape[0])]


# ------------------------------------------------------------------------------------------
# dense reference
# ------------------------------------------------------------------------------------------
def dense(spec):
    """{output point (in `out` order): value} for non-zero results, by plain nested loops over Python lists."""
    vs = variables(spec)
    ext = spec["ext"]
    res = {}
    for pt in itertools.product(*[range(ext[v]) for v in vs]):
        env = dict(zip(vs, pt))
        prod = 1
        for name, idx in spec["ops"]:
            x = spec["vals"][name]
            for v in idx:
                x = x[env[v]]
            prod *= x
            if prod == 0:
                break
        if prod != 0:
            key = tuple(env[v] for v in spec["out"])
            res[key] = res.get(key, 0) + prod
    return {k: v for k, v in res.items() if v != 0}


# ------------------------------------------------------------------------------------------
# building operands in the library
# ------------------------------------------------------------------------------------------
def loop_vars_of(idx, spec):
    """index string of an operand -> list of loop variables after tiling, in operand rank order"""
    out = []
    for v in idx:
        if v in spec["tiles"]:
            out += [v + "1", v + "0"]
        else:
            out.append(v)
    return out


def build(spec, fmts=None, zinit=None):
    """-> (operand tensors in concordant order {name: Tensor}, Z tensor, per-operand loop-var lists)"""
    order = spec["order"]
    tensors, lvars = {}, {}
    for name, idx in spec["ops"]:
        ids = [rid(v) for v in idx]
        shape = [spec["ext"][v] for v in idx]
        if spec.get("noshape") and idx:
            # operand without a declared shape: every rank's shape is the library's running estimate
            # (fibers made of explicit coordinate / payload lists: their extents are estimates too)
            from . import gen
            cont = gen.nest_content(spec["vals"][name], 0)
            t = Tensor.fromFiber(rank_ids=ids, fiber=gen.fiber_from_spec(gen.spec_from_content(cont, len(idx))), name=name)
        else:
            t = Tensor.fromUncompressed(rank_ids=ids, root=spec["vals"][name], shape=shape, name=name)
        lv = list(idx)
        for v, size in spec["tiles"].items():
            if v in idx and v in spec.get("div", {}) and not spec.get("noshape"):
                front = [v] + [x for x in lv if x != v]
                if front != lv:
                    t = t.swizzleRanks([rid(x) for x in front])
                    lv = front
                t = t / spec["div"][v]
                lv[0:1] = [v + "1", v + "0"]
                t.setRankIds([rid(x) for x in lv])
            elif v in idx:
                t = t.splitUniform(size, rankid=rid(v))
                i = lv.index(v)
                lv[i:i + 1] = [v + "1", v + "0"]
                t.setRankIds([rid(x) for x in lv])
        want = sorted(lv, key=order.index)
        if want != lv:
            t = t.swizzleRanks([rid(x) for x in want])
            lv = want
        tensors[name] = t
        lvars[name] = lv
    zl = sorted(loop_vars_of(spec["out"], spec), key=order.index)
    zshape = [spec["ext"][x[0]] for x in zl]
    if zinit and zl:
        from . import gen
        Z = gen.tensor_from_spec(zinit, [rid(x) for x in zl], shape=zshape, default=0, name="Z", mutable=True)
    else:
        Z = Tensor(rank_ids=[rid(x) for x in zl], shape=zshape, name="Z")
    fmts = fmts if fmts is not None else spec.get("fmts")
    if fmts:
        want = {(n, r) for n, r in fmts}
        for name, t in list(tensors.items()) + [("Z", Z)]:
            for r in t.getRankIds():
                if (name, r) in want:
                    t.setFormat(r, "U")
    return tensors, Z, lvars, zl


class Observer:
    """Hooks called by the executor (all optional)."""

    def level_start(self, d, var, part_names, cur, zcur, is_out, point):
        pass

    def body(self, d, var, coord, point):
        pass

    def after_body(self, d, var, coord, point):
        pass

    def leaf(self, point, factors, prod, updated, old=None):
        pass

    def level_end(self, d, var, point):
        pass


def execute(spec, tensors, Z, lvars, zl, observer=None, nested_and=True):
    """Run the kernel on the real library.  Returns the number of leaf bodies executed."""
    order = spec["order"]
    style = spec["style"]
    names = [n for n, _ in spec["ops"]]
    obs = observer or Observer()
    count = [0]
    zroot = Z.getRoot()

    def level(d, cur, zcur, point):
        if d == len(order):
            vals = [cur[n] for n in names]
            prod = vals[0]
            for x in vals[1:]:
                prod = prod * x
            updated = False
            old = Payload.get(zcur)
            if style != "leader-follower" or Payload.get(prod) != 0:
                zcur += prod
                updated = True
            count[0] += 1
            obs.leaf(point, vals, prod, updated, old)
            return
        v = order[d]
        part = [n for n in names if v in lvars[n]]
        is_out = v in zl
        obs.level_start(d, v, part, cur, zcur, is_out, point)
        fibers = [cur[n] for n in part]
        if len(fibers) == 1:
            co = fibers[0]
        elif style == "leader-follower":
            co = Fiber.intersection(*fibers, style="leader-follower")
        elif nested_and == "right" and len(fibers) > 2:
            co = fibers[-1]
            for f in reversed(fibers[:-1]):
                co = f & co         # a & (b & (c & d))
        elif nested_and or len(fibers) == 2:
            co = fibers[0] & fibers[1]
            for f in fibers[2:]:
                co = co & f
        else:
            co = Fiber.intersection(*fibers)
        it = (zcur << co) if is_out else co
        for c, p in it:
            if is_out:
                z_ref, p = p
            else:
                z_ref = zcur
            pv = Payload.get(p) if len(fibers) > 1 else p
            if len(fibers) == 1:
                flat = [pv]
            elif style == "leader-follower" or not (nested_and or len(fibers) == 2):
                flat = list(pv)
            elif nested_and == "right" and len(fibers) > 2:
                flat = []
                x = pv
                while len(flat) < len(fibers) - 2:
                    flat.append(x[0])
                    x = Payload.get(x[1])
                flat += [x[0], x[1]]
            else:
                flat = []
                x = pv
                while True:
                    flat.append(x[1])
                    if len(flat) == len(fibers) - 1:
                        flat.append(x[0])
                        break
                    x = Payload.get(x[0])
                flat.reverse()
            nxt = dict(cur)
            for n, val in zip(part, flat):
                nxt[n] = val
            obs.body(d, v, c, point + [c])
            level(d + 1, nxt, z_ref, point + [c])
            obs.after_body(d, v, c, point + [c])
        obs.level_end(d, v, point)

    cur0 = {n: tensors[n].getRoot() for n in names}
    level(0, cur0, zroot, [])
    return count[0]


def z_content(spec, Z, zl):
    """Content of Z mapped back to the `out` index order, tile coordinates dropped; zeros ignored."""
    from .observe import content
    raw = content(Z, 0)
    out = {}
    keep = [i for i, x in enumerate(zl) if not x.endswith("1")]
    names = [zl[i][0] for i in keep]
    for pt, v in raw.items():
        if not zl:
            out[()] = v
            continue
        env = {names[j]: pt[i] for j, i in enumerate(keep)}
        key = tuple(env[x] for x in spec["out"])
        out[key] = out.get(key, 0) + v
    return {k: v for k, v in out.items() if v != 0}
