"""History workloads: random sequences of public mutating operations on a tree, executed on the real
library with a callback at every *quiescent point* (after each step, at each yield of a populate /
dense-reference loop to the client body, after an aborted loop).  Used by C01 (well-formedness) and
C02 (rank bookkeeping); each of them plugs in its own monitor.

A history case is {"init": <initial tree config>, "ops": [<op dict>, ...]}; everything is JSON-able and
rebuilt through public constructors only.
"""
import copy
import os
import random
import tempfile

from fibertree import Fiber, Payload, Tensor, CoordPayload
from fibertree.core.fiber import CoordinateError

from . import gen
from .observe import unbox

ACTS_LEAF = ["set", "add", "leave", "default", "set", "mul", "sub"]


# ------------------------------------------------------------------------------------------
# initial trees
# ------------------------------------------------------------------------------------------
def gen_init(rng, want_tensor=None, max_depth=3, ctors=None):
    depth = rng.randint(1, max_depth)
    tensor = rng.random() < 0.75 if want_tensor is None else want_tensor
    if depth > 1:
        # multi-level trees are tensors: nothing says what the default of an interior level of a free fiber is
        # (a single-coordinate insertion there stores a leaf among fibers), so free fibers are one level deep
        tensor = True if want_tensor is None else want_tensor
    ext = [rng.randint(1, 5) for _ in range(depth)]
    default = rng.choice([0, 0, 0, 7])
    dirty = rng.choice([0.0, 0.4, 0.7])
    if not tensor and depth == 1 and want_tensor is None and rng.random() < 0.4:
        default, dirty = None, 0.0      # the documented "no empty value" setting: insertions of absent coordinates are rejected
    spec = gen.rand_tree_spec(rng, ext, rng.choice([0.3, 0.6, 0.9]), dirty if tensor or depth == 1 else 0.0, default)
    init = {"depth": depth, "ext": ext, "default": default, "spec": spec, "own": "tensor" if tensor else "free",
            "shape": [e + rng.choice([0, 0, 2]) for e in ext] if rng.random() < 0.8 else None,
            "ctor": "fromFiber", "seed": rng.randrange(1 << 30)}
    if tensor:
        init["ctor"] = rng.choice(ctors or ["fromFiber", "fromFiber", "fromUncompressed", "empty", "fromRandom", "deepcopy",
                                            "fromYAMLfile", "makePopulated", "fromFiber-owned", "split", "swizzle",
                                            "flatten-unflatten", "swap"])
        if init["ctor"] in ("fromUncompressed", "fromRandom", "makePopulated", "fromYAMLfile") and init["shape"] is None:
            init["shape"] = list(ext)
        if init["ctor"] in ("fromYAMLfile", "fromRandom", "makePopulated"):
            init["default"] = 0
            if init["ctor"] == "fromYAMLfile":
                init["spec"] = gen.rand_tree_spec(rng, ext, 0.6, dirty, 0)
    else:
        init["shape"] = [max(ext) + 1] if rng.random() < 0.6 else None
        init["ctor"] = rng.choice(["Fiber", "fromCoordPayloadList", "fromUncompressed", "fromRandom"])
    return init


def build_init(init):
    """-> (root fiber, tensor or None, list of other tensors that must stay consistent)"""
    d = init["default"]
    depth = init["depth"]
    ids = gen.rank_ids_for(depth)
    others = []
    ctor = init["ctor"]
    if init["own"] == "free":
        spec = init["spec"]
        shape = init["shape"][0] if init["shape"] else None
        if ctor == "fromCoordPayloadList" and spec and gen.is_leaf_spec(spec):
            f = Fiber.fromCoordPayloadList([(c, v) for c, v in spec], default=d, **({"shape": shape} if shape else {}))
        elif ctor == "fromUncompressed" and depth == 1:
            n = (max([c for c, _ in spec]) + 1) if spec else 2
            dense = [d] * n
            for c, v in spec:
                dense[c] = v
            f = Fiber.fromUncompressed(dense, default=d)
        elif ctor == "fromRandom" and depth == 1:
            f = Fiber.fromRandom([init["ext"][0] + 2], 0.6, seed=init["seed"], default=d)
        else:
            f = gen.fiber_from_spec(spec, d, **({"shape": shape} if shape else {}))
        return f, None, others
    shape = init["shape"]
    if ctor == "empty":
        t = Tensor(rank_ids=ids, shape=shape, default=d)
    elif ctor == "fromUncompressed":
        nest = _nest_of(init["spec"], shape, d)
        t = Tensor.fromUncompressed(rank_ids=ids, root=nest, shape=shape, default=d)
    elif ctor == "fromRandom":
        t = Tensor.fromRandom(rank_ids=ids, shape=shape, density=[0.7] * depth, seed=init["seed"], default=d)
    elif ctor == "makePopulated":
        t = Tensor.makePopulated(ids, shape, initial=1 + init["seed"] % 3, default=d)
    elif ctor == "fromYAMLfile":
        t0 = gen.tensor_from_spec(init["spec"], ids, shape=shape, default=0)
        tmp = tempfile.mkdtemp(prefix="fvh-")
        try:
            path = os.path.join(tmp, "t.yaml")
            t0.dump(path)
            t = Tensor.fromYAMLfile(path)
        finally:
            for fn in os.listdir(tmp):
                os.remove(os.path.join(tmp, fn))
            os.rmdir(tmp)
    elif ctor == "deepcopy":
        t0 = gen.tensor_from_spec(init["spec"], ids, shape=shape, default=d)
        t = copy.deepcopy(t0)
        others.append(t0)
    elif ctor == "fromFiber-owned":
        t0 = gen.tensor_from_spec(init["spec"], ids, shape=shape, default=d)
        t = Tensor.fromFiber(rank_ids=ids, fiber=t0.getRoot(), shape=shape, default=d)
        others.append(t0)
    elif ctor == "split":
        t0 = gen.tensor_from_spec(init["spec"], ids, shape=shape, default=d)
        k = init["seed"] % depth
        t = t0.splitUniform(2, depth=k)
        others.append(t0)
    elif ctor == "swizzle" and depth >= 2:
        t0 = gen.tensor_from_spec(gen.canonical_spec(init["spec"], d), ids, shape=shape, default=d)
        perm = list(ids)
        random.Random(init["seed"]).shuffle(perm)
        t = t0.swizzleRanks(perm)
        others.append(t0)
    elif ctor == "flatten-unflatten" and depth >= 2:
        t0 = gen.tensor_from_spec(init["spec"], ids, shape=shape, default=0)
        init = dict(init, default=0)
        tf = t0.flattenRanks(depth=0, levels=1)
        if tf.getRoot().coords:
            t = tf.unflattenRanks(depth=0, levels=1)
            others += [t0, tf]
        else:
            t = t0
    elif ctor == "swap" and depth >= 2:
        t0 = gen.tensor_from_spec(init["spec"], ids, shape=shape, default=d)
        t = t0.swapRanks(0)
        others.append(t0)
    else:
        t = gen.tensor_from_spec(init["spec"], ids, shape=shape, default=d)
    return t.getRoot(), t, others


def _nest_of(spec, shape, d):
    def rec(ts, lvl):
        row = []
        m = {c: p for c, p in ts} if ts else {}
        for i in range(shape[lvl]):
            if lvl == len(shape) - 1:
                v = m.get(i, d)
                row.append(v if not isinstance(v, list) else d)
            else:
                sub = m.get(i, [])
                row.append(rec(sub if isinstance(sub, list) else [], lvl + 1))
        return row
    return rec(spec, 0)


# ------------------------------------------------------------------------------------------
# operation generation
# ------------------------------------------------------------------------------------------
C01_OPS = ["ref", "ref", "ref", "refprefix", "stale", "append", "append", "extend", "setitem", "setitem_cp", "setitem_cp",
           "fiber_iadd_s", "fiber_imul_s", "fiber_iadd_f", "fiber_imul_f", "fiber_ilshift", "populate", "populate",
           "iterref", "iterref", "updateCoords", "updatePayloads", "clear", "get", "insertlookup"]
C02_OPS = ["ref", "ref", "ref", "refprefix", "refprefix", "get", "get", "populate", "populate", "populate", "iterref",
           "iterref", "coiterref", "fiber_ilshift", "clear", "coiter_read", "coiter_read", "stale", "insertlookup", "insertlookup", "setroot"]


def gen_ops(rng, init, n, alphabet, interior_removal=True):
    ext = init["ext"]
    depth = init["depth"]
    ops = []
    for _ in range(n):
        kind = rng.choice(alphabet)
        path = [rng.randrange(8) for _ in range(rng.randint(0, depth - 1))]
        op = {"op": kind, "path": path, "seed": rng.randrange(1 << 20)}
        pt = [rng.randint(0, e + 1) for e in ext]
        if kind == "ref":
            op.update(pt=pt, act=rng.choice(["none", "set", "add", "mul", "sub", "default", "set"]),
                      v=rng.choice([1, 2, 3, -1, 0, 5]), hold=rng.random() < 0.3, cp=rng.random() < 0.15)
        elif kind == "refprefix":
            op.update(pt=pt[:rng.randint(1, max(1, depth - 1))] if depth > 1 else pt)
        elif kind == "get":
            op.update(pt=pt[:rng.randint(1, depth)], allocate=rng.random() < 0.6)
        elif kind == "setroot":
            op.update(shape=rng.choice(["empty", "empty-first-child", "full", "full", "own-root", "own-root-edited"]))
        elif kind == "insertlookup":
            op.update(c=rng.randint(0, 7), v=rng.choice([None, None, 3]), then=rng.choice([None, "insert", "ref"]), c2=rng.randint(0, 4))
        elif kind == "stale":
            op.update(k=rng.randrange(8), act=rng.choice(["set", "add", "mul", "default"]), v=rng.choice([1, 2, -3, 0]))
        elif kind == "append":
            op.update(delta=rng.choice([1, 1, 2, 0, -1, -3]), v=rng.choice([1, 2, 0, 4]), cpval=rng.random() < 0.25)
        elif kind == "extend":
            op.update(delta=rng.choice([1, 2, 0, -2]), n=rng.randint(0, 4), zmask=rng.choice([0, 0, 1, 2, 5, 15]))
        elif kind == "setitem":
            op.update(pos=rng.randint(-2, 6), v=rng.choice([1, 0, 9, -4]), cpval=rng.random() < 0.25)
        elif kind == "setitem_cp":
            op.update(pos=rng.randint(-3, 6), cmode=rng.choice(["keep", "gap", "prev", "next", "below", "above", "same"]),
                      v=rng.choice([None, 1, 0, 8]))
        elif kind in ("fiber_iadd_s", "fiber_imul_s"):
            op.update(s=rng.choice([1, 2, -1, 0, 3]))
        elif kind in ("fiber_iadd_f", "fiber_imul_f"):
            pass
        elif kind in ("fiber_ilshift", "clear"):
            op["leaf_only"] = not interior_removal
            op["deeper"] = kind == "fiber_ilshift" and rng.random() < 0.3
        elif kind == "populate":
            op.update(stop=rng.choice([None, None, None, "break", "raise"]), at=rng.randint(0, 3))
        elif kind in ("iterref", "coiterref"):
            op.update(mode=rng.choice(["iterShapeRef", "iterActiveShapeRef", "iterRangeShapeRef", "iterRangeShapeRef"]), s=rng.randint(0, 3),
                      e=rng.randint(0, 7), step=rng.choice([1, 1, 2, -1, -2]), stop=rng.choice([None, None, 1, 3]),
                      path2=[rng.randrange(8) for _ in range(len(path))])
            if op["step"] < 0:      # a descending range
                op["s"], op["e"] = max(op["s"], op["e"]) + 1, min(op["s"], op["e"]) - 1
        elif kind == "updateCoords":
            # maps that move every coordinate, and maps that move one coordinate past its neighbours and leave the rest alone
            op.update(fn=rng.choice(["shift", "double", "reverse", "neg", "move-one", "move-one", "swap-two", "reverse-bad-shape", "to-tuple"]),
                      depth=rng.randint(0, max(0, depth - 1)),
                      k=rng.randrange(8), to=rng.choice([-1, 1, 2, 3]), by_rankid=rng.random() < 0.3)
        elif kind == "updatePayloads":
            op.update(fn=rng.choice(["inc", "box-inc", "zero", "same", "elem-op"]), depth=rng.randint(0, max(0, depth - 1)),
                      by_rankid=rng.random() < 0.3)
        elif kind == "coiter_read":
            op.update(opr=rng.choice(["|", "^", "&", "-", "==", "+", "uncompress"]),
                      path2=[rng.randrange(8) for _ in range(len(path))])
        ops.append(op)
    return ops


# ------------------------------------------------------------------------------------------
# execution
# ------------------------------------------------------------------------------------------
class Rejected(Exception):
    pass


def _target_rankid(ctx, f, lvl, dd):
    """Id of the rank `dd` levels below the fiber `f` (itself at level `lvl` of a tensor's tree), when the tree has
    distinct, known rank ids: `updateCoords` / `updatePayloads` accept it in place of the depth."""
    if ctx.tensor is None:
        return None
    ids = ctx.tensor.getRankIds()
    if lvl + dd >= len(ids) or len(set(map(str, ids))) != len(ids):
        return None
    rid = ids[lvl + dd]
    return rid if isinstance(rid, str) else None


class StopHistory(Exception):
    """Raised by a hook to end the history (after the first violation: later states are tainted)."""


class Ctx:
    def __init__(self, init, root, tensor, hooks):
        self.init, self.root, self.tensor, self.hooks = init, root, tensor, hooks
        self.depth = init["depth"]
        self.default = init["default"]
        self.held = []
        self.stats = {}

    def level_depth(self):
        if self.tensor is not None:
            return len(self.tensor.ranks)
        return self.depth

    def resolve(self, path):
        """Fiber reached by following stored positions (mod length); returns (fiber, level)."""
        f, lvl = self.root, 0
        for i in path:
            if not f.payloads:
                break
            p = f.payloads[i % len(f.payloads)]
            if not isinstance(p, Fiber):
                break
            f, lvl = p, lvl + 1
        return f, lvl

    def is_leaf_level(self, lvl):
        return lvl == self.level_depth() - 1

    def subspec(self, seed, lvl):
        """Random spec for a fiber living at level `lvl` (so of depth level_depth()-lvl)."""
        r = random.Random(seed)
        ext = (self.init["ext"] + [3, 3, 3])[:self.level_depth()]
        while len(ext) < self.level_depth():
            ext.append(3)
        return gen.rand_tree_spec(r, [e + 1 for e in ext[lvl:]], 0.6, 0.3, self.default)


def _leaf_action(ref, act, v, default):
    if act == "set":
        ref <<= v
    elif act == "add":
        ref += v
    elif act == "mul":
        ref *= v
    elif act == "sub":
        ref -= v
    elif act == "default":
        ref <<= default
    return ref


def run_history(init, ops, hooks):
    """hooks: object with .quiescent(label, ctx), .before_step(i, op, ctx), .rejected(label, ctx, exc),
    .unexpected(label, ctx, exc), .skipped(label)."""
    root, tensor, others = build_init(init)
    ctx = Ctx(init, root, tensor, hooks)
    ctx.others = others
    try:
        hooks.quiescent("init", ctx)
        for i, op in enumerate(ops):
            label = op["op"]
            hooks.before_step(i, op, ctx)
            try:
                r = apply_op(ctx, op)
                if r == "skip":
                    hooks.skipped(label)
                    continue
            except StopHistory:
                raise
            except Rejected as e:
                hooks.rejected(label, ctx, e.__cause__ or e)
            except BaseException as e:      # noqa
                if isinstance(e, KeyboardInterrupt):
                    raise
                hooks.unexpected(label, ctx, e)
            hooks.quiescent(label, ctx)
    except StopHistory:
        pass
    return ctx


class BodyStop(Exception):
    pass


def apply_op(ctx, op):
    kind = op["op"]
    d = ctx.default
    depth = ctx.level_depth()
    H = ctx.hooks
    if kind == "ref":
        pt = op["pt"][:depth]
        target = ctx.tensor if ctx.tensor is not None else ctx.root
        ref = target.getPayloadRef(*pt)
        H.quiescent("ref:created", ctx)
        _leaf_action(ref, op["act"], op["v"], d)
        if op.get("cp"):
            ref += CoordPayload(0, op["v"])
        if op.get("hold"):
            ctx.held.append(ref)
        return
    if kind == "refprefix":
        if depth < 2:
            return "skip"
        pt = op["pt"][:max(1, min(len(op["pt"]), depth - 1))]
        target = ctx.tensor if ctx.tensor is not None else ctx.root
        sub = target.getPayloadRef(*pt)
        return
    if kind == "get":
        pt = op["pt"][:depth]
        target = ctx.tensor if ctx.tensor is not None else ctx.root
        present = _present(ctx, pt)
        if op["allocate"]:
            p = target.getPayload(*pt)
        else:
            p = target.getPayload(*pt, allocate=False, default=None)
        if not present and isinstance(p, Payload) and not isinstance(unbox(p), Fiber):
            p <<= 99        # mutating a synthesised default must not reach the tree
        return
    if kind == "stale":
        if not ctx.held:
            return "skip"
        ref = ctx.held[op["k"] % len(ctx.held)]
        _leaf_action(ref, op["act"], op["v"], d)
        return
    f, lvl = ctx.resolve(op["path"])
    leaf = ctx.is_leaf_level(lvl)
    if kind == "append":
        mx = f.coords[-1] if f.coords else -1
        c = mx + op["delta"]
        v = op["v"] if leaf else gen.fiber_from_spec(ctx.subspec(op["seed"], lvl + 1), d)
        if leaf and op.get("cpval"):
            v = Payload(op["v"]) + CoordPayload(0, 1)      # a box produced by box-with-element arithmetic
        if ctx.tensor is not None and not leaf:
            return "skip"          # a raw sub-fiber appended into a tensor bypasses its ranks: not a public tensor mutation
        if f.coords and c <= mx:
            try:
                f.append(c, v)
            except AssertionError as e:
                raise Rejected() from e
            raise RuntimeError("append accepted a non-increasing coordinate")
        if c < 0:
            return "skip"
        f.append(c, v)
        return
    if kind == "setroot":
        # re-rooting a populated tensor: by an empty fiber (a reset), by a tree whose first sub-fiber is empty, by a full tree
        if ctx.tensor is None or any(isinstance(i, list) for i in ctx.tensor.getRankIds()):
            return "skip"
        if op["shape"] in ("own-root", "own-root-edited"):
            # the tensor is handed its own root again (the idiom for rebuilding the rank lists after editing the tree by hand):
            # whether setRoot() adopts the fiber or a copy of it, every rank must list exactly the fibers of the tree it ends up with
            own = ctx.tensor.getRoot()
            if op["shape"] == "own-root-edited" and depth > 1 and own.coords and isinstance(own.payloads[-1], Fiber):
                # ... after a raw edit: a new unowned sub-tree appended behind the last element
                sp = ctx.subspec(op["seed"], 1)
                if sp:
                    own.append(own.coords[-1] + 1, gen.fiber_from_spec(sp, d))
            ctx.tensor.setRoot(own)
            ctx.root = ctx.tensor.getRoot()
            ctx.held = []
            return
        if op["shape"] == "empty":
            new = Fiber()
        else:
            sp = ctx.subspec(op["seed"], 0)
            if not sp:
                return "skip"
            if op["shape"] == "empty-first-child" and depth > 1:
                sp = [[sp[0][0], []]] + sp[1:]
            new = gen.fiber_from_spec(sp, d)
        ctx.tensor.setRoot(new)
        ctx.root = ctx.tensor.getRoot()
        ctx.held = []
        return
    if kind == "insertlookup":
        # the deprecated (still public) insert-or-lookup wrapper: a missing coordinate gets the level's default payload
        import warnings
        with warnings.catch_warnings():
            warnings.simplefilter("ignore")
            v = op["v"] if leaf else None
            p = f.insertOrLookup(op["c"], v) if v is not None else f.insertOrLookup(op["c"])
            H.quiescent("insertlookup:created", ctx)
            if isinstance(p, Fiber) and op.get("then"):
                if op["then"] == "insert" or ctx.is_leaf_level(lvl + 1) is False:
                    q = p.insertOrLookup(op["c2"])
                else:
                    q = p.getPayloadRef(op["c2"])
                if isinstance(q, Payload) and not isinstance(unbox(q), Fiber):
                    q <<= 4
        return
    if kind == "extend":
        if not leaf:
            return "skip"
        mx = f.coords[-1] if f.coords else -1
        start = mx + op["delta"]
        # the operand may hold explicit default-valued payloads (bits of zmask)
        zm = op.get("zmask", 0)
        other = Fiber([start + i for i in range(op["n"])], [(d if (zm >> i) & 1 and d is not None else 1 + i) for i in range(op["n"])], default=d)
        if op["n"] and f.coords and start <= mx:
            try:
                f.extend(other)
            except AssertionError as e:
                raise Rejected() from e
            raise RuntimeError("extend accepted a non-increasing coordinate")
        if start < 0:
            return "skip"
        f.extend(other)
        return
    if kind == "setitem":
        if not leaf:
            return "skip"
        pos = op["pos"]
        n = len(f.coords)
        if pos >= n or pos < -n:
            try:
                f[pos] = op["v"]
            except IndexError as e:
                raise Rejected() from e
            raise RuntimeError("position assignment out of range was accepted")
        f[pos] = (Payload(op["v"]) * CoordPayload(0, 2)) if op.get("cpval") else op["v"]
        return
    if kind == "setitem_cp":
        if not leaf:
            return "skip"
        pos = op["pos"]
        n = len(f.coords)
        if n == 0 or pos >= n or pos < -n:
            try:
                f[pos] = CoordPayload(1, op["v"])
            except IndexError as e:
                raise Rejected() from e
            raise RuntimeError("position assignment out of range was accepted")
        ap = pos % n
        cur = f.coords[ap]
        prev = f.coords[ap - 1] if ap > 0 else None
        nxt = f.coords[ap + 1] if ap + 1 < n else None
        cm = op["cmode"]
        if cm == "keep":
            c = None
        elif cm == "same":
            c = cur
        elif cm == "gap":
            lo = (prev + 1) if prev is not None else cur - 2
            hi = (nxt - 1) if nxt is not None else cur + 2
            c = lo if lo <= hi else cur
        elif cm == "prev":
            c = prev if prev is not None else cur
        elif cm == "next":
            c = nxt if nxt is not None else cur
        elif cm == "below":
            c = (prev - 1) if prev is not None else cur - 1
        else:
            c = (nxt + 1) if nxt is not None else cur + 1
        legal = c is None or ((prev is None or c > prev) and (nxt is None or c < nxt))
        if c is not None and c < 0:
            return "skip"
        if not legal:
            try:
                f[pos] = CoordPayload(c, op["v"])
            except CoordinateError as e:
                raise Rejected() from e
            raise RuntimeError("position assignment with an order-violating coordinate was accepted")
        f[pos] = CoordPayload(c, op["v"])
        return
    if kind in ("fiber_iadd_s", "fiber_imul_s"):
        if not leaf:
            return "skip"
        if kind == "fiber_iadd_s":
            f += op["s"]
        else:
            f *= op["s"]
        return
    if kind in ("fiber_iadd_f", "fiber_imul_f"):
        if not leaf:
            return "skip"
        g = gen.fiber_from_spec(ctx.subspec(op["seed"], lvl), d)
        if kind == "fiber_iadd_f":
            f += g
        else:
            f *= g
        return
    if kind == "fiber_ilshift" and ctx.tensor is None and op.get("deeper"):
        # assignment of a two-level tree onto an unowned fiber that already holds elements: the fiber takes
        # over the source's shape of tree (its default becomes Fiber).  Ends the history: depth changed.
        r = random.Random(op["seed"])
        src = gen.rand_tree_spec(r, [3, 3], 0.8, 0.0, d)
        if not src or not ctx.root.coords:
            return "skip"
        try:
            ctx.root <<= gen.fiber_from_spec(src, d)
        except BaseException as e:      # noqa  (rejected half-way, e.g. no default to create: still ends the history)
            if isinstance(e, KeyboardInterrupt):
                raise
            H.unexpected(kind, ctx, e)
        ctx.hooks.quiescent("fiber_ilshift:deeper", ctx)
        raise StopHistory()
    if kind == "fiber_ilshift":
        gs = ctx.subspec(op["seed"], lvl)
        if op.get("leaf_only") and not leaf:
            return "skip"
        if not leaf and (ctx.tensor is None or not gs or not isinstance(gs[0][1], list)):
            return "skip"       # an interior assignment needs a source whose depth is recognisable
        g = gen.fiber_from_spec(gs, d)
        f <<= g
        return
    if kind == "populate":
        src = gen.fiber_from_spec(ctx.subspec(op["seed"], lvl), d)
        try:
            _populate(ctx, f, src, lvl, op["seed"], op.get("stop"), op.get("at", 0), [0])
        except BodyStop:
            H.quiescent("populate:aborted", ctx)
        return
    if kind == "iterref":
        mode = op["mode"]
        if mode == "iterRangeShapeRef":
            it = f.iterRangeShapeRef(op["s"], op["e"], op["step"])
        else:
            it = getattr(f, mode)()
        for k, (c, p) in enumerate(it):
            H.quiescent(f"{mode}:yield", ctx)
            if leaf and isinstance(p, Payload) and (op["seed"] + c) % 3 == 0:
                p += 1 + c % 2
            if op["stop"] is not None and k >= op["stop"]:
                break
        return
    if kind == "coiterref":
        g, lvl2 = ctx.resolve(op["path2"])
        if lvl2 != lvl:
            return "skip"
        fibers = [f] if g is f else [f, g]
        mode = "co" + op["mode"][0].upper() + op["mode"][1:]
        if "Range" in mode:
            res = getattr(Fiber, mode)(fibers, op["s"], op["e"], op["step"])
        else:
            res = getattr(Fiber, mode)(fibers)
        for k, (c, ps) in enumerate(res):
            H.quiescent(f"{mode}:yield", ctx)
            if op["stop"] is not None and k >= op["stop"]:
                break
        return
    if kind == "updateCoords":
        dd = min(op["depth"], depth - 1 - lvl)
        fn = op["fn"]
        K = 50
        fns = {"shift": lambda i, c, p: c + 3, "double": lambda i, c, p: 2 * c, "reverse": lambda i, c, p: K - c,
               "neg": lambda i, c, p: K - 2 * c}
        # (a rank without a recorded shape made the method fail its shape-type assertion until repository fix 2dd70fc)
        if ctx.tensor is None and dd > 0:
            return "skip"
        if not f.coords:
            return "skip"
        if fn in ("reverse-bad-shape", "to-tuple"):
            # an order-changing map in a call that the method rejects at its end (the new shape does not fit the coordinates):
            # whatever it did before failing must leave well-formed fibers
            if dd > 0 or not all(isinstance(c, int) for c in f.coords):
                return "skip"
            try:
                if fn == "reverse-bad-shape":
                    f.updateCoords(lambda i, c, p: K - c, depth=0, new_shape=(K, K))
                else:
                    f.updateCoords(lambda i, c, p: (K - c, 0), depth=0)
            except AssertionError as e:
                H.unexpected(kind + ":rejected-at-the-end", ctx, e)
            # the call may have left coordinates of another type / a shape of another type behind: the history ends here
            H.quiescent("updateCoords:rejected-at-the-end", ctx)
            raise StopHistory()
        if fn in ("move-one", "swap-two"):
            # the coordinate at one index jumps past `to` neighbours (landing in a gap beyond them); "swap-two": two adjacent
            # coordinates trade places.  Indices are those of the fibers at the updated depth.
            kk, to = op.get("k", 0), op.get("to", 1)

            def mv(i, c, p, kk=kk, to=to, fn=fn):
                if not isinstance(c, int):
                    return c
                if fn == "swap-two":
                    return c + 9 if i == kk % 3 else c             # one coordinate jumps over up to two neighbours
                return c + 4 * to + 1 if i == kk % 3 else c
            # coordinates are spread first (x4) so that the jump lands strictly between / beyond other coordinates (no collisions;
            # a small factor: extents grow with every such step and dense reference iteration later walks the whole extent)
            f.updateCoords(lambda i, c, p: c * 4 if isinstance(c, int) else c, depth=dd)
            H.quiescent("updateCoords:spread", ctx)
            f.updateCoords(mv, depth=dd)
            return
        rid = _target_rankid(ctx, f, lvl, dd) if op.get("by_rankid") else None
        if rid is not None:
            # the same update addressed by the id of the target rank instead of its depth below `f`
            f.updateCoords(fns[fn], rankid=rid)
        else:
            f.updateCoords(fns[fn], depth=dd)
        return
    if kind == "updatePayloads":
        dd = min(op["depth"], depth - 1 - lvl)
        if not ctx.is_leaf_level(lvl + dd):
            return "skip"
        fn = op["fn"]
        fns = {"inc": lambda i, c, p: unbox(p) + 1, "box-inc": lambda i, c, p: Payload(unbox(p) + 1),
               "elem-op": lambda i, c, p: p + CoordPayload(c, 1),
               "zero": lambda i, c, p: Payload(d), "same": lambda i, c, p: p}
        rid = _target_rankid(ctx, f, lvl, dd) if op.get("by_rankid") else None
        if rid is not None:
            f.updatePayloads(fns[fn], rankid=rid)
        else:
            f.updatePayloads(fns[fn], depth=dd)
        return
    if kind == "clear":
        if op.get("leaf_only") and not leaf:
            return "skip"
        f.clear()
        return
    if kind == "coiter_read":
        g, lvl2 = ctx.resolve(op["path2"])
        if lvl2 != lvl:
            return "skip"
        opr = op["opr"]
        if opr == "uncompress":
            if ctx.tensor is None or any(r.getAttrs().getShape() is None for r in ctx.tensor.ranks):
                return "skip"
            if not f.coords:
                return "skip"
            f.uncompress()
            return
        if opr == "==":
            f == g
            return
        if opr == "+":
            if not leaf:
                return "skip"
            f + g
            return
        res = {"|": f.__or__, "^": f.__xor__, "&": f.__and__, "-": f.__sub__}[opr](g)
        for k, _ in enumerate(res):
            H.quiescent(f"co{opr}:yield", ctx)
            if k > 60:
                break
        return
    raise ValueError(kind)


def _present(ctx, pt):
    f = ctx.root
    for c in pt:
        if not isinstance(f, Fiber) or c not in f.coords:
            return False
        f = f.payloads[f.coords.index(c)]
    return True


def _stored(ctx, pt):
    f = ctx.root
    for c in pt:
        f = f.payloads[f.coords.index(c)]
    return unbox(f)


def _populate(ctx, z, a, lvl, seed, stop, at, counter):
    """Nested populate with a deterministic pseudo-random action table; quiescent hook at every yield."""
    H = ctx.hooks
    leaf = ctx.is_leaf_level(lvl)
    d = ctx.default
    for c, (z_ref, a_val) in z << a:
        H.quiescent("populate:yield", ctx)
        counter[0] += 1
        if stop is not None and counter[0] > at:
            if stop == "break":
                break
            raise BodyStop()
        h = (seed * 31 + lvl * 7 + (c if isinstance(c, int) else 1) * 13) % 7
        if leaf:
            act = ACTS_LEAF[h]
            if act in ("set",):
                z_ref <<= unbox(a_val) if h % 2 else 1 + h
            elif act == "add":
                z_ref += unbox(a_val)
            elif act == "mul":
                z_ref *= 2
            elif act == "sub":
                z_ref -= unbox(a_val)
            elif act == "default":
                z_ref <<= d
        else:
            if h in (2, 5):
                pass            # leave the (possibly just created) sub-fiber untouched
            else:
                _populate(ctx, z_ref, a_val, lvl + 1, seed + 1, stop, at, counter)
        H.quiescent("populate:body-done", ctx)


class Hooks:
    """Default no-op hooks."""

    def quiescent(self, label, ctx):
        pass

    def before_step(self, i, op, ctx):
        pass

    def rejected(self, label, ctx, exc):
        pass

    def unexpected(self, label, ctx, exc):
        pass

    def skipped(self, label):
        pass
