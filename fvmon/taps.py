"""sys.monitoring (PEP 669) taps installed from the harness - no source edits.

OpCounter   counts executions of the Payload operator methods, independently of Metrics
            (PY_START on their code objects; reads `self.value` from the instrumented frame).
LineReach   records which lines of given functions were executed (LINE events that DISABLE themselves
            after the first hit), used for anchor-reach evidence.
"""
import sys

mon = sys.monitoring
_TOOL_OPS = 3
_TOOL_REACH = 4


class OpCounter:
    METHODS = ["__mul__", "__rmul__", "__imul__", "__add__", "__radd__", "__iadd__", "__ilshift__",
               "__sub__", "__rsub__", "__isub__"]

    def __init__(self):
        from fibertree import Payload
        self.codes = {}
        for m in self.METHODS:
            fn = Payload.__dict__.get(m)
            if fn is not None and hasattr(fn, "__code__"):
                self.codes[fn.__code__] = m
        self.counts = {}
        self.iadd_nonzero = 0
        self.active = False
        self.installed = False

    def install(self):
        if self.installed:
            return
        try:
            mon.use_tool_id(_TOOL_OPS, "fvmon-ops")
        except ValueError:
            pass
        mon.register_callback(_TOOL_OPS, mon.events.PY_START, self._on_start)
        for code in self.codes:
            mon.set_local_events(_TOOL_OPS, code, mon.events.PY_START)
        self.installed = True

    def uninstall(self):
        if not self.installed:
            return
        for code in self.codes:
            mon.set_local_events(_TOOL_OPS, code, 0)
        mon.register_callback(_TOOL_OPS, mon.events.PY_START, None)
        try:
            mon.free_tool_id(_TOOL_OPS)
        except ValueError:
            pass
        self.installed = False

    def reset(self):
        self.counts = {}
        self.iadd_nonzero = 0

    def _on_start(self, code, offset):
        if not self.active:
            return
        name = self.codes.get(code)
        if name is None:
            return
        self.counts[name] = self.counts.get(name, 0) + 1
        if name == "__iadd__":
            try:
                old = sys._getframe(1).f_locals["self"].value
                if old != 0:
                    self.iadd_nonzero += 1
            except Exception:
                pass

    def expected_metrics(self):
        """What Metrics should report for the operator executions observed (documented counting rule:
        an accumulate into a zero box is an update, not an add)."""
        c = self.counts
        out = {
            "payload_mul": c.get("__mul__", 0) + c.get("__rmul__", 0) + c.get("__imul__", 0),
            "payload_add": c.get("__add__", 0) + c.get("__radd__", 0) + self.iadd_nonzero,
            "payload_update": c.get("__iadd__", 0) + c.get("__ilshift__", 0) + c.get("__imul__", 0),
        }
        return out


def resolve(spec):
    """'pkg.module:Qual.name' -> object (functions, staticmethods, classmethods unwrapped)."""
    import importlib
    mod, _, qual = spec.partition(":")
    obj = importlib.import_module(mod)
    for part in qual.split("."):
        raw = None
        if isinstance(obj, type):
            raw = obj.__dict__.get(part)
        obj = raw if raw is not None else getattr(obj, part)
    while hasattr(obj, "__func__"):
        obj = obj.__func__
    return getattr(obj, "__wrapped__", obj)


def _nested_codes(code, out):
    out.append(code)
    for c in code.co_consts:
        if hasattr(c, "co_code"):
            _nested_codes(c, out)


class LineReach:
    def __init__(self, functions):
        """functions: {label: function object}; nested functions / classes defined inside are included."""
        self.codes = {}
        for label, fn in functions.items():
            code = getattr(fn, "__code__", None)
            if code is not None:
                lst = []
                _nested_codes(code, lst)
                for c in lst:
                    self.codes[c] = label
        self.hit = {label: set() for label in functions}
        # every line that carries code (statement starts and continuation lines), per label: the denominator of the reach
        self.total = {label: set() for label in functions}
        for c, label in self.codes.items():
            first = c.co_firstlineno
            for _s, _e, ln in c.co_lines():
                if ln is not None and ln != first:
                    self.total[label].add(ln)
        self.installed = False

    def install(self):
        try:
            mon.use_tool_id(_TOOL_REACH, "fvmon-reach")
        except ValueError:
            pass
        mon.register_callback(_TOOL_REACH, mon.events.LINE, self._on_line)
        for code in self.codes:
            mon.set_local_events(_TOOL_REACH, code, mon.events.LINE)
        self.installed = True

    def _on_line(self, code, line):
        label = self.codes.get(code)
        if label is not None:
            self.hit[label].add(line)
        return mon.DISABLE

    def uninstall(self):
        if not self.installed:
            return
        for code in self.codes:
            mon.set_local_events(_TOOL_REACH, code, 0)
        mon.register_callback(_TOOL_REACH, mon.events.LINE, None)
        try:
            mon.free_tool_id(_TOOL_REACH)
        except ValueError:
            pass
        self.installed = False

    def summary(self):
        return {label: len(lines) for label, lines in self.hit.items()}
