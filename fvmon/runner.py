"""Parent process of a check: shards the workload over the cores, merges the shard reports,
matches violations against known_findings.json, writes the evidence file and prints verdict lines.

Exit codes: 0 held on everything observed / 1 VIOLATION / 2 INCONCLUSIVE (never folded into the others).
"""
import importlib
import json
import os
import shutil
import subprocess
import sys
import tempfile
import time

from . import env

NCPU = min(16, os.cpu_count() or 4)


def load_known(prop):
    path = os.path.join(env.VERIF, "known_findings.json")
    if not os.path.exists(path):
        return []
    with open(path) as fh:
        data = json.load(fh)
    return [f for f in data.get("findings", []) if f.get("property") == prop and f.get("status") == "known"]


def validate_evidence(ev):
    sys.path.append(env.DEPS)
    try:
        import jsonschema
    except Exception:
        return "jsonschema not installed (run MANIFEST.setup_cmd)"
    schema_path = "/root/.vp/EVIDENCE.schema.json"
    if not os.path.exists(schema_path):
        schema_path = os.path.join(env.VERIF, "fvmon", "EVIDENCE.schema.json")
    with open(schema_path) as fh:
        schema = json.load(fh)
    try:
        jsonschema.validate(ev, schema)
    except Exception as e:          # noqa
        return str(e)[:500]
    return None


def run_check(prop, tier="quick", seed=0, replay=None, nshards=None, verbose=True):
    t0 = time.time()
    sys.path.insert(0, env.VERIF)
    mod = importlib.import_module(f"checks.{prop.lower()}")
    spec = mod.SPEC
    known = load_known(prop)
    if nshards is None:
        nshards = 1 if replay else spec.get("shards", {}).get(tier, NCPU)
    nshards = max(1, min(nshards, NCPU))
    os.makedirs(os.path.join(env.VERIF, ".work"), exist_ok=True)
    work = tempfile.mkdtemp(prefix=f"{prop}-", dir=os.path.join(env.VERIF, ".work"))
    known_file = os.path.join(work, "known.json")
    with open(known_file, "w") as fh:
        json.dump(known, fh)
    childenv = dict(os.environ)
    childenv["PYTHONPYCACHEPREFIX"] = os.path.join(work, "pyc")
    childenv["PYTHONHASHSEED"] = "0"
    childenv["PYTHONPATH"] = env.VERIF
    childenv["FVMON_REPO"] = env.repo_path()
    childenv[env.GUARD] = "1"
    timeout = spec.get("timeout_s", {}).get(tier, 900 if tier == "quick" else 3600)
    childenv["FVMON_SHARD_BUDGET_S"] = str(spec.get("budget_s", {}).get(tier, 0))
    procs = []
    for i in range(nshards):
        out = os.path.join(work, f"shard{i}.json")
        cmd = [env.PY, "-B", "-m", "fvmon.shard", prop, tier, str(seed), str(i), str(nshards), out,
               "--known", known_file]
        if replay:
            cmd += ["--replay", os.path.abspath(replay)]
        log = open(os.path.join(work, f"shard{i}.log"), "w")
        p = subprocess.Popen(cmd, cwd=env.VERIF, env=childenv, stdout=log, stderr=subprocess.STDOUT)
        procs.append((i, p, out, log))
    reports, dead = [], []
    deadline = t0 + timeout
    for i, p, out, log in procs:
        try:
            p.wait(timeout=max(1, deadline - time.time()))
        except subprocess.TimeoutExpired:
            p.kill()
            p.wait()
            dead.append((i, "watchdog"))
            log.close()
            continue
        log.close()
        if p.returncode != 0 or not os.path.exists(out):
            with open(os.path.join(work, f"shard{i}.log")) as fh:
                tail = fh.read()[-1500:]
            dead.append((i, f"exit {p.returncode}: {tail}"))
            continue
        with open(out) as fh:
            reports.append(json.load(fh))

    # ------------------------------------------------------------------ merge
    evaluations = sum(r["evaluations"] for r in reports)
    distinct = set()
    states = set()
    counters = {}
    violations = {}
    samples = []
    exhaustive = {}
    truncated = False
    notes = []
    known_fired = {}
    anchor_reach = {}
    anchor_total = {}
    anchors_unresolved = set()
    for r in reports:
        for k, lines in r.get("anchor_reach", {}).items():
            anchor_reach.setdefault(k, set()).update(lines)
        for k, lines in r.get("anchor_total", {}).items():
            anchor_total.setdefault(k, set()).update(lines)
        anchors_unresolved.update(r.get("anchors_unresolved", []))
        distinct.update(r["distinct"])
        states.update(r["states"])
        for k, v in r["counters"].items():
            counters[k] = counters.get(k, 0) + v
        for k, v in r["violations"].items():
            m = violations.setdefault(k, {"count": 0, "msg": v["msg"], "witnesses": []})
            m["count"] += v["count"]
            m["witnesses"] += v["witnesses"][: max(0, 2 - len(m["witnesses"]))]
        if len(samples) < 4:
            samples += r["samples"][:2]
        for k, v in r.get("exhaustive", {}).items():
            exhaustive[k] = exhaustive.get(k, True) and v
        truncated = truncated or r.get("truncated", False)
        notes += r.get("notes", [])
        known_fired.update(r.get("known_fired", {}))

    known_keys = {k["key"]: k for k in known}
    lines = []
    unknown = {k: v for k, v in violations.items() if k not in known_keys}
    seen_known = {k: v for k, v in violations.items() if k in known_keys}
    os.makedirs(os.path.join(env.VERIF, "replays"), exist_ok=True)
    replay_paths = []
    for n, (k, v) in enumerate(sorted(unknown.items())):
        sub = "replays" if os.path.realpath(env.repo_path()) == "/repo" else os.path.join("replays", "scratch")
        os.makedirs(os.path.join(env.VERIF, sub), exist_ok=True)
        path = os.path.join(env.VERIF, sub, f"{prop}-{tier}-seed{seed}-{n}.json")
        w = v["witnesses"][0] if v["witnesses"] else {"case": None}
        with open(path, "w") as fh:
            json.dump({"property": prop, "key": k, "msg": v["msg"], "count": v["count"],
                       "case": w.get("case"), "detail": {a: b for a, b in w.items() if a != "case"}},
                      fh, indent=1, default=repr)
        replay_paths.append(path)
        lines.append(f"VIOLATION property={prop} replay={path}  # [{k}] x{v['count']}: {v['msg'][:300]}")
    for k, kf in known_keys.items():
        fired = known_fired.get(k)
        if (fired is not None and k in fired) or k in seen_known:
            lines.append(f"KNOWN-FINDING: property={prop} {kf['what']}  # [{k}] seen x{seen_known.get(k, {}).get('count', 0)}")

    # ------------------------------------------------------------------ verdict
    reasons = []
    if dead:
        reasons.append("shards died: " + "; ".join(f"#{i}: {why[:300]}" for i, why in dead))
    if counters.get("harness_errors"):
        reasons.append(f"{counters['harness_errors']} harness errors: " + json.dumps(notes[:1], default=repr)[:1200])
    if not replay:
        for name, least in spec.get("min_counts", {}).get(tier, spec.get("min_counts", {}).get("quick", {})).items():
            got = evaluations if name == "evaluations" else counters.get(name, 0)
            if got < least:
                reasons.append(f"monitor counter {name}={got} below minimum {least}")
        if len(distinct) < 2:
            reasons.append("fewer than 2 distinct non-trivial cases")
        unreached = sorted(k for k, v in anchor_reach.items() if not v) + sorted(anchors_unresolved)
        if unreached:
            reasons.append("anchored mechanisms never executed by the workload: " + ", ".join(unreached))
    if unknown:
        status, code = "violated", 1
    elif reasons:
        status, code = "inconclusive", 2
        lines.append(f"INCONCLUSIVE property={prop} reason={' | '.join(reasons)[:1500]}")
    else:
        status, code = "held", 0

    head, dirty = env.repo_state()
    wall = time.time() - t0
    if not replay:
        ev = {
            "property_id": prop, "tier": tier, "seed": int(seed), "level": "exploration",
            "coverage": {
                "evaluations": max(1, evaluations),
                "distinct_nontrivial": len(distinct),
                "rule": spec["rule"],
                "samples": samples[:4] or [None],
                "states": len(states),
                "exhaustive": bool(exhaustive) and all(exhaustive.values()) and not truncated,
                "exhaustive_sweeps": exhaustive,
                "monitor_counters": counters,
                "anchor_reach_lines": {k: len(v) for k, v in sorted(anchor_reach.items())},
                # LINE events fire on statement starts only, so continuation lines of a multi-line statement stay in
                # "unreached" although their statement ran; the list is a guide to undriven branches, not a verdict
                "anchor_code_lines": {k: len(v) for k, v in sorted(anchor_total.items())},
                "anchor_unreached_lines": {k: sorted(anchor_total.get(k, set()) - v) for k, v in sorted(anchor_reach.items())
                                           if anchor_total.get(k, set()) - v},
                "shards": len(reports), "shards_dead": len(dead), "truncated_by_budget": truncated,
                "known_findings_seen": {k: v["count"] for k, v in seen_known.items()},
                "violation_classes": {k: v["count"] for k, v in unknown.items()},
                "verdict": status, "inconclusive_reasons": reasons,
                "repo_head": head, "repo_dirty": dirty, "repo_path": env.repo_path(),
            },
            "assumptions": spec.get("assumptions", []),
            "wall_s": round(wall, 2),
            "violations": len(unknown),
        }
        err = validate_evidence(ev)
        # evidence/ describes /repo itself; runs against a scratch tree (seeded mutants) write elsewhere
        evdir = "evidence" if os.path.realpath(env.repo_path()) == "/repo" else os.path.join(".work", "evidence-scratch")
        os.makedirs(os.path.join(env.VERIF, evdir), exist_ok=True)
        evpath = os.path.join(env.VERIF, evdir, f"{prop}.json")
        with open(evpath, "w") as fh:
            json.dump(ev, fh, indent=1, default=repr)
        if err and code == 0:
            code = 2
            lines.append(f"INCONCLUSIVE property={prop} reason=evidence does not validate: {err}")
    shutil.rmtree(work, ignore_errors=True)
    if verbose:
        for ln in lines:
            print(ln)
        print(f"{prop} {tier} seed={seed}: {status}; evaluations={evaluations} distinct_nontrivial={len(distinct)} "
              f"states={len(states)} oracle_evals={counters.get('oracle_evals', 0)} shards={len(reports)} "
              f"wall={wall:.1f}s repo={env.repo_path()}@{head[:8]}{'+dirty' if dirty else ''}")
    return code


def main(argv=None):
    import argparse
    ap = argparse.ArgumentParser(prog="check")
    ap.add_argument("prop")
    ap.add_argument("--tier", default=os.environ.get("VERIF_TIER", "quick"), choices=["quick", "thorough"])
    ap.add_argument("--seed", type=int, default=int(os.environ.get("VERIF_SEED", "0") or 0))
    ap.add_argument("--replay")
    ap.add_argument("--shards", type=int)
    a = ap.parse_args(argv)
    return run_check(a.prop.upper(), a.tier, a.seed, a.replay, a.shards)


if __name__ == "__main__":
    sys.exit(main())
