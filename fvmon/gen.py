"""Seeded generators.  Everything is expressed as JSON-able *tree specs*:

    leaf fiber      [[coord, value], ...]
    interior fiber  [[coord, <spec of sub-fiber>], ...]        ([] is an empty (sub-)fiber)

so that every generated case can be written into the evidence / a replay file verbatim and
rebuilt through the public constructors only.
"""
import itertools

from fibertree import Fiber, Tensor

VALUES = [1, 2, 3, 5, -1, -2, 7]


def tup(c):
    if isinstance(c, (list, tuple)):
        return tuple(tup(e) for e in c)
    return c


def is_leaf_spec(ts):
    return all(not isinstance(p, list) for _, p in ts)


def fiber_from_spec(ts, default=0, shape=None, level=0, **kwargs):
    """Build a (free) fiber tree from a tree spec through the public constructor."""
    if isinstance(shape, int):
        shape = [shape]
    coords = [tup(c) for c, _ in ts]
    payloads = []
    for _, p in ts:
        if isinstance(p, list):
            payloads.append(fiber_from_spec(p, default, shape, level + 1))
        else:
            payloads.append(p)
    kw = dict(kwargs) if level == 0 else {}
    if shape is not None and level < len(shape) and shape[level] is not None:
        kw["shape"] = shape[level]
    return Fiber(coords, payloads, default=default, **kw)


def tensor_from_spec(ts, rank_ids, shape=None, default=0, fmts=None, name="", mutable=None, fiber_default=None):
    """fiber_default: leaf default the free fibers are constructed with before they join the tensor (their own
    attributes must be replaced by the rank's); None = the tensor's default."""
    f = fiber_from_spec(ts, default=default if fiber_default is None else fiber_default)
    kw = {}
    if name:
        kw["name"] = name
    t = Tensor.fromFiber(rank_ids=list(rank_ids), fiber=f, shape=list(shape) if shape else None,
                         default=default, **kw)
    if fmts:
        for r, fm in zip(rank_ids, fmts):
            if fm != "C":
                t.setFormat(r, fm)
    if mutable is not None:
        t.setMutable(mutable)
    return t


def spec_depth(ts, dflt=1):
    d = 1
    cur = ts
    while cur:
        nxt = None
        for _, p in cur:
            if isinstance(p, list):
                nxt = p if (nxt is None or not nxt) else nxt
        if nxt is None and not any(isinstance(p, list) for _, p in cur):
            return d
        d += 1
        cur = nxt
    return max(d, dflt)


def content_of_spec(ts, default=0, prefix=()):
    out = {}
    for c, p in ts:
        if isinstance(p, list):
            out.update(content_of_spec(p, default, prefix + (tup(c),)))
        elif p != default:
            out[prefix + (tup(c),)] = p
    return out


def spec_from_content(content, depth, extra_explicit=(), extra_empty=(), default=0):
    """Canonical (or deliberately dirty) spec holding exactly `content` (point -> value).
    extra_explicit: points stored with the default value; extra_empty: prefixes stored as empty fibers."""
    tree = {}
    for pt, v in list(content.items()) + [(p, default) for p in extra_explicit]:
        node = tree
        for c in pt[:-1]:
            node = node.setdefault(c, {})
        node.setdefault(pt[-1], v)
    for pre in extra_empty:
        node = tree
        for c in pre:
            node = node.setdefault(c, {})

    def build(node):
        return [[list(c) if isinstance(c, tuple) else c, build(v) if isinstance(v, dict) else v]
                for c, v in sorted(node.items())]
    return build(tree)


def states_to_leaf_spec(states, default=0, values=None, offset=0):
    """states[i] in {0 absent, 1 explicit default, 2.. value index+2}."""
    out = []
    for i, s in enumerate(states):
        if s == 0:
            continue
        if s == 1:
            out.append([i + offset, default])
        else:
            v = (values or VALUES)[(s - 2 + i) % len(values or VALUES)]
            if v == default:
                v = default + 11
            out.append([i + offset, v])
    return out


def all_state_vectors(n, k=3):
    return itertools.product(range(k), repeat=n)


def rand_leaf_spec(rng, extent, p_present=0.5, p_explicit=0.15, default=0, values=None, floats=False):
    out = []
    vals = list(values or VALUES)
    if floats:
        vals = vals + [0.5, 2.5]
    for c in range(extent):
        r = rng.random()
        if r < p_explicit:
            out.append([c, default])
        elif r < p_explicit + p_present:
            v = rng.choice(vals)
            if v == default:
                v = default + 11
            out.append([c, v])
    return out


def rand_tree_spec(rng, extents, p_present=0.6, dirty=0.0, default=0, values=None):
    """Random tree of depth len(extents).  `dirty` is the probability (per place) of an explicit
    default leaf / an empty sub-fiber / a sub-fiber whose leaves are all explicit defaults."""
    if len(extents) == 1:
        return rand_leaf_spec(rng, extents[0], p_present, dirty * 0.6, default, values)
    out = []
    for c in range(extents[0]):
        r = rng.random()
        if r < dirty * 0.35:
            out.append([c, empty_tree(rng, extents[1:], default)])
        elif r < dirty * 0.35 + p_present:
            sub = rand_tree_spec(rng, extents[1:], p_present, dirty, default, values)
            if sub or rng.random() < dirty:
                out.append([c, sub])
    return out


def empty_tree(rng, extents, default=0):
    """A sub-tree with no content: [], or leaves that are all explicit defaults, or nested empties."""
    if len(extents) == 1:
        if rng.random() < 0.5:
            return []
        return [[c, default] for c in sorted(rng.sample(range(extents[0]), rng.randint(1, min(2, extents[0]))))]
    if rng.random() < 0.5:
        return []
    c = rng.randrange(extents[0])
    return [[c, empty_tree(rng, extents[1:], default)]]


def canonical_spec(ts, default=0):
    """Spec with the same content but no explicit defaults and no empty sub-fibers."""
    out = []
    for c, p in ts:
        if isinstance(p, list):
            sub = canonical_spec(p, default)
            if sub:
                out.append([c, sub])
        elif p != default:
            out.append([c, p])
    return out


def rand_nest(rng, shape, density=0.5, default=0, values=None):
    if len(shape) == 1:
        return [(rng.choice(values or VALUES) if rng.random() < density else default) for _ in range(shape[0])]
    return [rand_nest(rng, shape[1:], density, default, values) for _ in range(shape[0])]


def nest_content(nest, default=0, prefix=()):
    out = {}
    for i, e in enumerate(nest):
        if isinstance(e, list):
            out.update(nest_content(e, default, prefix + (i,)))
        elif e != default:
            out[prefix + (i,)] = e
    return out


def nest_shape(nest):
    s = []
    cur = nest
    while isinstance(cur, list):
        s.append(len(cur))
        cur = cur[0] if cur else None
    return s


def rank_ids_for(depth, base="KMNPQ"):
    return list(base[:depth]) if depth <= len(base) else [f"R{i}" for i in range(depth)]
