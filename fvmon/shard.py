"""Shard process: runs one slice of a check's workload under its monitors.

usage: python -B -m fvmon.shard <PROP> <tier> <seed> <shard> <nshards> <outfile> [--replay FILE] [--known FILE]
"""
import importlib
import io
import json
import os
import random
import sys
import time
import warnings


def load_check(prop):
    return importlib.import_module(f"checks.{prop.lower()}")


def main(argv):
    prop, tier, seed, shard, nshards, outfile = argv[:6]
    seed, shard, nshards = int(seed), int(shard), int(nshards)
    rest = argv[6:]
    replay = known_file = None
    if "--replay" in rest:
        replay = rest[rest.index("--replay") + 1]
    if "--known" in rest:
        known_file = rest[rest.index("--known") + 1]

    from . import env
    env.setup_import_path()
    warnings.simplefilter("ignore")
    env.assert_repo_is_under_test()
    from .monitor import Monitor

    mod = load_check(prop)
    mon = Monitor(prop, tier, seed, shard, nshards)
    reach = None
    anchors = mod.SPEC.get("anchors") or []
    if anchors:
        from .taps import LineReach, resolve
        fns = {}
        for a in anchors:
            try:
                fns[a] = resolve(a)
            except Exception as e:      # noqa
                mon.notes.append({"anchor_unresolved": a, "error": repr(e)})
        reach = LineReach(fns)
        reach.install()
    budget_s = float(os.environ.get("FVMON_SHARD_BUDGET_S", "0") or 0)
    t0 = time.time()

    def run_one(case):
        mon.begin(case)
        try:
            mod.run_case(case, mon)
        except BaseException as e:          # the library calls sys.exit() on some paths
            if isinstance(e, KeyboardInterrupt):
                raise
            mon.crash(e)

    known_fired = {}
    if replay:
        with open(replay) as fh:
            w = json.load(fh)
        run_one(w.get("case", w))
    else:
        # canonical witnesses of known findings are replayed first, by shard 0 only
        if known_file and shard == 0:
            with open(known_file) as fh:
                known = json.load(fh)
            for k in known:
                if k.get("witness") is None:
                    continue
                before = {key: v["count"] for key, v in mon.violations.items()}
                run_one(k["witness"])
                fired = [key for key, v in mon.violations.items() if v["count"] > before.get(key, 0)]
                known_fired[k["key"]] = fired
            # the witnesses are not part of the workload statistics
            mon.counters["known_witness_replays"] = len(known)
        rng = random.Random((seed * 1000003 + shard * 7919 + 17) & 0xFFFFFFFF)
        if hasattr(mod, "setup"):
            mod.setup(mon)
        for case in mod.generate(rng, tier, shard, nshards, mon):
            run_one(case)
            if budget_s and time.time() - t0 > budget_s:
                mon.truncated = True
                break
        if hasattr(mod, "finish"):
            mod.finish(mon)
    rep = mon.report()
    if reach is not None:
        rep["anchor_reach"] = {k: sorted(v) for k, v in reach.hit.items()}
        rep["anchor_total"] = {k: sorted(v) for k, v in reach.total.items()}
        rep["anchors_unresolved"] = [n["anchor_unresolved"] for n in mon.notes if "anchor_unresolved" in n]
        reach.uninstall()
    rep["known_fired"] = known_fired
    rep["wall_s"] = time.time() - t0
    with open(outfile, "w") as fh:
        json.dump(rep, fh, default=repr)


if __name__ == "__main__":
    # keep the library's prints (codec, yaml error paths) out of the way
    main(sys.argv[1:])
