"""Raw observers.  They read only the documented public attributes (`coords`, `payloads`,
`ranks`, `getFibers()`, `getNextRank()`, `getOwner()`) and never call the library's own
iterators, `__eq__`, `isEmpty`, `countValues` ... (those are under test)."""
from fibertree import Fiber, Payload, Tensor, CoordPayload


def unbox(p):
    """One level of unboxing (a doubly boxed value stays visibly boxed)."""
    if isinstance(p, Payload):
        return p.value
    return p


def freeze(v):
    """Hashable image of a leaf value."""
    if isinstance(v, Payload):
        return ("Payload", freeze(v.value))
    if isinstance(v, (tuple, list)):
        return tuple(freeze(e) for e in v)
    if isinstance(v, Fiber):
        return ("Fiber", snap_fiber(v, ids=False))
    if isinstance(v, type):
        return ("type", v.__name__)
    try:
        hash(v)
        return v
    except TypeError:
        return repr(v)


def is_fiber(x):
    return isinstance(x, Fiber)


# ---------------------------------------------------------------------------------------
# content maps
# ---------------------------------------------------------------------------------------
def content(f, default=0):
    """{point tuple: unboxed leaf value} for leaves whose value differs from `default`."""
    out = {}
    if isinstance(f, Tensor):
        default = unbox(f.getDefault()) if f.ranks else default
        root = f._root if hasattr(f, "_root") else f.getRoot()
        if not isinstance(root, Fiber):
            v = unbox(root)
            if v != default:
                out[()] = v
            return out
        f = root
    _content(f, default, (), out)
    return out


def _content(f, default, prefix, out):
    for c, p in zip(f.coords, f.payloads):
        if isinstance(p, Fiber):
            _content(p, default, prefix + (c,), out)
        else:
            v = unbox(p)
            if isinstance(v, Payload):
                v = ("DOUBLE-BOXED", freeze(v))
            if v != default:
                out[prefix + (c,)] = v


def spec_of(f):
    """Tree spec (JSON-able nested [[coord, payload-or-subspec], ...]) read from raw lists."""
    out = []
    for c, p in zip(f.coords, f.payloads):
        if isinstance(p, Fiber):
            out.append([_jc(c), spec_of(p)])
        else:
            out.append([_jc(c), _jv(unbox(p))])
    return out


def _jc(c):
    if isinstance(c, tuple):
        return [_jc(e) for e in c]
    return c


def _jv(v):
    if isinstance(v, (int, float, str, bool)) or v is None:
        return v
    if isinstance(v, (tuple, list)):
        return [_jv(e) for e in v]
    return repr(v)


def depth_of(f):
    d = 1
    while f.payloads and isinstance(f.payloads[0], Fiber):
        f = f.payloads[0]
        d += 1
    return d


# ---------------------------------------------------------------------------------------
# snapshots
# ---------------------------------------------------------------------------------------
def snap_fiber(f, ids=True, attrs=False):
    items = []
    for c, p in zip(f.coords, f.payloads):
        if isinstance(p, Fiber):
            items.append((c, "F", snap_fiber(p, ids, attrs)))
        elif isinstance(p, Payload):
            items.append((c, "P", id(p) if ids else 0, freeze(p.value)))
        else:
            items.append((c, "X", type(p).__name__, repr(p)))
    head = (id(f) if ids else 0, len(f.coords), len(f.payloads))
    if ids:
        head += (id(f.coords), id(f.payloads))
    if attrs:
        own = f.__dict__.get("_owner")
        ra = f.__dict__.get("_rank_attrs")
        head += (f.__dict__.get("_active_range"), id(own) if (ids and own is not None) else (own is not None),
                 snap_attrs(ra, ids) if ra is not None else None,
                 f.__dict__.get("_ordered"), f.__dict__.get("_unique"), f.__dict__.get("_is_lazy"))
    return head + (tuple(items),)


def snap_attrs(a, ids=True):
    d = a.__dict__
    return (id(a) if ids else 0, freeze(d.get("_id")), freeze(d.get("_shape")), d.get("_estimated_shape"),
            d.get("_fmt"), d.get("_default_is_set"), freeze(d.get("_default")))


def snap_tensor(t, ids=True, attrs=True):
    root = t.__dict__.get("_root")
    if isinstance(root, Fiber):
        r = snap_fiber(root, ids, attrs)
    else:
        r = ("P", id(root) if ids else 0, freeze(unbox(root)))
    ranks = []
    for rk in t.ranks:
        ranks.append((id(rk) if ids else 0,
                      tuple(id(f) for f in rk.fibers) if ids else len(rk.fibers),
                      snap_attrs(rk._attrs, ids),
                      (id(rk.next_rank) if ids else True) if rk.next_rank is not None else None))
    return (r, tuple(ranks), t.__dict__.get("_name"), t.__dict__.get("_color"), t.__dict__.get("_mutable"))


def snap(x, ids=True, attrs=True):
    if isinstance(x, Tensor):
        return snap_tensor(x, ids, attrs)
    if isinstance(x, Fiber):
        return snap_fiber(x, ids, attrs)
    if isinstance(x, Payload):
        return ("P", id(x) if ids else 0, freeze(x.value))
    return ("V", freeze(x))


def snap_values(x):
    return snap(x, ids=False, attrs=True)


def idset(x):
    """ids of every *mutable* object reachable from x (fibers, boxes, lists, ranks, attrs)."""
    out = {}
    if isinstance(x, Tensor):
        root = x.__dict__.get("_root")
        for rk in x.ranks:
            out[id(rk)] = "rank"
            out[id(rk._attrs)] = "rankattrs"
            out[id(rk.fibers)] = "rank.fibers"
            d = rk._attrs.__dict__.get("_default")
            if isinstance(d, Payload):
                out[id(d)] = "rank default box"
        if isinstance(root, Fiber):
            _idset_fiber(root, out)
        elif isinstance(root, Payload):
            out[id(root)] = "root box"
    elif isinstance(x, Fiber):
        _idset_fiber(x, out)
    elif isinstance(x, Payload):
        out[id(x)] = "box"
    return out


def _idset_fiber(f, out):
    out[id(f)] = "fiber"
    out[id(f.coords)] = "coords list"
    out[id(f.payloads)] = "payloads list"
    ra = f.__dict__.get("_rank_attrs")
    if ra is not None:
        out[id(ra)] = "fiber rankattrs"
    for p in f.payloads:
        if isinstance(p, Fiber):
            _idset_fiber(p, out)
        elif isinstance(p, Payload):
            out[id(p)] = "box"


# ---------------------------------------------------------------------------------------
# invariants
# ---------------------------------------------------------------------------------------
def WF(root, leaf_depths=None, depth=0, problems=None, path=()):
    """C01 well-formedness of an ordered/unique tree; returns a list of problem strings."""
    top = problems is None
    if top:
        problems = []
        leaf_depths = set()
    if isinstance(root, Tensor):
        r = root.__dict__.get("_root")
        if not isinstance(r, Fiber):
            if not isinstance(r, Payload) or isinstance(r.value, (Payload, Fiber)):
                problems.append(f"rank-0 root is not a singly boxed value: {type(r).__name__}")
            return problems
        root = r
    f = root
    if len(f.coords) != len(f.payloads):
        problems.append(f"len(coords)={len(f.coords)} != len(payloads)={len(f.payloads)} at {path}")
    if f.__dict__.get("_ordered", True) and f.__dict__.get("_unique", True):
        cs = f.coords
        for i in range(len(cs) - 1):
            try:
                bad = not (cs[i] < cs[i + 1])
            except TypeError:
                bad = True
            if bad:
                problems.append(f"coords not strictly increasing at {path}: {cs[i]!r} then {cs[i + 1]!r}")
                break
    kinds = set()
    for c, p in zip(f.coords, f.payloads):
        if isinstance(p, Fiber):
            kinds.add("F")
            WF(p, leaf_depths, depth + 1, problems, path + (c,))
        elif isinstance(p, Payload):
            kinds.add("P")
            leaf_depths.add(depth)
            if isinstance(p.value, (Payload, Fiber, CoordPayload)):
                problems.append(f"leaf at {path + (c,)} is not singly boxed: Payload({type(p.value).__name__})")
        else:
            kinds.add("X")
            problems.append(f"payload at {path + (c,)} is neither a box nor a fiber: {type(p).__name__}")
    if "F" in kinds and ("P" in kinds or "X" in kinds):
        problems.append(f"fiber at {path} mixes leaf and fiber payloads")
    if top and len(leaf_depths) > 1:
        problems.append(f"leaves at different depths {sorted(leaf_depths)}")
    return problems


def RC(t):
    """C02 rank bookkeeping of a tensor mirrors the tree; returns a list of problem strings."""
    problems = []
    root = t.__dict__.get("_root")
    if not t.ranks:
        if isinstance(root, Fiber):
            problems.append("rank-0 tensor with a fiber root")
        return problems
    if not isinstance(root, Fiber):
        problems.append("tensor with ranks has a non-fiber root")
        return problems
    try:
        if t.getRoot() is not root:
            problems.append("getRoot() is not the root")
    except AssertionError:
        problems.append("getRoot() assertion: root is not the first fiber of rank 0")
    by_depth = [[] for _ in t.ranks]
    too_deep = []

    def walk(f, d):
        if d >= len(t.ranks):
            too_deep.append(d)
            return
        by_depth[d].append(f)
        for p in f.payloads:
            if isinstance(p, Fiber):
                walk(p, d + 1)
    walk(root, 0)
    if too_deep:
        problems.append(f"fibers deeper than the number of ranks: depth {max(too_deep)}")
    for i, rk in enumerate(t.ranks):
        listed = [id(f) for f in rk.getFibers()]
        found = [id(f) for f in by_depth[i]]
        if sorted(listed) != sorted(found):
            ls, fs = set(listed), set(found)
            stale = len([x for x in listed if x not in fs])
            missing = len([x for x in found if x not in ls])
            dup = len(listed) - len(ls)
            problems.append(f"rank {i} ({rk.getId()}): listed={len(listed)} reachable={len(found)} "
                            f"stale={stale} missing={missing} duplicated={dup}")
        for f in by_depth[i]:
            if f.getOwner() is not rk:
                problems.append(f"rank {i}: reachable fiber whose owner is not this rank")
                break
        want_next = t.ranks[i + 1] if i + 1 < len(t.ranks) else None
        if rk.getNextRank() is not want_next:
            problems.append(f"rank {i}: next-rank chain broken")
    if len(t.ranks[0].getFibers()) != 1 or t.ranks[0].getFibers()[0] is not root:
        problems.append("rank 0 does not list exactly the root")
    return problems


def rc_kind(problem):
    """Mechanism-level classification of an RC problem string (no input-dependent numbers)."""
    if "stale=" in problem:
        import re
        m = re.search(r"stale=(\d+) missing=(\d+) duplicated=(\d+)", problem)
        s, mi, d = (int(g) for g in m.groups())
        parts = []
        if s:
            parts.append("stale")
        if mi:
            parts.append("missing")
        if d:
            parts.append("duplicated")
        return "+".join(parts) or "count"
    if "owner" in problem:
        return "owner"
    if "chain" in problem:
        return "chain"
    if "root" in problem:
        return "root"
    if "deeper" in problem:
        return "too-deep"
    return "other"


def wf_kind(problem):
    for k, tag in (("len(coords)", "length"), ("strictly increasing", "order"), ("singly boxed", "boxing"),
                   ("neither a box", "unboxed"), ("mixes", "mixed"), ("different depths", "leaf-depth")):
        if k in problem:
            return tag
    return "other"
