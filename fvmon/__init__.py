"""fvmon - runtime monitoring framework for the fibertree emulator.

See /verif/DESIGN.md.  Layout:

  env.py       locate the repository under test, dependency path, guard variable
  observe.py   raw observers (snapshots, identity sets, content maps, WF, RC)
  gen.py       seeded generators of trees, tensors, nests (all JSON-able "tree specs")
  monitor.py   per-shard monitor object: counters, violations, samples, distinct hashes
  runner.py    sharding, merging, known-finding matching, evidence, verdict lines
  boundary.py  client-boundary recorder (wraps public callables, quiescent-point hooks)
  taps.py      sys.monitoring taps: anchor reach and operator execution counters
  kernels.py   einsum-like loop-nest interpreter in the library's idiom + dense oracle
"""
