"""Per-shard monitor object: what the oracles report into."""
import hashlib
import json
import traceback
from collections import Counter

MAX_WITNESS_PER_KEY = 2
MAX_KEYS = 200


def jhash(obj):
    s = json.dumps(obj, sort_keys=True, default=repr)
    return hashlib.blake2b(s.encode(), digest_size=8).hexdigest()


class Monitor:
    def __init__(self, prop, tier, seed, shard=0, nshards=1):
        self.prop = prop
        self.tier = tier
        self.seed = seed
        self.shard = shard
        self.nshards = nshards
        self.counters = Counter()
        self.evaluations = 0
        self.distinct = set()       # hashes of distinct non-trivial cases
        self.states = set()         # hashes of distinct states / results observed
        self.violations = {}        # key -> {"count": n, "msg": first message, "witnesses": [case,...]}
        self.samples = []
        self.case = None
        self.case_nontrivial = False
        self.exhaustive = {}        # name -> bool: systematic sub-sweeps completed in this shard
        self.truncated = False
        self.notes = []

    # -- case bookkeeping -----------------------------------------------------------
    def begin(self, case):
        self.case = case
        self.case_nontrivial = False
        self.evaluations += 1
        if len(self.samples) < 2 or (self.evaluations in (50, 500) and len(self.samples) < 4):
            self.samples.append(case)

    def nontrivial(self, key=None):
        """Mark the current case as non-trivial by the check's rule (counted once, distinct)."""
        self.distinct.add(jhash(self.case if key is None else key))
        self.case_nontrivial = True

    def state(self, obj):
        self.states.add(jhash(obj) if not isinstance(obj, str) else obj)

    def count(self, name, n=1):
        self.counters[name] += n

    # -- verdicts -------------------------------------------------------------------
    def violation(self, key, msg, case=None, **extra):
        """`key` is the mechanism-level class of the violation (no input-dependent data)."""
        self.counters["violations_raw"] += 1
        v = self.violations.get(key)
        if v is None:
            if len(self.violations) >= MAX_KEYS:
                key = "overflow"
                v = self.violations.setdefault(key, {"count": 0, "msg": msg, "witnesses": []})
            else:
                v = self.violations[key] = {"count": 0, "msg": msg, "witnesses": []}
        v["count"] += 1
        if len(v["witnesses"]) < MAX_WITNESS_PER_KEY:
            w = {"case": case if case is not None else self.case, "msg": msg}
            w.update(extra)
            v["witnesses"].append(w)

    def check(self, cond, key, msg, **extra):
        self.counters["oracle_evals"] += 1
        if not cond:
            self.violation(key, msg, **extra)
        return cond

    def crash(self, exc):
        """Uncaught exception inside run_case."""
        tb = traceback.extract_tb(exc.__traceback__)
        from . import env
        repo = env.repo_path()
        inner = tb[-1] if tb else None
        in_repo = bool(inner and inner.filename.startswith(repo))
        where = f"{inner.name}" if inner else "?"
        text = "".join(traceback.format_exception(type(exc), exc, exc.__traceback__))[-1500:]
        if in_repo:
            self.violation(f"library-raised:{where}:{type(exc).__name__}",
                           f"library raised {type(exc).__name__} in {where} on a legal input: {exc}", trace=text)
        else:
            self.counters["harness_errors"] += 1
            self.notes.append({"harness_error": text, "case": self.case})

    # -- serialisation -----------------------------------------------------------------
    def report(self):
        return {
            "prop": self.prop, "tier": self.tier, "seed": self.seed, "shard": self.shard,
            "evaluations": self.evaluations,
            "distinct": sorted(self.distinct),
            "states": sorted(self.states)[:200000],
            "counters": dict(self.counters),
            "violations": self.violations,
            "samples": self.samples,
            "exhaustive": self.exhaustive,
            "truncated": self.truncated,
            "notes": self.notes[:5],
        }
