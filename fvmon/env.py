"""Environment handling: which repository is under test, where third-party deps live.

The repository under test is $FVMON_REPO (default /repo).  Shards put it at sys.path[0]
so that `import fibertree` resolves to the *working tree* being checked (the editable
install of /repo is a meta-path finder that comes after the path finder, so sys.path wins).
"""
import os
import sys

VERIF = os.path.dirname(os.path.dirname(os.path.abspath(__file__)))
DEPS = os.path.join(VERIF, ".deps")
GUARD = "FIBERTREE_VERIF"
PY = "/venv/bin/python"


def repo_path():
    return os.path.abspath(os.environ.get("FVMON_REPO", "/repo"))


def setup_import_path():
    """Make `import fibertree` pick the repository under test; add .deps for icontract."""
    repo = repo_path()
    if sys.path[0] != repo:
        sys.path.insert(0, repo)
    if os.path.isdir(DEPS) and DEPS not in sys.path:
        sys.path.append(DEPS)
    os.environ[GUARD] = "1"


def assert_repo_is_under_test():
    import fibertree
    here = os.path.realpath(os.path.dirname(os.path.dirname(fibertree.__file__)))
    want = os.path.realpath(repo_path())
    if here != want:
        raise RuntimeError(f"fibertree imported from {here}, expected {want}")
    return here


def repo_state():
    """(HEAD, dirty) of the repository under test, best effort."""
    import subprocess
    repo = repo_path()
    try:
        head = subprocess.run(["git", "-C", repo, "rev-parse", "HEAD"], capture_output=True,
                              text=True, timeout=20).stdout.strip()
        dirty = subprocess.run(["git", "-C", repo, "status", "--porcelain", "--untracked-files=no"],
                               capture_output=True, text=True, timeout=20).stdout.strip() != ""
    except Exception:
        head, dirty = "unknown", False
    return head, dirty
