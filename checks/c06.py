"""C06 - kernel results do not depend on the dataflow used to compute them.

Monitor: a generic loop-nest interpreter (fvmon.kernels) runs each generated sum-of-products kernel on
the real library in the library's idiom; the oracle is a dense nested-loop evaluation over plain Python
lists.  Metamorphic layer: for one expression and operand set, every loop-order permutation, uniform
tilings of every index, both intersection styles (and, for 3 operands, nested `&` vs Fiber.intersection)
must give the same content.
"""
import random

from fvmon import kernels
from fvmon.observe import WF, RC

SPEC = {
    "anchors": ["fibertree.core.iterators:__and__", "fibertree.core.iterators:__lshift__", "fibertree.core.iterators:intersection", "fibertree.core.tensor:Tensor.swizzleRanks", "fibertree.core.tensor:Tensor._splitGeneric", "fibertree.core.fiber:Fiber.splitUniform", "fibertree.core.payload:Payload.__iadd__", "fibertree.core.payload:Payload.__mul__"],
    "rule": ("case = one einsum-like expression from 17 families (dot, matrix-vector, matrix-matrix, element-wise, "
             "reductions, transposes, outer product, 3-operand chains, 3-index operands; 1-3 operands, 1-3 index "
             "variables, extents 1-5) with random integer operand values (densities 0-1 incl. empty operands/rows, "
             "negative values so sums cancel); the monitor runs it under every loop order, every listed uniform "
             "tiling (untiled + up to 3 (variable, size) choices incl. size 1 and size > extent), both intersection "
             "styles.  Non-trivial = the dense result has at least one non-zero entry and at least 2 distinct "
             "dataflows were executed; distinct = distinct case."),
    "shards": {"quick": 16, "thorough": 16},
    "min_counts": {"quick": {"evaluations": 150, "kernel_runs": 4000, "leaf_bodies": 20000, "tiled_runs": 1000,
                             "lf_runs": 1000, "uformat_runs": 300, "estimated_shape_runs": 300, "div_tiled_runs": 500,
                             "float_value_runs": 500, "lf_three_on_one_rank_runs": 200,
                             "right_nested_runs": 300, "long_rank_runs": 500, "tiny_value_runs": 200}},
    "assumptions": [
        "integer payloads, leaf default 0 (the idiom's zero-product filter is defined for 0)",
        "each index variable is tiled at most once (two-level tilings of one rank are not generated); no halos",
        "explicit zeros in the output are not a difference (content map)",
        "tiling is applied to every operand that carries the index and to the output; results are compared after mapping tile coordinates away",
    ],
}


def generate(rng, tier, shard, nshards, mon):
    n = (640 if tier == "quick" else 6000) // nshards
    fams = kernels.FAMILIES + kernels.FAMILIES3
    for i in range(n):
        fam = fams[(i * nshards + shard) % len(fams)] if i < 2 * len(fams) else rng.choice(fams)
        spec = kernels.rand_spec(rng, family=fam, tiles=False, big=(i % 7 == 3))
        vs = kernels.variables(spec)
        if rng.random() < 0.2:
            # non-integer values (dyadic rationals: every sum and product is exact in binary floating point)
            sc = rng.choice([0.5, 0.25, 1.5, 2.0 ** -40])

            def scale(x):
                return [scale(y) for y in x] if isinstance(x, list) else x * sc
            if sc < 1e-6:
                # one operand with tiny (but non-zero) magnitudes, the others as they are: no value may be taken for zero
                k0 = rng.choice(sorted(spec["vals"]))
                spec["vals"][k0] = scale(spec["vals"][k0])
                spec["tiny_values"] = True
            else:
                spec["vals"] = {k: scale(v) for k, v in spec["vals"].items()}
            spec["float_values"] = True
        r = rng.random()
        if r < 0.2:
            spec["noshape"] = True          # operands whose shapes are estimates
        elif r < 0.45:
            # uncompressed-format operand ranks (zero-valued operands reach the body)
            fm = []
            for name, idx in spec["ops"]:
                for x in idx:
                    if rng.random() < 0.4:
                        fm.append([name, kernels.rid(x)])
            spec["fmts"] = fm
        tiles = []
        for _ in range(2 if tier == "quick" else 4):
            v = rng.choice(vs)
            tiles.append({v: rng.choice([1, 2, 2, 3, spec["ext"][v], spec["ext"][v] + 1])})
        if len(vs) >= 2 and rng.random() < 0.3:
            a, b = rng.sample(vs, 2)
            tiles.append({a: 2, b: rng.choice([1, 2, 3])})
        divs = [None] * len(tiles)
        if not spec.get("noshape"):
            # the convenience form: bring the rank to the top (a rotation of the operand's ranks), then `tensor / parts`
            v = rng.choice(vs)
            parts = rng.randint(1, 4)
            tiles.append({v: (spec["ext"][v] + parts - 1) // parts})
            divs.append({v: parts})
            # an operand with three or more indices: bringing a rank to the top is a rotation that is not its own inverse,
            # so every one of its ranks is tiled this way once
            for _, idx in spec["ops"]:
                if len(idx) >= 3:
                    for w in idx:
                        if w != v:
                            parts = rng.randint(2, 3)
                            tiles.append({w: (spec["ext"][w] + parts - 1) // parts})
                            divs.append({w: parts})
                    break
        yield {"spec": spec, "tilings": tiles, "divs": divs, "max_orders": 6 if tier == "quick" else 24, "oseed": rng.randrange(1 << 20)}


def run_case(case, mon):
    base = case["spec"]
    want = kernels.dense(base)
    r = random.Random(case["oseed"])
    flows = 0
    results = {}
    divs = [None] + (case.get("divs") or [None] * len(case["tilings"]))
    for ti, tiles in enumerate([{}] + case["tilings"]):
        spec = dict(base, tiles=tiles)
        spec.pop("div", None)
        if divs[ti]:
            spec["div"] = divs[ti]
        orders = list(kernels.all_orders(spec))
        if len(orders) > case["max_orders"]:
            orders = r.sample(orders, case["max_orders"])
        for order in orders:
            for style in ("two-finger", "leader-follower"):
                for nested in ((True, False, "right") if (len(base["ops"]) >= 3 and style == "two-finger") else (True,)):
                    s = dict(spec, order=order, style=style)
                    tag = f"{('tiled-by-div' if divs[ti] else 'tiled') if tiles else 'untiled'}:{style}" + ("" if nested is True else (":right-nested-intersection" if nested == "right" else ":flat-intersection"))
                    try:
                        tensors, Z, lvars, zl = kernels.build(s)
                        nb = kernels.execute(s, tensors, Z, lvars, zl, nested_and=nested)
                        got = kernels.z_content(s, Z, zl)
                    except BaseException as e:      # noqa
                        if isinstance(e, KeyboardInterrupt):
                            raise
                        mon.violation(f"kernel:raised:{type(e).__name__}:{tag}",
                                      f"kernel {base['ops']}->{base['out']!r} order={order} tiles={tiles} raised {type(e).__name__}: {e}")
                        continue
                    flows += 1
                    mon.count("kernel_runs")
                    mon.count("leaf_bodies", nb)
                    if tiles:
                        mon.count("tiled_runs")
                    if divs[ti]:
                        mon.count("div_tiled_runs")
                    if nested == "right":
                        mon.count("right_nested_runs")
                    if max(base["ext"].values()) > 16:
                        mon.count("long_rank_runs")
                    if base.get("tiny_values"):
                        mon.count("tiny_value_runs")
                    if base.get("float_values"):
                        mon.count("float_value_runs")
                    if style == "leader-follower" and max(len([n for n, idx in base["ops"] if v in idx]) for v in kernels.variables(base)) >= 3:
                        mon.count("lf_three_on_one_rank_runs")
                    if base.get("fmts"):
                        mon.count("uformat_runs")
                    if base.get("noshape"):
                        mon.count("estimated_shape_runs")
                    if style == "leader-follower":
                        mon.count("lf_runs")
                    mon.check(got == want, f"kernel:result:{tag}",
                              f"kernel {base['ops']}->{base['out']!r} order={order} tiles={tiles} style={style}: got {got}, dense result {want}; vals={base['vals']}")
                    pz = WF(Z) + RC(Z)
                    mon.check(not pz, f"kernel:output-malformed:{tag}", f"output tensor malformed after the kernel: {pz[:2]}")
                    results[(str(order), str(tiles), style)] = got
    if want and flows >= 2:
        mon.nontrivial()
    mon.state((str(base["ops"]), base["out"], len(want)))
