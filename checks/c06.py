"""C06 - kernel results do not depend on the dataflow used to compute them.

Monitor: a generic loop-nest interpreter (fvmon.kernels) runs each generated sum-of-products kernel on
the real library in the library's idiom; the oracle is a dense nested-loop evaluation over plain Python
lists.  Metamorphic layer: for one expression and operand set, every loop-order permutation, uniform
tilings of every index, both intersection styles (and, for 3 operands, nested `&` vs Fiber.intersection)
must give the same content.
"""
import random

from fvmon import kernels
from fvmon.observe import WF, RC

SPEC = {
    "anchors": ["fibertree.core.iterators:__and__", "fibertree.core.iterators:__lshift__", "fibertree.core.iterators:intersection", "fibertree.core.tensor:Tensor.swizzleRanks", "fibertree.core.tensor:Tensor._splitGeneric", "fibertree.core.fiber:Fiber.splitUniform", "fibertree.core.payload:Payload.__iadd__", "fibertree.core.payload:Payload.__mul__"],
    "rule": ("case = one einsum-like expression from 17 families (dot, matrix-vector, matrix-matrix, element-wise, "
             "reductions, transposes, outer product, 3-operand chains, 3-index operands; 1-3 operands, 1-3 index "
             "variables, extents 1-5) with random integer operand values (densities 0-1 incl. empty operands/rows, "
             "negative values so sums cancel); the monitor runs it under every loop order, every listed uniform "
             "tiling (untiled + up to 3 (variable, size) choices incl. size 1 and size > extent), both intersection "
             "styles.  Non-trivial = the dense result has at least one non-zero entry and at least 2 distinct "
             "dataflows were executed; distinct = distinct case."),
    "shards": {"quick": 16, "thorough": 16},
    "min_counts": {"quick": {"evaluations": 150, "kernel_runs": 4000, "leaf_bodies": 20000, "tiled_runs": 1000,
                             "lf_runs": 1000, "uformat_runs": 300, "estimated_shape_runs": 300, "div_tiled_runs": 500,
                             "float_value_runs": 500, "lf_three_on_one_rank_runs": 200,
                             "right_nested_runs": 300, "long_rank_runs": 500, "tiny_value_runs": 200,
                             "tiled_twice_runs": 150, "tiled_twice_inner_not_dividing_outer": 60}},
    "assumptions": [
        "integer payloads, leaf default 0 (the idiom's zero-product filter is defined for 0)",
        "in the generated expression families each index variable is tiled at most once; tiles of tiles (one rank tiled twice, inner size dividing the outer one or not) are exercised by a matrix-vector kernel in two loop orders; no halos",
        "explicit zeros in the output are not a difference (content map)",
        "tiling is applied to every operand that carries the index and to the output; results are compared after mapping tile coordinates away",
    ],
}


def generate(rng, tier, shard, nshards, mon):
    # matrix-vector kernels whose reduction rank is tiled twice (tiles of tiles), inner size dividing the outer one or not
    for j in range((320 if tier == "quick" else 3200) // nshards):
        M, K = rng.randint(1, 4), rng.randint(1, 13)
        s1 = rng.randint(2, 10)
        yield {"kind": "tiled2", "A": [[rng.choice([0, 0, 1, 2, 3, -1, -2]) for _ in range(K)] for _ in range(M)],
               "B": [rng.choice([0, 1, 2, 3, -1]) for _ in range(K)], "s1": s1, "s2": rng.randint(1, s1), "flow": j % 2}
    n = (640 if tier == "quick" else 6000) // nshards
    fams = kernels.FAMILIES + kernels.FAMILIES3
    for i in range(n):
        fam = fams[(i * nshards + shard) % len(fams)] if i < 2 * len(fams) else rng.choice(fams)
        spec = kernels.rand_spec(rng, family=fam, tiles=False, big=(i % 7 == 3))
        vs = kernels.variables(spec)
        if rng.random() < 0.2:
            # non-integer values (dyadic rationals: every sum and product is exact in binary floating point)
            sc = rng.choice([0.5, 0.25, 1.5, 2.0 ** -40])

            def scale(x):
                return [scale(y) for y in x] if isinstance(x, list) else x * sc
            if sc < 1e-6:
                # one operand with tiny (but non-zero) magnitudes, the others as they are: no value may be taken for zero
                k0 = rng.choice(sorted(spec["vals"]))
                spec["vals"][k0] = scale(spec["vals"][k0])
                spec["tiny_values"] = True
            else:
                spec["vals"] = {k: scale(v) for k, v in spec["vals"].items()}
            spec["float_values"] = True
        r = rng.random()
        if r < 0.2:
            spec["noshape"] = True          # operands whose shapes are estimates
        elif r < 0.45:
            # uncompressed-format operand ranks (zero-valued operands reach the body)
            fm = []
            for name, idx in spec["ops"]:
                for x in idx:
                    if rng.random() < 0.4:
                        fm.append([name, kernels.rid(x)])
            spec["fmts"] = fm
        tiles = []
        for _ in range(2 if tier == "quick" else 4):
            v = rng.choice(vs)
            tiles.append({v: rng.choice([1, 2, 2, 3, spec["ext"][v], spec["ext"][v] + 1])})
        if len(vs) >= 2 and rng.random() < 0.3:
            a, b = rng.sample(vs, 2)
            tiles.append({a: 2, b: rng.choice([1, 2, 3])})
        divs = [None] * len(tiles)
        if not spec.get("noshape"):
            # the convenience form: bring the rank to the top (a rotation of the operand's ranks), then `tensor / parts`
            v = rng.choice(vs)
            parts = rng.randint(1, 4)
            tiles.append({v: (spec["ext"][v] + parts - 1) // parts})
            divs.append({v: parts})
            # an operand with three or more indices: bringing a rank to the top is a rotation that is not its own inverse,
            # so every one of its ranks is tiled this way once
            for _, idx in spec["ops"]:
                if len(idx) >= 3:
                    for w in idx:
                        if w != v:
                            parts = rng.randint(2, 3)
                            tiles.append({w: (spec["ext"][w] + parts - 1) // parts})
                            divs.append({w: parts})
                    break
        yield {"spec": spec, "tilings": tiles, "divs": divs, "max_orders": 6 if tier == "quick" else 24, "oseed": rng.randrange(1 << 20)}


def _run_tiled2(case, mon):
    """Z[m] = sum_k A[m,k] * B[k] with K tiled by s1 and each tile tiled again by s2, in both operands; two loop orders."""
    from fibertree import Tensor
    from fvmon.observe import content
    A0, B0, s1, s2 = case["A"], case["B"], case["s1"], case["s2"]
    M, K = len(A0), len(B0)
    want = {}
    for m in range(M):
        v = sum(A0[m][k] * B0[k] for k in range(K))
        if v != 0:
            want[(m,)] = v
    try:
        a = Tensor.fromUncompressed(rank_ids=["M", "K"], root=A0, shape=[M, K], name="A")
        b = Tensor.fromUncompressed(rank_ids=["K"], root=B0, shape=[K], name="B")
        a = a.splitUniform(s1, rankid="K").splitUniform(s2, rankid="K.0")
        b = b.splitUniform(s1, rankid="K").splitUniform(s2, rankid="K.0")
        z = Tensor(rank_ids=["M"], shape=[M], name="Z")
        z_m, b_k2 = z.getRoot(), b.getRoot()
        bodies = 0
        if case["flow"] == 0:
            for m, (z_ref, a_k2) in z_m << a.getRoot():
                for k2, (a_k1, b_k1) in a_k2 & b_k2:
                    for k1, (a_k0, b_k0) in a_k1 & b_k1:
                        for k0, (av, bv) in a_k0 & b_k0:
                            z_ref += av * bv
                            bodies += 1
        else:
            a = a.swizzleRanks(["K.1", "K.0.1", "M", "K.0.0"])
            for k2, (a_k1, b_k1) in a.getRoot() & b_k2:
                for k1, (a_m, b_k0) in a_k1 & b_k1:
                    for m, (z_ref, a_k0) in z_m << a_m:
                        for k0, (av, bv) in a_k0 & b_k0:
                            z_ref += av * bv
                            bodies += 1
    except BaseException as e:      # noqa
        if isinstance(e, KeyboardInterrupt):
            raise
        mon.violation(f"kernel:raised:{type(e).__name__}:tiled-twice", f"matrix-vector kernel with K tiled by {s1} then {s2} raised {type(e).__name__}: {e}")
        return
    mon.count("kernel_runs")
    mon.count("tiled_twice_runs")
    mon.count("leaf_bodies", bodies)
    if s1 % s2:
        mon.count("tiled_twice_inner_not_dividing_outer")
    got = {p_: v for p_, v in content(z, 0).items() if v != 0}
    mon.check(got == want, "result:tiled-twice" + (":inner-size-not-dividing-outer" if s1 % s2 else ""),
              f"matrix-vector with K (extent {K}) tiled by {s1} then {s2}, loop order {'M outermost' if case['flow'] == 0 else 'tiles outermost'}: "
              f"Z = {got}, the dense result is {want}")
    probs = WF(z.getRoot()) + RC(z)
    mon.check(not probs, "output:malformed:tiled-twice", f"output tensor malformed: {probs[:2]}")
    if want:
        mon.nontrivial()
    mon.state(("tiled2", K, s1, s2, case["flow"], len(want)))


def run_case(case, mon):
    if case.get("kind") == "tiled2":
        return _run_tiled2(case, mon)
    base = case["spec"]
    want = kernels.dense(base)
    r = random.Random(case["oseed"])
    flows = 0
    results = {}
    divs = [None] + (case.get("divs") or [None] * len(case["tilings"]))
    for ti, tiles in enumerate([{}] + case["tilings"]):
        spec = dict(base, tiles=tiles)
        spec.pop("div", None)
        if divs[ti]:
            spec["div"] = divs[ti]
        orders = list(kernels.all_orders(spec))
        if len(orders) > case["max_orders"]:
            orders = r.sample(orders, case["max_orders"])
        for order in orders:
            for style in ("two-finger", "leader-follower"):
                for nested in ((True, False, "right") if (len(base["ops"]) >= 3 and style == "two-finger") else (True,)):
                    s = dict(spec, order=order, style=style)
                    tag = f"{('tiled-by-div' if divs[ti] else 'tiled') if tiles else 'untiled'}:{style}" + ("" if nested is True else (":right-nested-intersection" if nested == "right" else ":flat-intersection"))
                    try:
                        tensors, Z, lvars, zl = kernels.build(s)
                        nb = kernels.execute(s, tensors, Z, lvars, zl, nested_and=nested)
                        got = kernels.z_content(s, Z, zl)
                    except BaseException as e:      # noqa
                        if isinstance(e, KeyboardInterrupt):
                            raise
                        mon.violation(f"kernel:raised:{type(e).__name__}:{tag}",
                                      f"kernel {base['ops']}->{base['out']!r} order={order} tiles={tiles} raised {type(e).__name__}: {e}")
                        continue
                    flows += 1
                    mon.count("kernel_runs")
                    mon.count("leaf_bodies", nb)
                    if tiles:
                        mon.count("tiled_runs")
                    if divs[ti]:
                        mon.count("div_tiled_runs")
                    if nested == "right":
                        mon.count("right_nested_runs")
                    if max(base["ext"].values()) > 16:
                        mon.count("long_rank_runs")
                    if base.get("tiny_values"):
                        mon.count("tiny_value_runs")
                    if base.get("float_values"):
                        mon.count("float_value_runs")
                    if style == "leader-follower" and max(len([n for n, idx in base["ops"] if v in idx]) for v in kernels.variables(base)) >= 3:
                        mon.count("lf_three_on_one_rank_runs")
                    if base.get("fmts"):
                        mon.count("uformat_runs")
                    if base.get("noshape"):
                        mon.count("estimated_shape_runs")
                    if style == "leader-follower":
                        mon.count("lf_runs")
                    mon.check(got == want, f"kernel:result:{tag}",
                              f"kernel {base['ops']}->{base['out']!r} order={order} tiles={tiles} style={style}: got {got}, dense result {want}; vals={base['vals']}")
                    pz = WF(Z) + RC(Z)
                    mon.check(not pz, f"kernel:output-malformed:{tag}", f"output tensor malformed after the kernel: {pz[:2]}")
                    results[(str(order), str(tiles), style)] = got
    if want and flows >= 2:
        mon.nontrivial()
    mon.state((str(base["ops"]), base["out"], len(want)))
