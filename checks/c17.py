"""C17 - buffer traffic models charge exactly what their policy implies.

Monitor: the real `Traffic.buffetTraffic`, `Traffic.cacheTraffic`, `Traffic.filterTrace` and
`Traffic._combineTraces` are driven with CSV trace files (hand-written synthetic ones and real ones
recorded by `Metrics` from a Gustavson kernel).  Independent reference models, computed from the raw
rows of those files, decide:

  buffet   fills       = #distinct (line, eviction-window) pairs whose first access is a read
           write-backs = #distinct (line, eviction-window) pairs holding a non-staging write
  cache    fills / write-backs = furthest-next-use-with-bypass simulator over the actual access order;
           for short read-only traces additionally the true optimum by exhaustive search over
           replacement decisions
  both     one fill per distinct line <= fills <= one per read access; monotone in capacity (cache);
           traffic invariant under moving positions inside their line and under the order in which
           the bindings of one call are listed (bindings of different element widths included); invariant under
           the order in which the entries of the trace dictionary are written down (read entry of a binding before
           or after its write entry)
           cache, several bindings on ONE loop rank (e.g. the coordinates and the payloads of a fiber, driven by
           the same trace): accesses of one stamp are served in the order of the listing; the simulator and the
           exhaustive optimum are evaluated on exactly that access sequence
  lines    a line is a tuple (coordinate of every enclosing rank of the tensor, first position): part of the random
           traces visit distinct lines whose numbers read the same when written one after the other ((1, 12) and
           (11, 2)); every oracle keeps them apart as tuples
  filterTrace      = rows of the input whose point occurs (as a prefix) in the filter
  _combineTraces   = stable merge by iteration stamp (read first on ties)
  directory listing before/after every model call (temporary files removed), also when the trace dictionary
           holds entries that no binding of the call names (nothing is charged to those)
  capacity = a quantity, not a spelling: finite capacities are handed over as int or float bits, the unbounded
           one as float("inf") / math.inf / an int or float with room for every access / an int beyond any machine
           word; all are judged by the same oracles, and two spellings of unbounded must report the same
"""
import itertools
import math
import os
import shutil
import tempfile
from functools import lru_cache

from fibertree import Metrics, Tensor
from fibertree.model import Format, Traffic

SPEC = {
    "anchors": ["fibertree.model.traffic:Traffic._combineTraces", "fibertree.model.traffic:Traffic._buildNextUseTrace", "fibertree.model.traffic:Traffic._bufferTraffic", "fibertree.model.traffic:Traffic.buffetTraffic", "fibertree.model.traffic:Traffic.cacheTraffic", "fibertree.model.traffic:Traffic.filterTrace"],
    "rule": ("cases = (i) every read-only access sequence (up to renaming of lines) of length <= 8 over <= 3 lines and "
             "<= 7 over 4 lines (thorough: 10 / 9) under the cache at capacities 0..3 lines and unbounded (simulator + "
             "exhaustive optimum), every read / write / read-modify-write sequence of length <= 5 (6) over 2 lines "
             "under the cache, and every read / write / staging-write / read-modify-write sequence of length <= 4 (5) "
             "over 2 lines x every split into eviction windows under the buffet (evict-on root and outer rank); "
             "(ii) random single-binding traces over 1-3 loop ranks (read-only, "
             "write-only, read+write, staging writes, line sizes of 1/2/4 elements and padded lines, coord / "
             "payload / elem bindings, tensors spanning any subset of the loop ranks, renamed loop ranks; in 25% of the "
             "cases over 2-3 loop ranks the tensor has 1-2 enclosing ranks and most accesses go to 2-4 lines that are "
             "distinct as tuples (enclosing coordinates, first position of the line) but whose decimal digits written "
             "one after the other coincide, e.g. (1, 12) / (11, 2) or (1, 11, 20) / (11, 1, 20) / (1, 1, 120), re-used "
             "across eviction windows; likewise 20% of the bindings of (iii) that sit below the outermost loop rank), each "
             "run under the buffet for every legal evict-on and under the cache for capacities 0..unbounded, plus "
             "a re-run with positions moved inside their lines; (iii) random multi-binding runs (2-3 bindings, "
             "1-2 tensors, bindings on the same or on different loop ranks, one element width for all bindings or "
             "one of 8/16/32/64 bits per binding, i.e. several elements-per-line values in one call; in 60% of the cases "
             "where two bindings name one (tensor, rank) - its coordinates and its payloads - one read trace drives both, "
             "so their accesses share every stamp while their line streams differ with the widths), each run with "
             "the bindings (and the trace dictionary) listed in every order: every listing is judged by the same "
             "reference models (cache: simulator and, for short read-only runs, the exhaustive optimum over the access "
             "sequence stamp by stamp, bindings of one loop rank in the order of the listing - also when several bindings "
             "sit on one loop rank and their next uses fall on the same stamp) and must charge what the first listing did "
             "(buffet always; cache when the bindings "
             "sit on different loop ranks), part of them re-run with positions moved inside their lines; (iv) real "
             "traces recorded by Metrics from Z_MN = A_MK * B_KN (Gustavson), incl. "
             "populate read/write traces with insertion shifts, multi-binding runs with per-binding element widths and "
             "one re-listing of the bindings; (v) filterTrace and _combineTraces on random and "
             "real traces.  Capacities: a finite capacity of c lines is handed over as int bits or as the same "
             "number of float bits (e.g. 96.0), with or without a spare half line; the unbounded one rotates over "
             "float('inf'), math.inf, an int / a float with room for every access of the run, and an int beyond any "
             "machine word (all judged by the same oracles: fills of the simulator / optimum at `every line fits`, zero "
             "overflows, no more fills than at the finite capacities); in every 6th case the unbounded run is repeated "
             "in another spelling and must report the same.  Trace dictionaries: in 40% of the random cases of (ii)/(iii) "
             "and 30% of the runs of (iv) the dictionary also holds 1-3 entries that no binding of the call names (the "
             "other type of a bound rank, another rank of a bound tensor, a tensor not bound at all and possibly "
             "traced one loop rank deeper than any binding; in (iv) the dictionary of the whole kernel), listed before "
             "or after the bound ones: same oracles, nothing charged to them, same directory listing afterwards.  The bound "
             "entries are written down in one of four orders, rotating over the cases and the eviction settings of a case "
             "(binding by binding with the read entry before / after the write entry; all write entries first; all read "
             "entries first): same oracles; in every 3rd case with a read+write binding one buffet and one cache run is "
             "repeated with read and write entries the other way round and must report the same.  "
             "History: in 25% of the random cases of (ii)/(iii) the call under test is not the first thing that happened "
             "at its paths: before the first buffet call of every eviction setting and before two of the cache calls an "
             "earlier run of the kernel (a subset of the iterations, other positions) is written to the very paths of the "
             "case, a model call on it with the same formats and trace dictionary is refused (AssertionError: the type of "
             "one binding does not fit the layout of its rank) after its temporaries were written, nothing is cleaned up, "
             "and the trace files are rewritten with the rows of the case.  The following call is judged by the same "
             "oracles applied to the rewritten traces alone (keys carry :first-call-after-a-refused-call-on-an-earlier-"
             "trace), and the directory must hold only the trace files afterwards.  "
             "Non-trivial = some line is touched at least twice (model cases) / the filter keeps "
             "and drops at least one row / both merged files hold rows; distinct = distinct case description."),
    "shards": {"quick": 16, "thorough": 16},
    "budget_s": {"quick": 0, "thorough": 900},
    "timeout_s": {"quick": 900, "thorough": 1500},
    "min_counts": {"quick": {"evaluations": 8000, "oracle_evals": 300000, "model_calls": 40000, "buffet_calls": 15000,
                             "cache_calls": 20000, "fnu_checked": 15000, "optimum_checked": 5000,
                             "listing_checked": 40000, "filter_calls": 600, "combine_calls": 300, "kernel_cases": 150,
                             "lineperm_checked": 1200, "multi_binding_calls": 6000, "staging_writes_seen": 4000,
                             "relisted_runs": 1000, "listing_order_checked": 2500, "mixed_width_cases": 300,
                             "mixed_width_out_of_loop_order_runs": 300,
                             "unbounded_as_float_inf": 6000, "unbounded_as_finite_number": 9000,
                             "float_capacity_calls": 15000, "unbounded_form_pairs": 1500,
                             "cases_with_unbound_trace_entries": 500, "calls_with_unbound_trace_entries": 6000,
                             "kernel_whole_dictionary_runs": 150,
                             "write_entry_first_calls": 8000, "dictionary_order_pairs": 1500,
                             "shared_trace_cases": 250, "same_rank_fnu_checked": 1500,
                             "same_rank_optimum_checked": 250,
                             "cases_with_reused_lines_alike_as_text": 120,
                             "calls_on_reused_lines_alike_as_text": 2000,
                             "refused_calls_on_earlier_traces": 600,
                             "calls_after_a_refused_call_that_left_files": 600},
                   "thorough": {"evaluations": 100000, "oracle_evals": 4000000, "model_calls": 400000,
                                "fnu_checked": 200000, "optimum_checked": 50000, "kernel_cases": 2000,
                                "filter_calls": 8000, "combine_calls": 4000, "relisted_runs": 10000,
                                "listing_order_checked": 25000, "mixed_width_cases": 3000,
                                "mixed_width_out_of_loop_order_runs": 3000,
                                "unbounded_as_float_inf": 40000, "unbounded_as_finite_number": 60000,
                                "float_capacity_calls": 100000, "unbounded_form_pairs": 10000,
                                "cases_with_unbound_trace_entries": 5000, "calls_with_unbound_trace_entries": 60000,
                                "kernel_whole_dictionary_runs": 1500,
                                "write_entry_first_calls": 60000, "dictionary_order_pairs": 10000,
                                "shared_trace_cases": 2500, "same_rank_fnu_checked": 15000,
                                "same_rank_optimum_checked": 2000,
                                "cases_with_reused_lines_alike_as_text": 1500,
                                "calls_on_reused_lines_alike_as_text": 25000,
                                "refused_calls_on_earlier_traces": 6000,
                                "calls_after_a_refused_call_that_left_files": 6000}},
    "assumptions": [
        "well-formed trace file = header + rows whose iteration stamps strictly increase inside the file; a read "
        "row and a write row (different files) may share a stamp, the read is first",
        "coordinates in a row are a function of the stamp prefix (same iteration -> same coordinate)",
        "evict-on is root or a loop rank strictly outside the bound rank (the quantifier of the statement)",
        "a line of a bound rank is identified by the coordinates of the tensor's enclosing ranks (in loop order) "
        "together with position // elements-per-line: a tuple of numbers.  Two lines are the same line only when "
        "these tuples are equal; how the numbers look in the text of a trace file (number of digits, digits of "
        "neighbouring columns) is not an input of the statement",
        "cache: equality with the furthest-next-use simulator is demanded when next-use times are unambiguous: "
        "no two different lines of ONE binding share a stamp in its merged read/write trace, the write-traced "
        "bindings of a run agree on the extent of the rank, and no access addresses the staging area (the statement "
        "does not say how staging lines occupy a cache); otherwise only bounds, capacity monotonicity and file "
        "clean-up are judged",
        "several bindings on one loop rank: accesses carrying the same stamp are served in the order the bindings "
        "are listed, so the access sequence - and with it every next-use time - is still unambiguous; the simulator "
        "(ties in next-use STAMP are no ties in next-use TIME) and the optimum are evaluated on that sequence",
        "optimality against exhaustive search is demanded for read-only runs only (with free write misses "
        "furthest-next-use is the stated policy but not provably optimal)",
        "filterTrace: points of the input strictly increase, full points of the filter strictly increase, the "
        "input's loop ranks are a prefix of the filter's",
        "a trace file whose rank was never reached by the kernel (no header at all) is not a trace; such real "
        "traces are skipped",
        "cache write-backs are compared with the same simulator (a dirty line is written back once when it leaves, "
        "a bypassed write is written through), under their own violation keys",
        "violation keys carry the input class of the run (multi-binding; write-traced bindings whose rank extents "
        "differ; read and write rows of different lines on one stamp; staging lines beside another "
        "binding) so that one mechanism maps to one key; the class never excuses a violation",
        "the bindings of one call are a set and the trace files a mapping: the order of listing either is not an "
        "input of the statement; in particular a binding's read trace may be listed before or after its write "
        "trace.  Buffet traffic is a sum over bindings, so it must be the same for every listing; "
        "the cache processes accesses in stamp order and breaks stamp ties between bindings of ONE loop rank by "
        "listing order, so equality across listings is demanded only when the bindings sit on different loop ranks",
        "every binding has its own elements-per-line = line size // its element width (the statement's "
        "`line-granular positions` are per binding); the line size is at least the widest element",
        "overflow counts are not part of the statement; only `unbounded capacity -> 0 overflows` is looked at",
        "a capacity is a number of bits: an int, a float with an integral value, float('inf') / math.inf for "
        "`unbounded`; what it holds is floor(capacity / line size) whole lines.  The spelling of the number is not an "
        "input of the statement",
        "`given traces` = the trace files as they are when the call starts: what a call charges does not depend on "
        "what was at those paths before, nor on earlier calls.  A call that is refused (a binding whose type does not "
        "fit the layout of its rank is not a well-formed binding) is outside the quantifier: neither what it raises nor "
        "what it leaves in the directory is judged; files it leaves behind carry the names of the temporaries of the "
        "next call with the same trace dictionary, so after that call (which is inside the quantifier) `all temporary "
        "files are removed` means the directory holds the trace files only",
        "the trace dictionary may describe more than the call binds (each buffer level is handed the dictionary of "
        "the whole kernel): entries whose (tensor, rank, type) no binding names come from the same loop nest, their "
        "tensors have a format with a non-zero element width; they must not be charged (a zero entry or no entry "
        "for them in the result are both accepted) and their temporary files must go like all others",
    ],
}

RANKS = ["M", "K", "N"]
# trace files are small and short-lived: keep them on a memory file system when there is one
TMPROOT = "/dev/shm" if os.path.isdir("/dev/shm") and os.access("/dev/shm", os.W_OK) else None


# ------------------------------------------------------------------------------------------
# generation
# ------------------------------------------------------------------------------------------
def generate(rng, tier, shard, nshards, mon):
    quick = tier == "quick"
    idx = 0
    # (i-a) read-only sequences over <= 3 lines, cache
    maxlen = 8 if quick else 10
    for ln in range(1, maxlen + 1):
        for seq in _growth_strings(ln, 3):
            if idx % nshards == shard:
                yield _sys_cache_case([(l, "r") for l in seq], 1 + (idx // nshards) % 2, idx // (2 * nshards))
            idx += 1
    mon.exhaustive[f"cache-readonly-seqs-len{maxlen}-3lines"] = True
    maxlen4 = 7 if quick else 9
    for ln in range(4, maxlen4 + 1):
        for seq in _growth_strings(ln, 4):
            if max(seq) < 3:
                continue
            if idx % nshards == shard:
                yield _sys_cache_case([(l, "r") for l in seq], 1 + (idx // nshards) % 2, idx // (2 * nshards))
            idx += 1
    mon.exhaustive[f"cache-readonly-seqs-len{maxlen4}-4lines"] = True
    # (i-b) read/write sequences over 2 lines, cache
    maxlen = 5 if quick else 6
    for ln in range(1, maxlen + 1):
        for seq in itertools.product([(0, "r"), (0, "w"), (1, "r"), (1, "w"), (0, "rw")], repeat=ln):
            if idx % nshards == shard:
                yield _sys_cache_case(list(seq), 1 + (idx // nshards) % 2, idx // (2 * nshards))
            idx += 1
    mon.exhaustive[f"cache-readwrite-seqs-len{maxlen}-2lines"] = True
    # (i-c) read / write / staging-write sequences over 2 lines x window splits, buffet
    maxlen = 4 if quick else 5
    alpha = [(0, "r"), (0, "w"), (1, "r"), (1, "w"), (0, "s"), (0, "rw")]
    for ln in range(1, maxlen + 1):
        for seq in itertools.product(alpha, repeat=ln):
            for breaks in itertools.product([0, 1], repeat=ln - 1):
                if idx % nshards == shard:
                    yield _sys_buffet_case(list(seq), breaks, 1 + (idx // nshards) % 2, idx // (2 * nshards))
                idx += 1
    mon.exhaustive[f"buffet-seqs-len{maxlen}-2lines-all-window-splits"] = True

    nrand = (4000 if quick else 50000) // nshards
    for _ in range(nrand):
        r = rng.random()
        if r < 0.46:
            yield _with_earlier_run(rng, _rand_single(rng))
        elif r < 0.64:
            yield _with_earlier_run(rng, _rand_multi(rng))
        elif r < 0.76:
            yield _rand_filter(rng)
        elif r < 0.86:
            yield _rand_combine(rng)
        else:
            yield _rand_kernel(rng)


def _with_earlier_run(rng, case):
    """In 25% of the random model cases the call under test is not the first thing that happened at these paths: an
    earlier run of the kernel had left other traces there and a model call on them was refused (see
    _refused_call_first).  The value is the seed the earlier traces are derived from."""
    if rng.random() < 0.25:
        case["earlier"] = rng.randrange(1 << 30)
    return case


def _growth_strings(length, k):
    """all sequences over <= k symbols whose first occurrences come in the order 0, 1, 2, ...
    (line names are interchangeable, so these are all access sequences up to renaming)"""
    def rec(prefix, used):
        if len(prefix) == length:
            yield tuple(prefix)
            return
        for sym in range(min(used + 1, k)):
            prefix.append(sym)
            yield from rec(prefix, max(used, sym + 1))
            prefix.pop()
    yield from rec([], 0)


def _rows_from_symbols(seq, stamps, epl, shape, salt):
    """symbols (line, kind) with kind r / w / rw (same element read then written) / s (write to staging)."""
    reads, writes = [], []
    for j, ((line, kind), st) in enumerate(zip(seq, stamps)):
        pos = line * epl + (j + salt) % epl
        coords = [0] * (len(st) - 1) + [pos]
        if kind in ("r", "rw"):
            reads.append(list(st) + coords + [pos])
        if kind in ("w", "rw"):
            writes.append(list(st) + coords + [pos])
        if kind == "s":
            sp = shape + line * epl + (j + salt) % epl
            writes.append(list(st) + coords[:-1] + [sp, sp])
    return reads, writes


def _sys_cache_case(seq, epl, capform=0):
    stamps = [(i,) for i in range(len(seq))]
    shape = 8 * epl
    reads, writes = _rows_from_symbols(seq, stamps, epl, shape, 0)
    has_w = any(k != "r" for _, k in seq)
    has_r = any(k in ("r", "rw") for _, k in seq)
    return {"kind": "model", "sys": "cache", "order": ["K"], "tensors": {"A": {"ranks": ["K"], "shape": [shape]}},
            "bindings": [{"tensor": "A", "rank": "K", "type": "payload", "bits": 32, "n": 1,
                          "reads": reads if has_r else None, "writes": writes if has_w else None}],
            "line_sz": 32 * epl, "buffet": None,
            "cache": {"caps": [0, 1, 2, 3, None]}, "perm": None, "rename": None, "capform": capform}


def _sys_buffet_case(seq, breaks, epl, capform=0):
    stamps, m, k = [], 0, 0
    for j in range(len(seq)):
        if j and breaks[j - 1]:
            m, k = m + 1, 0
        stamps.append((m, k))
        k += 1
    shape = 2 * epl
    reads, writes = _rows_from_symbols(seq, stamps, epl, shape, 1)
    has_w = any(k != "r" for _, k in seq)
    has_r = any(k in ("r", "rw") for _, k in seq)
    return {"kind": "model", "sys": "buffet", "order": ["M", "K"],
            "tensors": {"A": {"ranks": ["K"], "shape": [shape]}},
            "bindings": [{"tensor": "A", "rank": "K", "type": "payload", "bits": 32, "n": 2,
                          "reads": reads if has_r else None, "writes": writes if has_w else None}],
            "line_sz": 32 * epl, "buffet": {"evict": [["root"], ["M"]], "caps": [[0], [None], [1]][len(seq) % 3]},
            "cache": None, "perm": None, "rename": None, "capform": capform}


# coordinate / position / stamp values deliberately straddle the 1-, 2- and 3-digit boundaries: the models
# read their inputs from text files
POOL = [0, 1, 2, 3, 5, 8, 9, 10, 11, 12, 19, 20, 25, 99, 100, 101, 120]


def _gen_stamps(rng, n, count, p_inner):
    stamp, out = [rng.choice([0, 0, 0, 7, 97]) for _ in range(n)], []
    for t in range(count):
        if t:
            lvl = n - 1
            while lvl > 0 and rng.random() > p_inner:
                lvl -= 1
            stamp[lvl] += rng.choice([1, 1, 1, 2])
            for j in range(lvl + 1, n):
                stamp[j] = rng.choice([0, 0, 1])
        out.append(tuple(stamp))
    return out


def _lines_alike_as_text(rng, nparts, epl):
    """A line is a TUPLE (coordinate of every enclosing rank of the tensor ..., first position of the line); the
    models read those numbers from text.  -> 2-4 distinct tuples of `nparts` numbers whose decimal digits, written
    one after the other, give the same string (e.g. (1, 12) / (11, 2); (1, 11, 20) / (11, 1, 20) / (1, 1, 120)),
    the last number of each being a line start; None when the draw found none."""
    for _ in range(60):
        ln = nparts + rng.randint(1, 3)
        s = rng.choice("123") + "".join(rng.choice("0011122458") for _ in range(ln - 1))
        found = []
        for cuts in itertools.combinations(range(1, ln), nparts - 1):
            parts = [s[a:b] for a, b in zip((0,) + cuts, cuts + (ln,))]
            if any(len(p) > 1 and p[0] == "0" for p in parts):
                continue
            vals = tuple(int(p) for p in parts)
            if vals[-1] % epl == 0:
                found.append(vals)
        if len(found) >= 2:
            rng.shuffle(found)
            return found[:rng.randint(2, 4)]
    return None


def _gen_binding_rows(rng, n, count, epl, nlines, shape, mode, ncoord, diff_rw=False, staging=0.0, alike=None):
    """mode: r / w / rw.  Returns (reads|None, writes|None).
    alike = {"levels": loop levels that are ranks of the tensor, "lines": tuples from _lines_alike_as_text}: the
    coordinates of those levels and the positions are drawn so that most accesses go to those lines."""
    stamps = _gen_stamps(rng, n, count, rng.choice([0.5, 0.75, 0.9]))
    cmap = {}
    reads, writes = [], []
    alphabet = rng.sample(POOL, ncoord) if rng.random() < 0.5 else list(range(ncoord))
    lo = max(0, shape - epl * nlines)
    per_level, starts = {}, []
    if alike:
        for idx, lvl in enumerate(alike["levels"]):
            per_level[lvl] = sorted({t[idx] for t in alike["lines"]})
        starts = sorted({t[-1] for t in alike["lines"]})
    for st in stamps:
        coords = [cmap.setdefault((lvl, st[:lvl + 1]), rng.choice(per_level.get(lvl, alphabet))) for lvl in range(n - 1)]
        pos = rng.randrange(lo, max(lo + 1, shape))
        if alike:
            fiber = tuple(coords[lvl] for lvl in alike["levels"])
            here = [t[-1] for t in alike["lines"] if t[:-1] == fiber]
            start = rng.choice(here) if here and rng.random() < 0.85 else rng.choice(starts)
            pos = min(start + rng.randrange(epl), shape - 1)
        if mode == "r":
            kind = "r"
        elif mode == "w":
            kind = "w"
        else:
            kind = rng.choice(["r", "r", "w", "rw", "rw"])
        if kind in ("r", "rw"):
            rpos = pos
            if staging and mode == "rw" and rng.random() < staging / 2:
                rpos = shape + rng.randrange(epl * 2)       # populate's shift phase reads the staging area back
            reads.append(list(st) + coords + [rpos, rpos])
        if kind in ("w", "rw"):
            wpos = pos
            if kind == "rw" and diff_rw and rng.random() < 0.4:
                wpos = rng.randrange(lo, max(lo + 1, shape))
            if staging and rng.random() < staging:
                wpos = shape + rng.randrange(epl * 2)
            writes.append(list(st) + coords + [wpos, wpos])
    return (reads if mode in ("r", "rw") else None), (writes if mode in ("w", "rw") else None)


def _pick_type(rng):
    return rng.choice(["payload", "payload", "coord", "elem"])


def _pick_line(rng, bits):
    epl = rng.choice([1, 1, 2, 2, 4])
    pad = rng.choice([0, 0, 0, bits // 2]) if bits > 1 else 0
    return epl, bits * epl + pad


def _gen_extras(rng, xorder, tensors, bindings, line_sz):
    """Entries of the trace dictionary that no binding of the call names (the trace dictionary of a whole kernel
    is handed to every buffer level, each level binds a few of its entries): the other type of a bound rank,
    another rank of a bound tensor, a tensor that is not bound at all.  `xorder` is the loop order the unbound
    traces are taken from (it may go deeper than any binding).  Adds the unbound tensor to `tensors`."""
    bound = {(b["tensor"], b["rank"], b["type"]) for b in bindings}
    cands = []
    for t, d in tensors.items():
        for r in d["ranks"]:
            types = {k[2] for k in bound if k[:2] == (t, r)}
            if not types:
                cands.append((t, r, rng.choice(["payload", "coord", "elem"])))
            elif "elem" not in types and len(types) < 2:
                cands.append((t, r, "coord" if "payload" in types else "payload"))
    xname = next(nm for nm in ["X", "Y", "W"] if nm not in tensors)
    j = rng.randrange(len(xorder))
    xranks = [r for r in xorder[:j] if rng.random() < 0.5] + [xorder[j]]
    tensors[xname] = {"ranks": xranks, "shape": [rng.randint(2, 9) for _ in xranks[:-1]] + [rng.choice([3, 8, 17])]}
    cands += [(xname, r, rng.choice(["payload", "coord", "elem"])) for r in xranks if rng.random() < 0.7 or r == xranks[-1]]
    rng.shuffle(cands)
    widths = [w for w in (8, 16, 32, 64) if w <= line_sz]
    out = []
    for t, r, ty in cands[:rng.choice([1, 1, 2, 3])]:
        n = xorder.index(r) + 1
        bits = rng.choice(widths)
        epl = line_sz // bits
        d = tensors[t]
        shape = d["shape"][d["ranks"].index(r)]
        reads, writes = _gen_binding_rows(rng, n, rng.randint(0, 10), epl, rng.randint(1, 3), shape,
                                          rng.choice(["r", "r", "rw", "w"]), rng.randint(1, 3))
        out.append({"tensor": t, "rank": r, "type": ty, "bits": bits, "n": n, "reads": reads, "writes": writes,
                    "order": list(xorder[:n])})
    if not any(x["tensor"] == xname for x in out):
        del tensors[xname]
    return out


def _rand_single(rng):
    n = rng.randint(1, 3)
    order = RANKS[:n] if rng.random() < 0.7 else rng.sample(["I", "J", "K", "M", "N", "P", "Q"], n)
    upper = [r for r in order[:-1] if rng.random() < 0.6]
    bits = rng.choice([8, 16, 32, 64])
    epl, line_sz = _pick_line(rng, bits)
    nlines = rng.randint(1, 5)
    mode = rng.choice(["r", "r", "rw", "rw", "w"])
    shape = rng.choice([0, 0, 0, 8, 96, 999]) + epl * nlines + rng.choice([0, 0, 1]) * rng.randrange(epl)
    count = rng.choice([rng.randint(0, 12), rng.randint(5, 40), rng.randint(20, 120)])
    flavour = rng.choice(["exact", "exact", "exact", "staging", "shift"]) if mode != "r" else "exact"
    alike = None
    if n >= 2 and rng.random() < 0.25:
        # a tensor with enclosing ranks whose lines (tuples) are distinct but read alike when written as text
        up2 = upper or [rng.choice(order[:-1])]
        lines = _lines_alike_as_text(rng, len(up2) + 1, epl)
        if lines:
            upper, flavour = up2, "exact"
            alike = {"levels": [order.index(r) for r in upper], "lines": lines}
            shape = max(t[-1] for t in lines) + epl + rng.choice([0, 0, 8])
            count = rng.choice([rng.randint(4, 12), rng.randint(8, 40), rng.randint(20, 80)])
    tranks = upper + [order[-1]]
    reads, writes = _gen_binding_rows(rng, n, count, epl, nlines, shape, mode, rng.randint(1, 3),
                                      diff_rw=(flavour == "shift"),
                                      staging=(rng.choice([0.15, 0.4]) if flavour in ("staging", "shift") else 0.0),
                                      alike=alike)
    rename = None
    tshape = [rng.randint(2, 9) for _ in upper] + [shape]
    if rng.random() < 0.12:
        rename = {r.lower() + "0": r for r in tranks}
    caps = sorted(set([0, 1, 2, 3, 5] if rng.random() < 0.6 else rng.sample(range(0, 7), 3)))
    tensors = {"A": {"ranks": tranks, "shape": tshape}}
    bindings = [{"tensor": "A", "rank": order[-1], "type": _pick_type(rng), "bits": bits, "n": n,
                 "reads": reads, "writes": writes}]
    extras = []
    if rng.random() < 0.4:
        deeper = [rng.choice([r for r in ["I", "J", "K", "M", "N", "P", "Q"] if r not in order])] if n < 3 else []
        extras = _gen_extras(rng, order + (deeper if rng.random() < 0.5 else []), tensors, bindings, line_sz)
    return {"kind": "model", "order": order,
            "tensors": tensors, "bindings": bindings, "extras": extras, "capform": rng.randrange(60),
            "line_sz": line_sz,
            "buffet": {"evict": [[e] for e in ["root"] + order[:-1]], "caps": [rng.choice([0, 1, 3]), None]},
            "cache": {"caps": caps + [None], "frac": rng.choice([0, 0, 1])},
            "perm": rng.randrange(1 << 30) if epl > 1 and rng.random() < 0.6 else None, "rename": rename}


def _rand_multi(rng):
    n = rng.randint(2, 3)
    order = RANKS[:n]
    nb = rng.randint(2, 3)
    # element widths: one for all bindings, or one per binding (several elements-per-line values in one call)
    if rng.random() < 0.35:
        widths = [rng.choice([16, 32])] * nb
    else:
        widths = [rng.choice([8, 16, 32, 64]) for _ in range(nb)]
    _, line_sz = _pick_line(rng, max(widths))
    tensors, bindings, used = {}, [], set()
    names = ["A", "B"] if rng.random() < 0.6 else ["A"]
    distinct_ranks = rng.random() < 0.6
    need_upper = set()
    positions = list(range(n))
    rng.shuffle(positions)
    for b in range(nb):
        for _ in range(20):
            t = rng.choice(names)
            j = positions[b % n] if distinct_ranks and b < n else rng.randrange(n)
            ty = rng.choice(["payload", "coord"])
            if (t, j, ty) not in used and not (distinct_ranks and any(u[1] == j for u in used)):
                break
        else:
            continue
        used.add((t, j, ty))
        bits = widths[b]
        epl = line_sz // bits
        twin = next((p for p in bindings if p["tensor"] == t and p["rank"] == order[j] and p["reads"]), None)
        if twin is not None and rng.random() < 0.6:
            # the coordinates and the payloads of one rank walked together: one trace drives both bindings (same
            # stamps, same positions; with different element widths the two line streams still differ)
            shape, reads, writes = twin["_shape"], [list(r) for r in twin["reads"]], None
        else:
            nlines = rng.randint(1, 4)
            mode = rng.choice(["r", "r", "rw", "w"])
            shape = rng.choice([0, 0, 8, 96]) + epl * nlines
            alike = None
            if j >= 1 and rng.random() < 0.2:
                # lines that are distinct tuples but read alike as text (the tensor then has these enclosing ranks)
                levels = sorted(rng.sample(range(j), rng.randint(1, j)))
                lines = _lines_alike_as_text(rng, len(levels) + 1, epl)
                if lines:
                    alike = {"levels": levels, "lines": lines}
                    need_upper |= {(t, order[lvl]) for lvl in levels}
                    shape = max(x[-1] for x in lines) + epl
            reads, writes = _gen_binding_rows(rng, j + 1, rng.randint(1, 30), epl, nlines, shape, mode, rng.randint(1, 3),
                                              staging=(rng.choice([0, 0.3]) if mode != "r" and not alike else 0.0),
                                              alike=alike)
        bindings.append({"tensor": t, "rank": order[j], "type": ty, "bits": bits, "n": j + 1,
                         "reads": reads, "writes": writes, "_shape": shape})
    for t in names:
        mine = [b for b in bindings if b["tensor"] == t]
        if not mine:
            continue
        need = {b["rank"] for b in mine} | {r for (tt, r) in need_upper if tt == t}
        tr = [r for r in order if r in need or rng.random() < 0.5]
        tensors[t] = {"ranks": tr, "shape": [max([b["_shape"] for b in mine if b["rank"] == r] or [rng.randint(2, 9)])
                                              for r in tr]}
    for b in bindings:
        # rows were generated against the binding's own extent; the tensor's extent of a rank is the largest
        # among the bindings sharing it (the oracle classifies rows against the tensor's extent)
        b.pop("_shape")
    deepest = max(order.index(b["rank"]) for b in bindings)
    evicts = []
    for _ in range(2):
        evicts.append([rng.choice(["root"] + order[:order.index(b["rank"])]) for b in bindings])
    # the bindings are a set: every order of listing them (the first one is the order of generation, which is
    # itself unrelated to the loop order)
    listings = [list(p) for p in itertools.permutations(range(len(bindings)))]
    several_epl = len({line_sz // b["bits"] for b in bindings}) > 1
    extras = _gen_extras(rng, RANKS, tensors, bindings, line_sz) if rng.random() < 0.4 else []
    return {"kind": "model", "order": order[:deepest + 1], "tensors": tensors, "bindings": bindings, "line_sz": line_sz,
            "extras": extras, "capform": rng.randrange(60),
            "buffet": {"evict": evicts, "caps": [rng.choice([0, 2]), None]},
            "cache": {"caps": [0, 1, 2, 4, None]}, "listings": listings,
            "perm": rng.randrange(1 << 30) if several_epl and rng.random() < 0.3 else None, "rename": None}


def _inc_points(rng, n, count, vals):
    pts = set()
    for _ in range(count):
        pts.add(tuple(rng.choice(vals) for _ in range(n)))
    return sorted(pts)


def _rand_filter(rng):
    n = rng.randint(1, 3)
    extra = rng.choice([0, 0, 1, 2]) if n < 3 else 0
    extra = min(extra, 3 - n)
    ext = rng.choice([2, 3, 4, 6])
    ext = list(range(ext)) if rng.random() < 0.4 else rng.sample(POOL, ext)
    in_pts = _inc_points(rng, n, rng.randint(0, 14), ext)
    if rng.random() < 0.5:
        fil_pts = _inc_points(rng, n + extra, rng.randint(0, 14), ext)
    else:   # mostly a sub-/superset of the input's points
        base = [p for p in in_pts if rng.random() < 0.6] + _inc_points(rng, n, rng.randint(0, 3), ext)
        fil_pts = sorted({p + tuple(rng.choice(ext) for _ in range(extra)) for p in base for _ in range(1 + extra)})
    st_in = _gen_stamps(rng, n, len(in_pts), 0.6)
    st_fil = _gen_stamps(rng, n + extra, len(fil_pts), 0.6)
    in_rows = [list(s) + list(p) + [rng.randrange(9)] for s, p in zip(st_in, in_pts)]
    fil_rows = [list(s) + list(p) + [rng.randrange(9)] for s, p in zip(st_fil, fil_pts)]
    return {"kind": "filter", "in_order": RANKS[:n], "fil_order": RANKS[:n + extra], "in_rows": in_rows,
            "fil_rows": fil_rows}


def _rand_combine(rng):
    n = rng.randint(1, 3)
    which = rng.choice(["both", "both", "both", "read", "write"])
    reads, writes = _gen_binding_rows(rng, n, rng.randint(0, 25), 1, 4, 8, "rw", 3, diff_rw=True)
    if rng.random() < 0.3:      # two independent files with colliding stamps
        r2, _ = _gen_binding_rows(rng, n, rng.randint(0, 15), 1, 4, 8, "r", 3)
        reads = r2
    return {"kind": "combine", "order": RANKS[:n], "reads": reads if which != "write" else None,
            "writes": writes if which != "read" else None}


def _rand_kernel(rng):
    m, k, n = rng.randint(1, 4), rng.randint(2, 6), rng.choice([rng.randint(2, 8), rng.randint(2, 8), rng.randint(9, 12)])
    da, db = rng.choice([0.4, 0.6, 0.8]), rng.choice([0.3, 0.5, 0.8])
    a = [[(rng.randint(1, 3) if rng.random() < da else 0) for _ in range(k)] for _ in range(m)]
    b = [[(rng.randint(1, 3) if rng.random() < db else 0) for _ in range(n)] for _ in range(k)]
    bits = rng.choice([16, 32])
    # element widths of the 1st / 2nd / 3rd binding of a multi-binding run (single-binding runs use the first)
    widths = [bits] * 3 if rng.random() < 0.4 else [bits] + [rng.choice([8, 16, 32, 64]) for _ in range(2)]
    epl, line_sz = _pick_line(rng, max(widths))
    return {"kind": "kernel", "A": a, "B": b, "bits": bits, "widths": widths, "line_sz": line_sz,
            "caps": [0, 1, 2, 3, 5, None], "relist": rng.randrange(1, 6), "capform": rng.randrange(60),
            # which of the model runs are handed the trace dictionary of the whole kernel instead of only the
            # entries they bind
            "whole_dict": [rng.random() < 0.3 for _ in range(6)]}


# ------------------------------------------------------------------------------------------
# raw CSV helpers (the oracle's own reader / writer)
# ------------------------------------------------------------------------------------------
def _header(order):
    return ",".join([r + "_pos" for r in order] + list(order) + ["fiber_pos"])


def _write_trace(path, order, rows):
    with open(path, "w") as fh:
        fh.write(_header(order) + "\n")
        for r in rows:
            fh.write(",".join(str(v) for v in r) + "\n")


def _read_lines(path):
    with open(path) as fh:
        return fh.read().split("\n")


def _parse_trace(path):
    """-> (order, rows) or None when the file holds no header."""
    lines = [ln for ln in _read_lines(path) if ln != ""]
    if not lines:
        return None
    head = lines[0].split(",")
    n = (len(head) - 1) // 2
    order = head[n:2 * n]
    rows = [[int(v) for v in ln.split(",")] for ln in lines[1:]]
    return order, rows


# ------------------------------------------------------------------------------------------
# reference models
# ------------------------------------------------------------------------------------------
def _accesses(b, tensor_loop_ranks, order, epl, stage_from):
    """Merged access list of one binding in processing order.
    Each access: (stamp, is_write, line, write_back, staging)."""
    n = b["n"]
    mask = [r in tensor_loop_ranks for r in order[:n]]
    acc = []
    for is_w, rows in ((0, b["reads"]), (1, b["writes"])):
        for i, r in enumerate(rows or []):
            stamp = tuple(r[:n])
            coords = r[n:2 * n]
            pos = r[2 * n]
            upper = tuple(c for c, keep in zip(coords[:-1], mask[:-1]) if keep)
            staging = stage_from is not None and pos >= stage_from
            acc.append((stamp, is_w, i, (upper, pos // epl), bool(is_w) and not staging, staging))
    acc.sort(key=lambda a: a[:3])
    return [(a[0], a[1], a[3], a[4], a[5]) for a in acc]


def _buffet_model(acc, evict_end):
    first, dirty = {}, set()
    for stamp, is_w, line, wb, _ in acc:
        key = (stamp[:evict_end], line)
        if key not in first:
            first[key] = is_w
        if wb:
            dirty.add(key)
    return sum(1 for v in first.values() if not v), len(dirty)


def _fnu_model(seq, cap):
    """seq: [(owner, line, is_write, write_back)] in processing order; cap in lines.
    -> ({owner: fills}, {owner: write-backs})"""
    nxt, last = [None] * len(seq), {}
    for i in range(len(seq) - 1, -1, -1):
        key = seq[i][:2]
        nxt[i] = last.get(key)
        last[key] = i
    res = {}
    fills, wbs = {}, {}
    for i, (owner, line, is_w, wb) in enumerate(seq):
        key = (owner, line)
        hit = key in res
        if not hit and not is_w:
            fills[owner] = fills.get(owner, 0) + 1
        if nxt[i] is None:                       # never used again: do not keep
            was_dirty = res.pop(key)[0] if hit else False
            if wb or was_dirty:
                wbs[owner] = wbs.get(owner, 0) + 1
            continue
        if hit:
            res[key] = [res[key][0] or wb, nxt[i]]
            continue
        if len(res) < cap:
            res[key] = [wb, nxt[i]]
            continue
        victim = max(res, key=lambda q: res[q][1]) if res else None
        if victim is not None and res[victim][1] > nxt[i]:
            if res.pop(victim)[0]:
                wbs[victim[0]] = wbs.get(victim[0], 0) + 1
            res[key] = [wb, nxt[i]]
        elif wb:                                 # bypass
            wbs[owner] = wbs.get(owner, 0) + 1
    return fills, wbs


def _optimum(lines, cap):
    """Least number of fills of any replacement policy (bypass allowed) on a read-only sequence."""
    ids = {}
    seq = tuple(ids.setdefault(x, len(ids)) for x in lines)
    n = len(seq)

    @lru_cache(maxsize=None)
    def go(i, held):
        if i == n:
            return 0
        cur = seq[i]
        if cur in held:
            return go(i + 1, held)
        best = 1 + go(i + 1, held)
        if cap > 0:
            if len(held) < cap:
                best = min(best, 1 + go(i + 1, held | {cur}))
            else:
                for v in held:
                    best = min(best, 1 + go(i + 1, (held - {v}) | {cur}))
        return best
    return go(0, frozenset())


# ------------------------------------------------------------------------------------------
# running the models
# ------------------------------------------------------------------------------------------
def run_case(case, mon):
    kind = case["kind"]
    tmp = tempfile.mkdtemp(prefix="c17-", dir=TMPROOT)
    try:
        if kind == "model":
            _run_model_case(case, mon, tmp)
        elif kind == "filter":
            _run_filter(case, mon, tmp)
        elif kind == "combine":
            _run_combine(case, mon, tmp)
        elif kind == "kernel":
            _run_kernel(case, mon, tmp)
    finally:
        shutil.rmtree(tmp, ignore_errors=True)


def _spec_for(bindings, tensors, rename):
    """Format spec per tensor from the bindings' element widths."""
    inv = {v: k for k, v in (rename or {}).items()}
    specs = {t: {} for t in tensors}
    for b in bindings:
        rk = inv.get(b["rank"], b["rank"])
        sp = specs[b["tensor"]].setdefault(rk, {})
        if b["type"] == "payload":
            sp["pbits"] = b["bits"]
        elif b["type"] == "coord":
            sp["cbits"] = b["bits"]
        else:
            sp["layout"] = "interleaved"
            sp["cbits"] = b["bits"] // 2
            sp["pbits"] = b["bits"] - b["bits"] // 2
    return specs


def _build_formats(case):
    rename = case.get("rename")
    inv = {v: k for k, v in (rename or {}).items()}
    specs = _spec_for(case["bindings"] + list(case.get("extras") or []), case["tensors"], rename)
    formats = {}
    for t, d in case["tensors"].items():
        ids = [inv.get(r, r) for r in d["ranks"]]
        formats[t] = Format(Tensor(rank_ids=ids, shape=list(d["shape"])), specs[t])
    return formats


def _listing(d):
    return sorted(os.listdir(d))


def _call(mon, which, fn, tmp, keep):
    """Run one library call; -> (ok, result).  Cleans leftovers so that later calls start clean."""
    # what has to be there afterwards: the trace files (leftovers of an earlier, refused call - they carry the names
    # of this call's own temporaries - are temporaries like all others)
    before = [f for f in _listing(tmp) if f in keep]
    try:
        res = fn()
    except BaseException as e:      # noqa - the library asserts / exits on some paths
        if isinstance(e, KeyboardInterrupt):
            raise
        for f in _listing(tmp):
            if f not in keep:
                os.remove(os.path.join(tmp, f))
        return False, e
    after = _listing(tmp)
    mon.count("listing_checked")
    if not mon.check(after == before, f"{which}:temporary-files-left",
                     f"{which} left files behind: {sorted(set(after) - set(before))} "
                     f"(removed inputs: {sorted(set(before) - set(after))})"):
        for f in after:
            if f not in keep:
                os.remove(os.path.join(tmp, f))
    return True, res


def _prepare(case, tmp, files=None):
    """Write the trace files of a model case; -> context used by the drivers and the oracles."""
    order = case["order"]
    rename = case.get("rename")
    inv = {v: k for k, v in (rename or {}).items()}
    formats = _build_formats(case)
    ctx = {"formats": formats, "traces": {}, "owner": {}, "bind": [], "keep": set(), "xtraces": {}, "unbound": set()}
    for i, b in enumerate(case["bindings"]):
        orig_rank = inv.get(b["rank"], b["rank"])
        n = b["n"]
        for acc_name in ("read", "write"):
            rows = b[acc_name + "s"]
            if rows is None:
                continue
            if files is not None:
                path = files[i][acc_name]
            else:
                path = os.path.join(tmp, f"t{i}-{b['rank']}-{acc_name}.csv")
                _write_trace(path, order[:n], rows)
            ctx["traces"][(b["tensor"], orig_rank, b["type"], acc_name)] = path
            ctx["owner"][(b["tensor"], orig_rank, b["type"], acc_name)] = i
            ctx["keep"].add(os.path.basename(path))
        ctx["bind"].append({"tensor": b["tensor"], "rank": orig_rank, "type": b["type"]})
    # entries of the trace dictionary that no binding names
    bound_access = {(k[0], k[3]) for k in ctx["traces"]}
    for i, x in enumerate(case.get("extras") or []):
        orig_rank = inv.get(x["rank"], x["rank"])
        for acc_name in ("read", "write"):
            if x[acc_name + "s"] is None:
                continue
            if x.get("files"):
                path = x["files"][acc_name]
            else:
                path = os.path.join(tmp, f"x{i}-{x['rank']}-{acc_name}.csv")
                _write_trace(path, x["order"], x[acc_name + "s"])
            ctx["xtraces"][(x["tensor"], orig_rank, x["type"], acc_name)] = path
            if (x["tensor"], acc_name) not in bound_access:
                ctx["unbound"].add((x["tensor"], acc_name))
    ctx["keep"] |= set(_listing(tmp))
    return ctx


def _trace_dict(ctx, place, xfirst, dorder=0):
    """The trace dictionary of one call: a mapping (tensor, rank, type, access) -> file.  The order in which a
    mapping's entries are written down is not an input of the statement, so it rotates (`dorder`) over: binding by
    binding in the order of the listing with the read entry before / after the write entry, all write entries
    before all read entries, all read entries before all write entries.  The entries no binding names come before
    or after the bound ones."""
    mode = dorder % 4

    def rank_of(kv):
        own, wr = place[ctx["owner"][kv[0]]], kv[0][3] == "write"
        return ((own, wr), (own, not wr), (not wr, own), (wr, own))[mode]
    bound = sorted(ctx["traces"].items(), key=rank_of)
    extra = list(ctx["xtraces"].items())
    return dict(extra + bound if xfirst else bound + extra)


def _write_entry_first(traces):
    """Does the dictionary list the write trace of some (tensor, rank, type) before its read trace?"""
    keys = list(traces)
    return any(k[3] == "write" and k[:3] + ("read",) in keys[i + 1:] for i, k in enumerate(keys))


def _settle_unbound(mon, which, got, ctx, tag):
    """Entries of the result that belong to traces no binding names: nothing may be charged there (a zero entry
    and no entry at all are both fine).  They are taken out before the oracles look at the bound ones."""
    if not ctx["unbound"]:
        return got
    out = {t: dict(d) for t, d in got.items()}
    for t, access in sorted(ctx["unbound"]):
        v = out.get(t, {}).pop(access, 0)
        mon.check(v == 0, f"{which}:traffic-charged-to-a-trace-no-binding-names{tag}",
                  f"{which} charged {v} bits of {access} traffic to tensor {t}, none of whose {access} traces is bound")
        if t in out and not out[t]:
            del out[t]
    return out


UNBOUNDED_FORMS = ["int-enough", "float-inf", "int-huge", "math-inf", "float-enough"]


def _capacity(mon, cap, line_sz, inf_bits, form, frac=False):
    """-> (capacity value handed to the model, whole lines it holds - None when unbounded).
    `cap` is a number of lines or None (unbounded); `form` picks how that quantity is written down: a finite one
    as int or float bits, an unbounded one as float("inf") / math.inf / an int or float that has room for every
    access of the run / an int beyond any machine word."""
    if cap is None:
        name = UNBOUNDED_FORMS[form % len(UNBOUNDED_FORMS)]
        value = {"int-enough": inf_bits, "float-inf": float("inf"), "int-huge": 10 ** 30 + 7, "math-inf": math.inf,
                 "float-enough": float(inf_bits)}[name]
        mon.count("unbounded_as_float_inf" if name in ("float-inf", "math-inf") else "unbounded_as_finite_number")
        if isinstance(value, float):
            mon.count("float_capacity_calls")
        return value, None
    bits = cap * line_sz + (line_sz // 2 if frac else 0)         # a fraction of a line holds nothing
    if form % 3 == 2:
        mon.count("float_capacity_calls")
        return float(bits), bits // line_sz
    return bits, bits // line_sz


def _binding_facts(case, evict=None):
    """Per binding: epl, own staging threshold (buffet: when a write trace exists and evict-on != rank;
    cache: when a write trace exists), merged accesses."""
    order = case["order"]
    out = []
    for i, b in enumerate(case["bindings"]):
        t = case["tensors"][b["tensor"]]
        epl = case["line_sz"] // b["bits"]
        shape = t["shape"][t["ranks"].index(b["rank"])]
        stage_from = shape if b["writes"] is not None else None
        acc = _accesses(b, set(t["ranks"]), order, epl, stage_from)
        out.append({"epl": epl, "acc": acc, "stage_from": stage_from})
    return out


def _bounds(mon, which, keyfn, case, facts, got, line_sz):
    """one fill per distinct line first read <= fills <= one per read access; same for write-backs."""
    per = {}
    for b, f in zip(case["bindings"], facts):
        d = per.setdefault(b["tensor"], {"rd_lo": 0, "rd_hi": 0, "wr_lo": 0, "wr_hi": 0})
        first = {}
        for _, is_w, line, wb, _ in f["acc"]:
            first.setdefault(line, is_w)
        d["rd_lo"] += sum(1 for v in first.values() if not v)
        d["rd_hi"] += sum(1 for a in f["acc"] if not a[1])
        d["wr_lo"] += len({a[2] for a in f["acc"] if a[3]})
        d["wr_hi"] += sum(1 for a in f["acc"] if a[3])
    ok = True
    for t, d in per.items():
        for access, lo, hi in (("read", d["rd_lo"], d["rd_hi"]), ("write", d["wr_lo"], d["wr_hi"])):
            if access not in got.get(t, {}):
                continue
            v = got[t][access]
            kind = "fills" if access == "read" else "writebacks"
            ok &= mon.check(isinstance(v, int) and v % line_sz == 0, keyfn(which, kind, "not-whole-lines"),
                            f"{which} charged {v} bits of {access} traffic to {t}: not a multiple of the line size {line_sz}")
            ok &= mon.check(v >= lo * line_sz, keyfn(which, kind, "below-one-per-distinct-line"),
                            f"{which} charged {v} bits ({access}, tensor {t}); at least {lo} lines x {line_sz} are implied")
            ok &= mon.check(v <= hi * line_sz, keyfn(which, kind, "above-one-per-access"),
                            f"{which} charged {v} bits ({access}, tensor {t}); at most {hi} accesses x {line_sz} are possible")
    return ok


def _expected_dict(case, per_binding, line_sz):
    """{tensor: {access: bits}} with an entry for every access type that has a trace file."""
    exp = {}
    for b, (fills, wbs) in zip(case["bindings"], per_binding):
        d = exp.setdefault(b["tensor"], {})
        if b["reads"] is not None:
            d["read"] = d.get("read", 0) + fills * line_sz
        if b["writes"] is not None:
            d["write"] = d.get("write", 0) + wbs * line_sz
            # a read charged without a read file cannot happen; a write-only binding has no "read" key
    return exp


def _features(case, facts, listing=None):
    multi = len(case["bindings"]) > 1
    staging = any(a[4] for f in facts for a in f["acc"])
    shift = False
    for f in facts:
        by_stamp = {}
        for stamp, _, line, _, _ in f["acc"]:
            by_stamp.setdefault(stamp, set()).add(line)
        shift = shift or any(len(v) > 1 for v in by_stamp.values())
    ranks = [b["rank"] for b in case["bindings"]]
    same_rank = len(set(ranks)) < len(ranks)
    # the binding listed last among those of the innermost bound rank, and whether a write-traced binding's own
    # extent differs from that binding's (used only to *name* the violation class, never to excuse one)
    order = case["order"]
    place = {i: k for k, i in enumerate(listing)} if listing else {i: i for i in range(len(ranks))}
    last = max(range(len(ranks)), key=lambda i: (order.index(ranks[i]), place[i]))
    ext = []
    for b in case["bindings"]:
        t = case["tensors"][b["tensor"]]
        ext.append(t["shape"][t["ranks"].index(b["rank"])])
    foreign = any(b["writes"] is not None and ext[i] != ext[last] for i, b in enumerate(case["bindings"]))
    return multi, staging, shift, same_rank, foreign


def _unbounded_again(mon, which, fn, bindings, ctx, traces, line_sz, loop_ranks, inf_bits, form, first_bits, first, tmp, tag):
    """Unbounded is unbounded however it is written down: the same run with the unbounded capacity in another
    form (infinite float <-> number with room for every access) must report what the first form did."""
    alt_bits, _ = _capacity(mon, None, line_sz, inf_bits, form)
    ok, res = _call(mon, which, lambda: fn(bindings, ctx["formats"], dict(traces), alt_bits, line_sz, loop_ranks=loop_ranks),
                    tmp, ctx["keep"])
    mon.count("model_calls")
    mon.count("unbounded_form_pairs")
    if not ok:
        mon.violation(f"{which}:raised:{type(res).__name__}:unbounded-capacity-forms-disagree{tag}",
                      f"{which} raised {type(res).__name__}: {res} at capacity {alt_bits!r} bits but returned {first} at "
                      f"capacity {first_bits!r} bits")
        return
    again = (_settle_unbound(mon, which, res[0], ctx, tag), res[1])
    mon.check(again == first, f"{which}:unbounded-capacity-forms-disagree{tag}",
              f"{which} reported {first} at capacity {first_bits!r} bits and {again} at capacity {alt_bits!r} bits; both "
              f"have room for everything")


def _dictionary_order_again(mon, which, fn, bindings, ctx, place, xfirst, dorder, cap_bits, line_sz, loop_ranks, first, tmp, tag):
    """The trace dictionary is a mapping: the same call with the read and the write entries written down the other
    way round (dorder ^ 1) must report what the first one did."""
    alt = _trace_dict(ctx, place, xfirst, dorder ^ 1)
    ok, res = _call(mon, which, lambda: fn(bindings, ctx["formats"], alt, cap_bits, line_sz, loop_ranks=loop_ranks),
                    tmp, ctx["keep"])
    mon.count("model_calls")
    mon.count("dictionary_order_pairs")
    if not ok:
        mon.violation(f"{which}:raised:{type(res).__name__}:depends-on-trace-dictionary-order{tag}",
                      f"{which} raised {type(res).__name__}: {res} with the trace dictionary listed {list(alt)} but "
                      f"returned {first} with the same entries in another order")
        return
    again = (_settle_unbound(mon, which, res[0], ctx, tag), res[1])
    mon.check(again == first, f"{which}:depends-on-trace-dictionary-order{tag}",
              f"{which} reported {first} and, with the same trace dictionary listed {[k[2:] for k in alt]}, {again}")


AFTER_REFUSED = ":first-call-after-a-refused-call-on-an-earlier-trace"


def _refused_call_first(case, ctx, mon, prng, fn, extra, tdn, tmp, line_sz, inf_bits, loop_ranks):
    """History before the call under test: an earlier run of the kernel wrote other (well-formed) traces to the very
    paths of this run, a model call on them was refused because the type of one binding does not fit the layout of
    its rank (not a well-formed binding: nothing about that call is judged, whatever it does; it is handed `tdn`, the
    trace dictionary of the call under test, so whatever it leaves behind is named like that call's own temporaries), then the kernel was
    run again, i.e. the trace files are rewritten with the rows of this case.  Nothing is cleaned up in between.  The
    statement speaks about `given traces`: what the next call charges is a function of the files as they are now.
    -> did the refused call raise and leave files behind?"""
    inv = {v: k for k, v in (case.get("rename") or {}).items()}

    def write(rows_of):
        for i, b in enumerate(case["bindings"]):
            for acc_name in ("read", "write"):
                rows = b[acc_name + "s"]
                if rows is not None:
                    path = ctx["traces"][(b["tensor"], inv.get(b["rank"], b["rank"]), b["type"], acc_name)]
                    _write_trace(path, case["order"][:b["n"]], rows_of(b, rows))

    def earlier(b, rows):
        # the earlier run: some of the iterations, other positions (anywhere in the rank)
        t = case["tensors"][b["tensor"]]
        shape = max(1, t["shape"][t["ranks"].index(b["rank"])])
        out = []
        for r in rows:
            if prng.random() < 0.7:
                pos = prng.randrange(shape)
                out.append(list(r[:2 * b["n"] - 1]) + [pos, pos])
        return out
    write(earlier)
    bindings = [dict(b, **extra) for b in ctx["bind"]]
    j = prng.randrange(len(bindings))
    bindings[j]["type"] = prng.choice(["payload", "coord"]) if bindings[j]["type"] == "elem" else "elem"
    refused = False
    try:
        fn(bindings, ctx["formats"], dict(tdn), inf_bits, line_sz, loop_ranks=loop_ranks)
    except BaseException as e:      # noqa
        if isinstance(e, KeyboardInterrupt):
            raise
        refused = True
    left = [f for f in _listing(tmp) if f not in ctx["keep"]]
    write(lambda b, rows: rows)
    if refused:
        mon.count("refused_calls_on_earlier_traces")
    return refused and bool(left)


def _run_model_case(case, mon, tmp, files=None, tagx=""):
    line_sz = case["line_sz"]
    order = case["order"]
    ctx = _prepare(case, tmp, files)
    facts = _binding_facts(case)
    nb = len(case["bindings"])
    multi = nb > 1
    tag = tagx + (":multi-binding" if multi else "")
    mon.count("staging_writes_seen", sum(1 for f in facts for a in f["acc"] if a[4] and a[1]))
    reuse = any(len({a[2] for a in f["acc"]}) < len(f["acc"]) for f in facts)
    results = []
    total_acc = sum(len(f["acc"]) for f in facts)
    inf_bits = (total_acc + 1) * line_sz
    several_epl = len({f["epl"] for f in facts}) > 1
    if multi and several_epl:
        mon.count("mixed_width_cases")
    capform = case.get("capform", 0)
    if ctx["xtraces"]:
        mon.count("cases_with_unbound_trace_entries")
    # one trace driving several bindings of one rank (the coordinates and the payloads of a fiber are walked together)
    shared = any(p["tensor"] == q["tensor"] and p["rank"] == q["rank"] and p["reads"] and p["reads"] == q["reads"]
                 for k, p in enumerate(case["bindings"]) for q in case["bindings"][k + 1:])
    if shared:
        mon.count("shared_trace_cases")
    rw_bound = any(b["reads"] is not None and b["writes"] is not None for b in case["bindings"])
    # distinct lines (tuples: enclosing coordinates + first position) of one binding whose numbers, written down one
    # after the other, read the same; `alike_reused` = such a line is touched more than once
    alike_as_text = alike_reused = False
    for f in facts:
        by_text, touched = {}, {}
        for a in f["acc"]:
            touched[a[2]] = touched.get(a[2], 0) + 1
        for upper, lno in touched:
            by_text.setdefault("".join(str(c) for c in upper) + str(lno * f["epl"]), []).append((upper, lno))
        for group in by_text.values():
            if len(group) > 1:
                alike_as_text = True
                alike_reused = alike_reused or any(touched[g] > 1 for g in group)
    if alike_as_text:
        mon.count("cases_with_lines_alike_as_text")
    if alike_reused:
        mon.count("cases_with_reused_lines_alike_as_text")
    calls_before = mon.counters["model_calls"]
    # an earlier run of the kernel at the same paths and a refused model call on it precede some of the calls
    hist = [""]
    hrng = None
    if case.get("earlier") is not None and files is None:
        import random
        hrng = random.Random(case["earlier"])

    def history(fn, extra, tdn):
        if _refused_call_first(case, ctx, mon, hrng, fn, extra, tdn, tmp, line_sz, inf_bits, loop_ranks()):
            hist[0] = AFTER_REFUSED
            mon.count("calls_after_a_refused_call_that_left_files")

    def loop_ranks():
        return dict(case["rename"]) if case.get("rename") else None

    # The bindings form a set: the run is repeated with the bindings (and the trace dictionary) listed in every
    # order the case asks for.  Each listing is judged by the same oracles, and must charge what the first did.
    listings = case.get("listings") or [list(range(nb))]
    first_run = {}
    for lno, listing in enumerate(listings):
        _, staging, shift, same_rank, foreign = _features(case, facts, listing)
        ftag = ":bindings-with-different-extents" if foreign else ""

        def keyfn(which, kind, failure, extra=""):
            """violation class = operation + clause + failure kind (+ input class)"""
            if kind == "writebacks" and foreign:
                return f"{which}:writebacks{ftag}{tag}{hist[0]}"
            return f"{which}:{kind}:{failure}{tag}{extra}{hist[0]}"

        place = {i: k for k, i in enumerate(listing)}
        xfirst = (capform + lno) % 2

        def tdict(off):
            """The trace dictionary of a call -> (dictionary, no. of the order its entries are written down in).  The
            order rotates over the cases and over the eviction settings of one case; the runs that are compared with
            each other (capacity sweep, re-listed bindings, other spelling of unbounded, positions moved inside their
            lines) share one order, so that each of those comparisons varies one thing only."""
            d = _trace_dict(ctx, place, xfirst, capform + off)
            if rw_bound and _write_entry_first(d):
                mon.count("write_entry_first_calls")
            return d, capform + off
        out_of_loop_order = any(order.index(case["bindings"][x]["rank"]) > order.index(case["bindings"][y]["rank"])
                                for x, y in zip(listing, listing[1:]))
        if lno:
            mon.count("relisted_runs")
        if several_epl and out_of_loop_order:
            mon.count("mixed_width_out_of_loop_order_runs")
        full = lno == 0

        # ------------------------------------------------------------ buffet
        if case.get("buffet"):
            for eno, evict in enumerate(case["buffet"]["evict"]):
                bindings = [dict(ctx["bind"][i], **{"evict-on": evict[i]}) for i in listing]
                per = []
                for b, f, e in zip(case["bindings"], facts, evict):
                    end = 0 if e == "root" else order.index(e) + 1
                    per.append(_buffet_model(f["acc"], end))
                exp = _expected_dict(case, per, line_sz)
                # buffet traffic does not depend on the capacity: later listings are run at one capacity
                for cap in (case["buffet"]["caps"] if full else case["buffet"]["caps"][-1:]):
                    cj = case["buffet"]["caps"].index(cap)
                    cap_bits, _ = _capacity(mon, cap, line_sz, inf_bits, capform + cj)
                    tdn, dorder = tdict(eno)
                    hist[0] = ""
                    if hrng is not None and full and cj == 0:
                        history(Traffic.buffetTraffic, {"evict-on": "root"}, tdn)
                    ok, res = _call(mon, "buffetTraffic",
                                    lambda: Traffic.buffetTraffic(bindings, ctx["formats"], dict(tdn), cap_bits,
                                                                  line_sz, loop_ranks=loop_ranks()), tmp, ctx["keep"])
                    mon.count("model_calls")
                    mon.count("buffet_calls")
                    if multi:
                        mon.count("multi_binding_calls")
                    if ctx["xtraces"]:
                        mon.count("calls_with_unbound_trace_entries")
                    if not ok:
                        mon.violation(f"buffetTraffic:raised:{type(res).__name__}{ftag}{tag}",
                                      f"buffetTraffic raised {type(res).__name__}: {res} (evict-on {evict}, capacity "
                                      f"{cap_bits!r} bits, bindings listed {listing})")
                        continue
                    got, overflows = res
                    got = _settle_unbound(mon, "buffetTraffic", got, ctx, tag + hist[0])
                    if full:
                        results.append(("buffet", evict, cap, cap_bits, dorder, got))
                        first_run[("buffet", eno, cap)] = got
                    _bounds(mon, "buffetTraffic", keyfn, case, facts, got, line_sz)
                    for t in sorted(set(exp) | set(got)):
                        for access in ("read", "write"):
                            g, x = got.get(t, {}).get(access), exp.get(t, {}).get(access)
                            kind = "fills" if access == "read" else "writebacks"
                            stg = ":staging" if (staging and access == "write") else ""
                            mon.check(g == x, keyfn("buffetTraffic", kind, "count", stg),
                                      f"buffetTraffic evict-on {evict} capacity {cap_bits!r}: tensor {t} {access} = {g} bits, the "
                                      f"window rule gives {x} bits (line {line_sz} bits, bindings listed {listing})")
                    hist[0] = ""
                    if full and rw_bound and capform % 3 == 0 and cap == case["buffet"]["caps"][-1] \
                            and evict is case["buffet"]["evict"][-1]:
                        _dictionary_order_again(mon, "buffetTraffic", Traffic.buffetTraffic, bindings, ctx, place, xfirst,
                                                dorder, cap_bits, line_sz, loop_ranks(), (got, overflows), tmp, tag)
                    if cap is None:
                        mon.check(overflows == 0, f"buffetTraffic:overflow-at-unbounded-capacity{tag}",
                                  f"buffetTraffic reported {overflows} overflows at capacity {cap_bits!r} bits, which has "
                                  f"room for every access")
                        if full and capform % 6 == 0:
                            _unbounded_again(mon, "buffetTraffic", Traffic.buffetTraffic, bindings, ctx, tdn, line_sz,
                                             loop_ranks(), inf_bits, capform + cj + 1, cap_bits, (got, overflows), tmp, tag)
                    ref = first_run.get(("buffet", eno, cap))
                    if not full and ref is not None:
                        mon.count("listing_order_checked")
                        mon.check(got == ref, f"buffetTraffic:depends-on-binding-listing-order{tag}",
                                  f"buffetTraffic evict-on {evict} capacity {cap}: {ref} with the bindings listed "
                                  f"{listings[0]}, {got} with the same bindings listed {listing}")

        # ------------------------------------------------------------ cache
        if case.get("cache"):
            bindings = [dict(ctx["bind"][i]) for i in listing]
            # processing order over all bindings: stamp padded with -1, then rank position / listing order
            pos_of = sorted(range(nb), key=lambda i: (order.index(case["bindings"][i]["rank"]), place[i]))
            seq = []
            for slot, i in enumerate(pos_of):
                for k, (stamp, is_w, line, wb, _) in enumerate(facts[i]["acc"]):
                    pad = tuple(stamp) + (-1,) * (len(order) - len(stamp))
                    seq.append((pad, slot, k, (i, line, is_w, wb)))
            seq.sort(key=lambda s: s[:3])
            seq = [s[3] for s in seq]
            exact = not staging and not shift and not foreign
            read_only = all(b["writes"] is None for b in case["bindings"])
            prev = None
            caps = case["cache"]["caps"]
            if not full:        # later listings: two of the capacities
                pick = sorted({lno % len(caps), (lno + 2) % len(caps)})
                caps = [caps[j] for j in pick]
            for cap in caps:
                cj = case["cache"]["caps"].index(cap)
                cap_bits, cap_lines = _capacity(mon, cap, line_sz, inf_bits, capform + cj, frac=case["cache"].get("frac"))
                if cap_lines is None:
                    cap_lines = inf_bits // line_sz         # room for every access of the run
                tdn, dorder = tdict(0)
                hist[0] = ""
                if hrng is not None and full and cj in (0, 2):
                    history(Traffic.cacheTraffic, {}, tdn)
                ok, res = _call(mon, "cacheTraffic",
                                lambda: Traffic.cacheTraffic(bindings, ctx["formats"], dict(tdn), cap_bits,
                                                             line_sz, loop_ranks=loop_ranks()), tmp, ctx["keep"])
                mon.count("model_calls")
                mon.count("cache_calls")
                if multi:
                    mon.count("multi_binding_calls")
                if ctx["xtraces"]:
                    mon.count("calls_with_unbound_trace_entries")
                if not ok:
                    # input class of the failing run (first that applies), so that one mechanism is one key
                    if foreign:
                        cls = ftag
                    elif shift:
                        cls = ":rw-rows-of-different-lines-share-a-stamp"
                    elif staging and multi:
                        cls = ":staging-lines-beside-another-binding"
                    else:
                        cls = tag
                    mon.violation(f"cacheTraffic:raised:{type(res).__name__}{cls}",
                                  f"cacheTraffic raised {type(res).__name__}: {res} (capacity {cap_bits!r} bits = "
                                  f"{cap_lines} lines, bindings listed {listing})")
                    prev = None
                    hist[0] = ""
                    continue
                got, overflows = res
                got = _settle_unbound(mon, "cacheTraffic", got, ctx, tag + hist[0])
                if full:
                    results.append(("cache", cap_lines if cap is not None else None, cap_bits, dorder, got))
                    first_run[("cache", cap)] = got
                _bounds(mon, "cacheTraffic", keyfn, case, facts, got, line_sz)
                if exact:
                    fills, wbs = _fnu_model(seq, cap_lines)
                    per = [(fills.get(i, 0), wbs.get(i, 0)) for i in range(nb)]
                    exp = _expected_dict(case, per, line_sz)
                    mon.count("fnu_checked")
                    if same_rank:
                        mon.count("same_rank_fnu_checked")
                    for t in sorted(set(exp) | set(got)):
                        for access in ("read", "write"):
                            g, x = got.get(t, {}).get(access), exp.get(t, {}).get(access)
                            kind = "fills" if access == "read" else "writebacks"
                            mon.check(g == x, keyfn("cacheTraffic", kind, "differs-from-furthest-next-use"),
                                      f"cacheTraffic capacity {cap_bits!r} bits = {cap_lines} lines: tensor {t} {access} = {g} bits, "
                                      f"furthest-next-use with bypass gives {x} bits (line {line_sz} bits, bindings "
                                      f"listed {listing})")
                if read_only and not shift and len(seq) <= 12 and len({s[:2] for s in seq}) <= 5:
                    best = _optimum([s[:2] for s in seq], cap_lines)
                    total = sum(d.get("read", 0) for d in got.values())
                    mon.count("optimum_checked")
                    if same_rank:
                        mon.count("same_rank_optimum_checked")
                    mon.check(total == best * line_sz, f"cacheTraffic:fills:not-optimal{tag}{hist[0]}",
                              f"cacheTraffic capacity {cap_bits!r} bits = {cap_lines} lines charged {total} bits of fills; the optimum over all "
                              f"replacement decisions is {best} fills x {line_sz} (bindings listed {listing})")
                hist[0] = ""
                if full and rw_bound and capform % 3 == 0 and cj == 1:
                    _dictionary_order_again(mon, "cacheTraffic", Traffic.cacheTraffic, bindings, ctx, place, xfirst,
                                            dorder, cap_bits, line_sz, loop_ranks(), (got, overflows), tmp, tag)
                if cap is None:
                    mon.check(overflows == 0, f"cacheTraffic:overflow-at-unbounded-capacity{tag}",
                              f"cacheTraffic reported {overflows} overflows at capacity {cap_bits!r} bits, which has room "
                              f"for every line")
                    if full and capform % 6 == 0:
                        _unbounded_again(mon, "cacheTraffic", Traffic.cacheTraffic, bindings, ctx, tdn, line_sz,
                                         loop_ranks(), inf_bits, capform + cj + 1, cap_bits, (got, overflows), tmp, tag)
                if prev is not None and not staging and not shift and not foreign:
                    for t in got:
                        if "read" in got[t] and "read" in prev[1].get(t, {}):
                            mon.check(got[t]["read"] <= prev[1][t]["read"], f"cacheTraffic:fills:increase-with-capacity{tag}",
                                      f"cacheTraffic: tensor {t} fills rose from {prev[1][t]['read']} to {got[t]['read']} bits "
                                      f"when capacity grew from {prev[0]} to {cap_lines} lines ({prev[2]!r} to {cap_bits!r} bits)")
                prev = (cap_lines, got, cap_bits)
                # bindings on different loop ranks are processed in an order the listing has no say in
                ref = first_run.get(("cache", cap))
                if not full and ref is not None and not same_rank:
                    mon.count("listing_order_checked")
                    mon.check(got == ref, f"cacheTraffic:depends-on-binding-listing-order{tag}",
                              f"cacheTraffic capacity {cap_lines} lines: {ref} with the bindings listed {listings[0]}, "
                              f"{got} with the same bindings listed {listing}")

    # ---------------------------------------------------------------- positions inside a line do not matter
    if case.get("perm") is not None and results:
        import random
        prng = random.Random(case["perm"])
        moved = dict(case, perm=None, bindings=[])
        for b, f in zip(case["bindings"], facts):
            epl, sf = f["epl"], f["stage_from"]
            nb = dict(b)
            for name in ("reads", "writes"):
                if b[name] is None:
                    continue
                rows = []
                for r in b[name]:
                    pos = r[2 * b["n"]]
                    base = pos // epl * epl
                    cands = [p for p in range(base, base + epl) if sf is None or (p >= sf) == (pos >= sf)]
                    r2 = list(r)
                    r2[2 * b["n"]] = prng.choice(cands)
                    rows.append(r2)
                nb[name] = rows
            moved["bindings"].append(nb)
        sub = tempfile.mkdtemp(prefix="c17p-", dir=TMPROOT)
        try:
            ctx2 = _prepare(moved, sub)
            ident = {i: i for i in range(len(moved["bindings"]))}
            k = 0
            for r in results:
                if r[0] == "buffet":
                    bindings = [dict(b, **{"evict-on": e}) for b, e in zip(ctx2["bind"], r[1])]
                    cap_bits = r[3]
                    ok, res = _call(mon, "buffetTraffic",
                                    lambda: Traffic.buffetTraffic(bindings, ctx2["formats"], _trace_dict(ctx2, ident, k % 2, r[-2]),
                                                                  cap_bits, line_sz, loop_ranks=loop_ranks()),
                                    sub, ctx2["keep"])
                else:
                    if k % 2:       # every other capacity is enough here
                        k += 1
                        continue
                    k += 1
                    cap_bits = r[2]
                    ok, res = _call(mon, "cacheTraffic",
                                    lambda: Traffic.cacheTraffic([dict(b) for b in ctx2["bind"]], ctx2["formats"],
                                                                 _trace_dict(ctx2, ident, k % 2, r[-2]), cap_bits, line_sz,
                                                                 loop_ranks=loop_ranks()), sub, ctx2["keep"])
                mon.count("model_calls")
                mon.count("lineperm_checked")
                which = "buffetTraffic" if r[0] == "buffet" else "cacheTraffic"
                if not ok:
                    mon.violation(f"{which}:raised:{type(res).__name__}{tag}", f"{which} raised {res!r} after positions "
                                  "were moved inside their lines")
                    continue
                moved_got = _settle_unbound(mon, which, res[0], ctx2, tag)
                mon.check(moved_got == r[-1], f"{which}:depends-on-position-inside-line{tag}",
                          f"{which} ({r[1:-1]}): traffic {r[-1]} became {moved_got} after moving positions inside their lines")
        finally:
            shutil.rmtree(sub, ignore_errors=True)

    if alike_reused:
        mon.count("calls_on_reused_lines_alike_as_text", mon.counters["model_calls"] - calls_before)
    if reuse:
        mon.nontrivial()
    mon.state(("model", [list(map(str, r)) for r in results][:12]))


# ------------------------------------------------------------------------------------------
# filterTrace / _combineTraces
# ------------------------------------------------------------------------------------------
def _check_filter(mon, tmp, in_fn, fil_fn, tag):
    """Oracle on the raw text of the two files."""
    src = [ln for ln in _read_lines(in_fn) if ln != ""]
    fil = [ln for ln in _read_lines(fil_fn) if ln != ""]
    n = (len(src[0].split(",")) - 1) // 2
    nf = (len(fil[0].split(",")) - 1) // 2
    points = {tuple(ln.split(",")[nf:nf + n]) for ln in fil[1:]}
    exp = [src[0]] + [ln for ln in src[1:] if tuple(ln.split(",")[n:2 * n]) in points]
    out_fn = os.path.join(tmp, "filtered.csv")
    keep = set(_listing(tmp))
    before = _listing(tmp)
    mon.count("filter_calls")
    try:
        Traffic.filterTrace(in_fn, fil_fn, out_fn)
    except BaseException as e:      # noqa
        if isinstance(e, KeyboardInterrupt):
            raise
        mon.violation(f"filterTrace:raised:{type(e).__name__}{tag}", f"filterTrace raised {type(e).__name__}: {e}")
        return
    after = _listing(tmp)
    mon.check(after == sorted(before + ["filtered.csv"]), f"filterTrace:temporary-files-left{tag}",
              f"filterTrace changed the directory from {before} to {after}")
    with open(out_fn) as fh:
        text = fh.read()
    got = text.split("\n")
    mon.check(text == "" or text.endswith("\n"), f"filterTrace:output-not-line-terminated{tag}",
              "filterTrace output does not end with a newline")
    got = [ln for ln in got if ln != ""]
    if got[:1] != exp[:1]:
        mon.check(False, f"filterTrace:header{tag}", f"filterTrace header {got[:1]} expected {exp[:1]}")
    elif not mon.check(got == exp, f"filterTrace:rows{tag}",
                       f"filterTrace kept {len(got) - 1} rows, expected {len(exp) - 1}: "
                       f"missing {[x for x in exp if x not in got][:4]} extra {[x for x in got if x not in exp][:4]}"
                       f"{'' if sorted(got) != sorted(exp) else ' (order differs)'}"):
        pass
    for f in after:
        if f not in keep:
            os.remove(os.path.join(tmp, f))
    if 1 < len(exp) < len(src):
        mon.nontrivial()
    mon.state(("filter", len(src) - 1, len(exp) - 1))


def _run_filter(case, mon, tmp):
    in_fn, fil_fn = os.path.join(tmp, "in.csv"), os.path.join(tmp, "fil.csv")
    _write_trace(in_fn, case["in_order"], case["in_rows"])
    _write_trace(fil_fn, case["fil_order"], case["fil_rows"])
    _check_filter(mon, tmp, in_fn, fil_fn, "")


def _check_combine(mon, tmp, read_fn, write_fn, tag):
    heads, items = [], []
    for is_w, fn in ((0, read_fn), (1, write_fn)):
        if fn is None:
            continue
        lines = [ln for ln in _read_lines(fn) if ln != ""]
        heads.append(lines[0])
        n = len(lines[0].split(",")) // 2
        for i, ln in enumerate(lines[1:]):
            items.append((tuple(int(v) for v in ln.split(",")[:n]), is_w, i, ln))
    items.sort(key=lambda it: it[:3])
    exp = [heads[-1] + ",is_write"] + [ln + (",True" if w else ",False") for _, w, _, ln in items]
    out_fn = os.path.join(tmp, "combined.csv")
    before = _listing(tmp)
    mon.count("combine_calls")
    try:
        Traffic._combineTraces(read_fn=read_fn, write_fn=write_fn, comb_fn=out_fn)
    except BaseException as e:      # noqa
        if isinstance(e, KeyboardInterrupt):
            raise
        mon.violation(f"_combineTraces:raised:{type(e).__name__}{tag}", f"_combineTraces raised {type(e).__name__}: {e}")
        return
    after = _listing(tmp)
    mon.check(after == sorted(before + ["combined.csv"]), f"_combineTraces:temporary-files-left{tag}",
              f"_combineTraces changed the directory from {before} to {after}")
    got = [ln for ln in _read_lines(out_fn) if ln != ""]
    os.remove(out_fn)
    if not mon.check(got[:1] == exp[:1], f"_combineTraces:header{tag}", f"combined header {got[:1]} expected {exp[:1]}"):
        return
    if not mon.check(sorted(got) == sorted(exp), f"_combineTraces:rows-lost-or-invented{tag}",
                     f"combined trace holds {len(got) - 1} rows, inputs hold {len(exp) - 1}; "
                     f"missing {[x for x in exp if x not in got][:3]} extra {[x for x in got if x not in exp][:3]}"):
        return
    if got != exp:
        j = next(i for i, (a, b) in enumerate(zip(got, exp)) if a != b)
        ties = len({it[0] for it in items}) < len(items)
        mon.check(False, f"_combineTraces:not-a-stable-merge-by-stamp{tag}",
                  f"combined trace differs from the stable merge at row {j}: got {got[j]!r} expected {exp[j]!r}"
                  f"{' (stamps shared by a read and a write row exist)' if ties else ''}")
    else:
        mon.count("oracle_evals")
    if read_fn and write_fn and len(items) >= 2 and len({it[1] for it in items}) == 2:
        mon.nontrivial()
    mon.state(("combine", [it[1] for it in items][:40]))


def _run_combine(case, mon, tmp):
    rf = wf = None
    if case["reads"] is not None:
        rf = os.path.join(tmp, "r.csv")
        _write_trace(rf, case["order"], case["reads"])
    if case["writes"] is not None:
        wf = os.path.join(tmp, "w.csv")
        _write_trace(wf, case["order"], case["writes"])
    _check_combine(mon, tmp, rf, wf, "")


# ------------------------------------------------------------------------------------------
# real traces
# ------------------------------------------------------------------------------------------
def _run_kernel(case, mon, tmp):
    a_nest, b_nest = case["A"], case["B"]
    m, k, n = len(a_nest), len(b_nest), len(b_nest[0])
    a_t = Tensor.fromUncompressed(["M", "K"], a_nest, shape=[m, k])
    b_t = Tensor.fromUncompressed(["K", "N"], b_nest, shape=[k, n])
    z_t = Tensor(rank_ids=["M", "N"], shape=[m, n])
    a_m, b_k, z_m = a_t.getRoot(), b_t.getRoot(), z_t.getRoot()
    prefix = os.path.join(tmp, "g")
    kinds = [("M", "populate_1"), ("K", "intersect_0"), ("K", "intersect_1"), ("N", "iter"),
             ("N", "populate_read_0"), ("N", "populate_write_0"), ("N", "populate_1")]
    Metrics.beginCollect(prefix)
    try:
        for rk, ty in kinds:
            Metrics.trace(rk, type_=ty)
        for _, (z_n, a_k) in z_m << a_m:
            for _, (a_val, b_n) in a_k & b_k:
                for _, (z_ref, b_val) in z_n << b_n:
                    z_ref += a_val * b_val
    finally:
        Metrics.endCollect()
    mon.count("kernel_cases")
    parsed = {}
    for rk, ty in kinds:
        fn = f"{prefix}-{rk}-{ty}.csv"
        p = _parse_trace(fn) if os.path.exists(fn) else None
        if p is not None:
            parsed[(rk, ty)] = (fn, p[0], p[1])
    if ("N", "iter") not in parsed:
        mon.count("kernel_degenerate")      # the kernel never reached the innermost rank: no N traces at all
        mon.state(("kernel", "degenerate"))
        return
    bits, line_sz, caps = case["bits"], case["line_sz"], case["caps"]
    order = ["M", "K", "N"]
    tensors = {"A": {"ranks": ["M", "K"], "shape": [m, k]}, "B": {"ranks": ["K", "N"], "shape": [k, n]},
               "Z": {"ranks": ["M", "N"], "shape": [m, n]}}

    widths = case.get("widths") or [bits] * 3

    def binding(t, rk, ty, rd, wr=None):
        nn = order.index(rk) + 1
        return ({"tensor": t, "rank": rk, "type": ty, "bits": None, "n": nn,
                 "reads": parsed[rd][2] if rd else None,
                 "writes": parsed[wr][2] if wr else None},
                {"read": parsed[rd][0] if rd else None, "write": parsed[wr][0] if wr else None})

    # the trace dictionary of the whole kernel: what every tensor's every rank is read / written through
    whole = {("A", "M", "payload"): (("M", "populate_1"), None), ("A", "K", "coord"): (("K", "intersect_0"), None),
             ("A", "K", "payload"): (("K", "intersect_0"), None), ("B", "K", "payload"): (("K", "intersect_1"), None),
             ("B", "N", "payload"): (("N", "populate_1"), None), ("Z", "N", "coord"): (("N", "populate_read_0"), None),
             ("Z", "N", "payload"): (("N", "populate_read_0"), ("N", "populate_write_0"))}
    runs = [0]

    def model(bind_files, buffet_evicts, tagx=""):
        bs = [dict(bf[0], bits=widths[i]) for i, bf in enumerate(bind_files)]
        used = {b["tensor"] for b in bs}
        extras = []
        flags = case.get("whole_dict") or []
        if flags and flags[runs[0] % len(flags)]:
            # this run is handed the whole dictionary although it binds only some of its entries
            named = {(b["tensor"], b["rank"], b["type"]) for b in bs}
            for (t, rk, ty), (rd, wr) in whole.items():
                rd, wr = (rd if rd in parsed else None), (wr if wr in parsed else None)
                if (t, rk, ty) in named or (rd is None and wr is None):
                    continue
                extras.append({"tensor": t, "rank": rk, "type": ty, "bits": bits, "n": order.index(rk) + 1,
                               "reads": parsed[rd][2] if rd else None, "writes": parsed[wr][2] if wr else None,
                               "files": {"read": parsed[rd][0] if rd else None, "write": parsed[wr][0] if wr else None}})
                used.add(t)
            mon.count("kernel_whole_dictionary_runs")
        runs[0] += 1
        listings = [list(range(len(bs)))]
        if len(bs) > 1 and case.get("relist"):
            # one more order of listing the same bindings
            perms = [list(p) for p in itertools.permutations(range(len(bs)))][1:]
            listings.append(perms[case["relist"] % len(perms)])
        sub = {"kind": "model", "order": order[:max(b["n"] for b in bs)],
               "tensors": {t: d for t, d in tensors.items() if t in used}, "bindings": bs, "line_sz": line_sz,
               "buffet": {"evict": buffet_evicts, "caps": [1, None]}, "cache": {"caps": caps}, "perm": None,
               "rename": None, "listings": listings, "extras": extras, "capform": case.get("capform", 0) + runs[0]}
        _run_model_case(sub, mon, tmp, files=[bf[1] for bf in bind_files], tagx=tagx)

    # Z's leaf payloads: reads + writes with insertion shifts and staging positions
    model([binding("Z", "N", "payload", ("N", "populate_read_0"), ("N", "populate_write_0"))],
          [["root"], ["M"], ["K"]])
    # B's leaves and B's K fiber, A's K fiber, A's M fiber: read-only
    model([binding("B", "N", "payload", ("N", "populate_1"))], [["root"], ["M"], ["K"]])
    model([binding("B", "K", "payload", ("K", "intersect_1"))], [["root"], ["M"]])
    model([binding("A", "M", "payload", ("M", "populate_1")), binding("A", "K", "coord", ("K", "intersect_0")),
           binding("B", "N", "payload", ("N", "populate_1"))], [["root", "M", "K"], ["root", "root", "M"]])
    model([binding("A", "K", "coord", ("K", "intersect_0")), binding("A", "K", "payload", ("K", "intersect_0")),
           binding("B", "K", "payload", ("K", "intersect_1"))], [["M", "M", "root"]])
    # Z's leaf coordinates are looked at (read-only), its payloads updated
    model([binding("Z", "N", "coord", ("N", "populate_read_0")),
           binding("Z", "N", "payload", ("N", "populate_read_0"), ("N", "populate_write_0"))], [["M", "K"]])
    # filters: follower filtered by leader; intersection filtered by the innermost loop
    _check_filter(mon, tmp, parsed[("K", "intersect_1")][0], parsed[("K", "intersect_0")][0], ":real-trace")
    _check_filter(mon, tmp, parsed[("K", "intersect_0")][0], parsed[("N", "iter")][0], ":real-trace")
    _check_filter(mon, tmp, parsed[("M", "populate_1")][0], parsed[("N", "iter")][0], ":real-trace")
    _check_combine(mon, tmp, parsed[("N", "populate_read_0")][0], parsed[("N", "populate_write_0")][0], ":real-trace")
    mon.state(("kernel", len(parsed[("N", "iter")][2]), len(parsed[("N", "populate_write_0")][2])))
