"""C07 - every traversal mode enumerates exactly the slice of content it names.

Monitor: definitional oracles computed from the raw coordinate/payload lists (and the reported shape /
active range), compared with the (coord, payload) sequence each traversal actually yields; identity of
delivered payloads; raw tree snapshot before/after (non-Ref traversals change nothing, Ref traversals
insert exactly the visited absent coordinates); valid start_pos shortcuts; lazy fibers re-iterated and
materialised; project / prune.
"""
import itertools

from fibertree import CoordPayload, Fiber, Payload, Tensor

from fvmon import gen
from fvmon.observe import content, snap, unbox, RC, idset

SPEC = {
    "anchors": ["fibertree.core.iterators:__iter__", "fibertree.core.iterators:iterRange", "fibertree.core.iterators:iterRangeShape", "fibertree.core.iterators:iterRangeShapeRef", "fibertree.core.iterators:iterShape", "fibertree.core.iterators:iterActive", "fibertree.core.iterators:coiterRangeShape", "fibertree.core.iterators:coiterRangeShapeRef", "fibertree.core.fiber:Fiber.fromIterator", "fibertree.core.fiber:Fiber.fromLazy", "fibertree.core.fiber:Fiber.project", "fibertree.core.fiber:Fiber.prune"],
    "rule": ("cases = one fiber configuration (3-state occupancy vector over 4 (quick) / 6 (thorough) coordinates, "
             "or random; leaf or interior payloads; free or tensor-owned; format C or U; declared shape / active "
             "range / default; optional negative coordinate offset) x a list of traversals (all 13 modes; for the "
             "range modes every (start, end[, step]) over a window extending past both ends; every valid start_pos; "
             "affine increasing/decreasing projections with intervals; prune predicates; lazy re-iteration and "
             "fromLazy; shape / Ref / dense co-iteration traversals that are obtained and abandoned after k >= 0 "
             "elements; lazy fibers made with Fiber.fromIterator from caller-supplied producer classes of five "
             "state-keeping styles, put through a random sequence of complete / abandoned traversals, len, "
             "fromLazy, project and prune; dense co-iteration of the fiber with 1-2 further operands of the same tree "
             "level (leaf fibers, or upper-level fibers of 2-rank trees whose payloads are sub-fibers; free or "
             "tensor-owned), by a consumer that only reads or that updates in place the scratch value it was handed "
             "for an absent coordinate before asking for the next element, the lazily produced co-iteration fiber "
             "traversed once or twice). Non-trivial = the fiber stores at least one element and at least one traversal yields "
             "at least one element; distinct = distinct case."),
    "shards": {"quick": 16, "thorough": 16},
    "min_counts": {"quick": {"evaluations": 300, "traversals": 4000, "yields_checked": 10000, "ref_traversals": 300,
                             "startpos_traversals": 300, "project_traversals": 200, "lazy_traversals": 100,
                             "partial_traversals": 500, "producer_traversals": 1000, "producer_retraversals": 500,
                             "coiter_traversals": 2000, "coiter_upper_traversals": 400, "coiter_retraversals": 400,
                             "coiter_scratch_writes": 1500}},
    "assumptions": [
        "start_pos is generated only when valid: no element the traversal must yield lies before it, and (as the API asserts) 0 <= start_pos < len(coords)",
        "the domain of shape/active iteration is what getShape()/getActive() report (their correctness is C14's)",
        "decreasing projections are generated for every leaf default and for interior fibers (the reversed view judged emptiness by "
        "default 0 until repository fix 9593640)",
        "prune predicates return True/False only",
        "an abandoned traversal has visited exactly the coordinates it has delivered (k next() calls = k visits; k = 0 means the traversal object was only obtained)",
        "a free upper-level co-iteration operand holds at least one sub-fiber (a free fiber can tell that its default is a fiber only from a payload it stores); empty upper-level operands are tensor-owned",
        "a consumer's in-place update of a scratch value (the object delivered for a coordinate the operand does not have, non-Ref forms) is not expected to reach the operand or any later element; an update of a Ref-form reference is an update of the operand and only the identity of what is stored is compared",
        "a producer class given to Fiber.fromIterator delivers, per instance, its elements once in ascending order as CoordPayloads; it may keep that stream's state on the instance (set up in __init__); the lazy fiber declares a shape or an active range (the library asserts it cannot estimate one)",
    ],
}

MODES_PLAIN = ["iter", "iterOccupancy", "iterActive", "iterShape", "iterActiveShape"]
MODES_REF = ["iterShapeRef", "iterActiveShapeRef"]
MODES_SHAPE = ["iterShape", "iterActiveShape", "iterRangeShape", "iterShapeRef", "iterActiveShapeRef", "iterRangeShapeRef"]
# how a producer class handed to Fiber.fromIterator organises its state; every one of them gives a fresh,
# complete, ascending stream per *instance*, which is all that fromIterator asks of it
PRODUCER_STYLES = ["genfunc", "listiter", "stream", "cursor", "self-iterator"]
PRUNE_FNS = {"even-pos": lambda i, c, q: i % 2 == 0, "odd-coord": lambda i, c, q: c % 2 == 1,
             "first2": lambda i, c, q: i < 2, "all": lambda i, c, q: True, "none": lambda i, c, q: False}


# ------------------------------------------------------------------------------------------
# generation
# ------------------------------------------------------------------------------------------
def _fiber_cfg(rng, spec, interior=False):
    own = rng.choice(["free", "free", "tensor"])
    cfg = {"spec": spec, "default": 0, "own": own, "fmt": "C", "interior": interior, "shape": None, "active": None}
    coords = [c for c, _ in spec]
    top = (max(coords) + 1) if coords else 0
    if interior:
        cfg["own"] = "tensor"
        own = "tensor"
    if own == "tensor":
        cfg["shape"] = max(top, 0) + rng.choice([0, 0, 1, 2])
        cfg["fmt"] = rng.choice(["C", "C", "U"])
        if cfg["shape"] == 0:
            cfg["shape"] = 1
    else:
        if rng.random() < 0.5:
            cfg["shape"] = max(top, 0) + rng.choice([0, 1, 3])
            if cfg["shape"] == 0:
                cfg["shape"] = None
        if rng.random() < 0.35:
            lo = rng.randint(-1, 3)
            cfg["active"] = [lo, lo + rng.randint(0, 5)]
        if rng.random() < 0.25 and not interior:
            cfg["fmt"] = "U"
    if not interior and rng.random() < 0.3:
        cfg["default"] = rng.choice([7, -1])
        cfg["spec"] = [[c, (cfg["default"] if v == 0 else (0 if v == cfg["default"] else v))] for c, v in spec]
    return cfg


def _travs_for(rng, cfg, full):
    spec = cfg["spec"]
    coords = [c for c, _ in spec]
    lo = (min(coords) if coords else 0) - 1
    hi = (max(coords) if coords else 0) + 2
    lo, hi = min(lo, -1), max(hi, 2)
    travs = [[m, {}] for m in MODES_PLAIN + MODES_REF]
    rngs = [(s, e) for s in range(lo, hi + 1) for e in range(lo, hi + 1)]
    if not full:
        rngs = rng.sample(rngs, min(len(rngs), 10))
    for s, e in rngs:
        travs.append(["iterRange", {"s": s, "e": e}])
    travs.append(["iterRange", {"s": None, "e": rng.randint(lo, hi)}])
    travs.append(["iterRange", {"s": rng.randint(lo, hi), "e": None}])
    travs.append(["iterRange", {"s": 0, "e": None}])
    travs.append(["iterRange", {"s": 0, "e": 0}])
    sub = rngs if full else rng.sample(rngs, min(len(rngs), 5))
    for s, e in sub:
        for step in ((1, 2, 3, -1, -2) if full else (rng.choice([1, 2, 3, -1, -2]),)):
            if step < 0:
                s, e = max(s, e), min(s, e) - 1         # a descending range
            travs.append(["iterRangeShape", {"s": s, "e": e, "step": step}])
            if (s, e, step) == sub[0] + (1,) or rng.random() < 0.3:
                travs.append(["iterRangeShapeRef", {"s": s, "e": e, "step": step}])
    # start_pos shortcuts (validity is decided at run time from the raw lists)
    for p in range(len(coords)):
        travs.append(["iterOccupancy", {"p": p}])
        travs.append(["iterActive", {"p": p}])
        s, e = rng.choice(rngs)
        travs.append(["iterRange", {"s": s, "e": e, "p": p}])
        if cfg["fmt"] == "C":
            travs.append(["iter", {"p": p}])
    # projections
    for _ in range(3 if not full else 6):
        k = rng.choice([1, 1, 2, 3, -1, -1, -2])
        d = rng.randint(-3, 6)
        iv = None
        if rng.random() < 0.6:
            a = rng.randint(-8, 10)
            iv = [a, a + rng.randint(0, 8)]
        travs.append(["project", {"k": k, "d": d, "interval": iv}])
    for p in range(len(coords)):
        if rng.random() < 0.5:
            a = rng.randint(lo, hi)
            travs.append(["project", {"k": 1, "d": 0, "interval": [a, a + rng.randint(0, 4)], "p": p}])
    travs.append(["prune", {"pred": rng.choice(["even-pos", "odd-coord", "first2", "all", "none"])}])
    travs.append(["lazy", {"via": rng.choice(["and-self", "project", "prune"])}])
    # traversals that are obtained but abandoned after `take` elements (0 = never started); the number is
    # clipped to the length of the traversal's domain at run time
    for m in (MODES_SHAPE if full else rng.sample(MODES_SHAPE, 2)):
        for k in ((0, 1, rng.randint(2, hi - lo)) if full else (rng.choice([0, 0, 1, 2, 3, 5]),)):
            a = {"take": k}
            if "Range" in m:
                s, e = rng.choice(rngs)
                a.update({"s": s, "e": e, "step": rng.choice([1, 1, 2])})
            travs.append([m, a])
    # lazy fibers made from a caller-supplied producer class (Fiber.fromIterator), traversed several times
    for style in (PRODUCER_STYLES if full else rng.sample(PRODUCER_STYLES, 2)):
        travs.append(["producer", {"style": style, "ops": [_producer_op(rng, lo, hi) for _ in range(rng.randint(2, 5))]}])
    # dense co-iteration: 2 or 3 operands of the same tree level as the fiber (leaf fibers, or upper-level fibers
    # whose payloads are sub-fibers), free or tensor-owned; the consumer either only reads what it is given or
    # updates in place the scratch value it was given for an absent coordinate; the lazily produced co-iteration
    # fiber is traversed once or twice
    travs.append(["coiter", _coiter_args(rng, cfg, lo, hi, ["coiterShape", "coiterShapeRef", "coiterActiveShape",
                                                            "coiterActiveShapeRef", "coiterRangeShape", "coiterRangeShapeRef"])])
    travs.append(["coiter", _coiter_args(rng, cfg, lo, hi, ["coiterShape", "coiterActiveShape", "coiterRangeShape"])])
    a = _coiter_args(rng, cfg, lo, hi, ["coiterShapeRef", "coiterActiveShapeRef", "coiterRangeShapeRef", "coiterRangeShape"])
    a["take"] = rng.choice([0, 1, 2, 3])
    travs.append(["coiter", a])
    return travs


def _coiter_args(rng, cfg, lo, hi, modes):
    others = []
    for _ in range(rng.choice([1, 1, 2])):
        if cfg["interior"]:
            spec = gen.rand_tree_spec(rng, [max(hi, 1), 3], 0.5, 0.4, 0)
            # a free upper-level fiber knows that its default is a fiber only from a sub-fiber it holds
            own = rng.choice(["free", "tensor"]) if spec else "tensor"
        else:
            spec = gen.rand_leaf_spec(rng, max(hi, 1), 0.5, 0.2, cfg["default"])
            own = rng.choice(["free", "free", "tensor"])
        others.append({"spec": spec, "own": own})
    return {"mode": rng.choice(modes), "others": others, "s": rng.randint(lo, hi), "e": rng.randint(lo, hi),
            "step": rng.choice([1, 2]), "consumer": rng.choice(["read", "write"]), "passes": rng.choice([1, 1, 2])}


def _producer_op(rng, lo, hi):
    r = rng.random()
    if r < 0.2:
        return ["iter"]
    if r < 0.3:
        return ["iterOccupancy"]
    if r < 0.45:
        s = rng.randint(lo, hi)
        return ["iterRange", s, rng.randint(s, hi + 1)]
    if r < 0.55:
        return ["iterActive"]
    if r < 0.65:
        return ["len"]
    if r < 0.75:
        return ["fromLazy"]
    if r < 0.85:
        return ["project", rng.randint(-3, 4)]
    if r < 0.92:
        return ["prune", rng.choice(["even-pos", "odd-coord", "first2"])]
    return ["partial", rng.randint(0, 3)]


def generate(rng, tier, shard, nshards, mon):
    n = 4 if tier == "quick" else 6
    idx = 0
    for vec in gen.all_state_vectors(n):
        for offset in (0, -2):
            if idx % nshards == shard:
                spec = gen.states_to_leaf_spec(vec, offset=offset)
                cfg = _fiber_cfg(rng, spec)
                if offset < 0:
                    cfg.update({"own": "free", "fmt": "C"})
                    if cfg["shape"] is not None and cfg["shape"] <= 0:
                        cfg["shape"] = None
                yield {"fiber": cfg, "travs": _travs_for(rng, cfg, full=True), "sys": True}
            idx += 1
    mon.exhaustive[f"3state-n{n}-all-ranges"] = True
    nrand = (1600 if tier == "quick" else 16000) // nshards
    for _ in range(nrand):
        if rng.random() < 0.3:
            ext = [rng.randint(1, 5), rng.randint(1, 3)]
            spec = gen.rand_tree_spec(rng, ext, 0.6, 0.5, 0)
            cfg = _fiber_cfg(rng, spec, interior=True)
        else:
            spec = gen.rand_leaf_spec(rng, rng.randint(0, 9), rng.random(), 0.2, 0)
            cfg = _fiber_cfg(rng, spec)
        yield {"fiber": cfg, "travs": _travs_for(rng, cfg, full=False)}


# ------------------------------------------------------------------------------------------
# building / raw helpers
# ------------------------------------------------------------------------------------------
def _build(cfg):
    d = cfg["default"]
    if cfg["own"] == "tensor":
        ids = ["M", "K"] if cfg["interior"] else ["K"]
        shape = [cfg["shape"], 4] if cfg["interior"] else [cfg["shape"]]
        t = gen.tensor_from_spec(cfg["spec"], ids, shape=shape, default=d, fmts=[cfg["fmt"]] + (["C"] if cfg["interior"] else []))
        return t.getRoot(), t
    kw = {}
    if cfg["shape"] is not None:
        kw["shape"] = cfg["shape"]
    if cfg["active"] is not None:
        kw["active_range"] = tuple(cfg["active"])
    f = gen.fiber_from_spec(cfg["spec"], d, **kw)
    if cfg["fmt"] == "U":
        f.getRankAttrs().setFormat("U")
    return f, None


def _empty(p, d):
    if isinstance(p, Fiber):
        return content(p, d) == {}
    return unbox(p) == d


def _domain(f, mode):
    if "Active" in mode:
        lo, hi = f.getActive()
        return lo, hi
    return 0, f.getShape(all_ranks=False)


class _Ctx:
    def __init__(self, mon, cfg):
        self.mon, self.cfg, self.d = mon, cfg, cfg["default"]


def _take(mon, it, cap, what, k=None):
    """Consume `it` completely (k None) or abandon it after exactly k elements (k == 0: never start it)."""
    out = []
    if k == 0:
        return out
    it = iter(it)
    for i, el in enumerate(it):
        if i >= cap:
            mon.violation(f"{what}:runaway", f"{what} yielded more than {cap} elements")
            break
        out.append((el.coord, el.payload))
        if k is not None and len(out) >= k:
            break
    if k is not None and hasattr(it, "close"):
        it.close()
    return out


def _check_seq(ctx, what, got, exp, ids_before, interior):
    """exp: list of (coord, stored object or None for 'default expected')."""
    mon = ctx.mon
    mon.count("traversals")
    mon.count("yields_checked", len(got))
    gc, ec = [c for c, _ in got], [c for c, _ in exp]
    if not mon.check(gc == ec, f"{what}:coords", f"{what} yielded coordinates {gc}, definition gives {ec}; fiber {ctx.cfg}"):
        return False
    seen = {}
    for (c, p), (_, obj) in zip(got, exp):
        if obj is not None:
            mon.check(p is obj, f"{what}:payload-identity", f"{what} at {c}: payload is not the stored object")
        else:
            if interior:
                ok = isinstance(p, Fiber) and len(p.coords) == 0
            else:
                ok = isinstance(p, Payload) and not isinstance(p.value, (Payload, Fiber)) and p.value == ctx.d
            mon.check(ok, f"{what}:default-value", f"{what} at absent {c}: delivered {p!r}, expected the default {ctx.d!r}")
            mon.check(id(p) not in ids_before and id(p) not in seen, f"{what}:default-not-fresh",
                      f"{what} at absent {c}: default object is shared or stored")
            seen[id(p)] = p
    return True


# ------------------------------------------------------------------------------------------
# run
# ------------------------------------------------------------------------------------------
def run_case(case, mon):
    cfg = case["fiber"]
    ctx = _Ctx(mon, cfg)
    any_yield = False
    for mode, args in case["travs"]:
        try:
            y = _run_trav(ctx, mode, args)
        except BaseException as e:      # noqa
            if isinstance(e, KeyboardInterrupt):
                raise
            mon.violation(f"{mode}:raised:{type(e).__name__}", f"{mode}({args}) raised {type(e).__name__}: {e}; fiber {cfg}")
            y = 0
        any_yield = any_yield or bool(y)
    if cfg["spec"] and any_yield:
        mon.nontrivial()
    mon.state((str(cfg["spec"]), cfg["fmt"], cfg["own"]))


def _producer_class(style, elems):
    """A class in the sense of Fiber.fromIterator: each *instance* delivers `elems` once, in order."""
    def cp(i):
        return CoordPayload(elems[i][0], elems[i][1])

    if style == "genfunc":              # stateless: __iter__ is a generator function
        class P:
            def __iter__(self):
                for i in range(len(elems)):
                    yield cp(i)
    elif style == "listiter":           # stateless: a new list iterator per __iter__
        class P:
            def __iter__(self):
                return iter([cp(i) for i in range(len(elems))])
    elif style == "stream":             # the stream is set up when the instance is created
        class P:
            def __init__(self):
                self.stream = (cp(i) for i in range(len(elems)))

            def __iter__(self):
                return self.stream
    elif style == "cursor":             # a cursor kept on the instance
        class P:
            def __init__(self):
                self.pos = 0

            def __iter__(self):
                while self.pos < len(elems):
                    self.pos += 1
                    yield cp(self.pos - 1)
    elif style == "self-iterator":      # the instance is its own iterator
        class P:
            def __init__(self):
                self.pos = 0

            def __iter__(self):
                return self

            def __next__(self):
                if self.pos >= len(elems):
                    raise StopIteration
                self.pos += 1
                return cp(self.pos - 1)
    else:
        raise ValueError(style)
    return P


def _same_payload(p, q, d):
    if p is q:
        return True
    if isinstance(q, Fiber):
        return isinstance(p, Fiber) and content(p, d) == content(q, d)
    return not isinstance(p, Fiber) and unbox(p) == unbox(q)


def _run_producer(ctx, f, watched, before, args):
    """A lazy fiber over a caller-supplied producer class: every traversal (whichever came before it, completed
    or abandoned) yields the non-empty produced elements of the slice it names; len / fromLazy / project / prune
    agree with the same raw list."""
    mon, cfg, d = ctx.mon, ctx.cfg, ctx.d
    elems = list(zip(f.coords, f.payloads))             # the produced stream: ascending, with explicit empties
    nonempty = [(c, q) for c, q in elems if not _empty(q, d)]
    kw = {"default": d} if not cfg["interior"] else {}
    if cfg["shape"] is not None and not (elems and elems[0][0] < 0):
        kw["shape"] = cfg["shape"]
    elif cfg["active"] is not None:
        kw["active_range"] = tuple(cfg["active"])
    else:
        kw["active_range"] = ((elems[0][0] - 1, elems[-1][0] + 2) if elems else (0, 2))
    lazy = Fiber.fromIterator(_producer_class(args["style"], elems), **kw)
    cap = len(elems) + 5
    ntrav = [0]
    total = 0

    def seq(op, it, exp, k=None):
        nonlocal total
        what = f"fromIterator:{op}"
        got = _take(mon, it, cap, what, k)
        mon.count("traversals")
        mon.count("producer_traversals")
        mon.count("yields_checked", len(got))
        clause = "coords" if ntrav[0] == 0 else "reiteration"
        if ntrav[0] > 0:
            mon.count("producer_retraversals")
        ntrav[0] += 1
        total += len(got)
        gc, ec = [c for c, _ in got], [c for c, _ in exp]
        if mon.check(gc == ec, f"{what}:{clause}",
                     f"{what} (producer style {args['style']}, traversal #{ntrav[0]} of the lazy fiber, ops {args['ops']}) "
                     f"yielded {gc}, the produced stream gives {ec}; produced {[(c, unbox(q) if not isinstance(q, Fiber) else 'fiber') for c, q in elems]}"):
            mon.check(all(_same_payload(p, q, d) for (_, p), (_, q) in zip(got, exp)), f"{what}:payloads",
                      f"{what}: delivered payloads differ from the produced ones")

    for op in args["ops"]:
        name = op[0]
        if name in ("iter", "iterOccupancy"):
            seq(name, lazy.__iter__() if name == "iter" else lazy.iterOccupancy(), nonempty)
        elif name == "partial":
            k = min(op[1], len(nonempty))
            seq("iter+partial", lazy.__iter__(), nonempty[:k], k)
        elif name == "iterRange":
            s, e = op[1], op[2]
            seq(name, lazy.iterRange(s, e), [(c, q) for c, q in nonempty if s <= c < e])
        elif name == "iterActive":
            s, e = lazy.getActive()
            seq(name, lazy.iterActive(), [(c, q) for c, q in nonempty if s <= c < e])
        elif name == "len":
            n = len(lazy)
            clause = "len" if ntrav[0] == 0 else "len-after-traversal"
            ntrav[0] += 1
            mon.count("producer_traversals")
            mon.check(n == len(nonempty), f"fromIterator:{clause}",
                      f"len(lazy)={n} (style {args['style']}, ops {args['ops']}), the produced stream has {len(nonempty)} non-empty elements")
        elif name == "fromLazy":
            if cfg["interior"]:
                continue
            eager = Fiber.fromLazy(lazy)
            clause = "fromLazy" if ntrav[0] == 0 else "fromLazy-after-traversal"
            ntrav[0] += 1
            mon.count("producer_traversals")
            ok = (not eager.isLazy() and list(eager.coords) == [c for c, _ in nonempty]
                  and [unbox(p) for p in eager.payloads] == [unbox(q) for _, q in nonempty])
            mon.check(ok, f"fromIterator:{clause}",
                      f"fromLazy (style {args['style']}, ops {args['ops']}) gave {list(zip(eager.coords, eager.payloads))}, "
                      f"the produced non-empty elements are {[(c, unbox(q)) for c, q in nonempty]}")
        elif name == "project":
            dd = op[1]
            pr = lazy.project(trans_fn=lambda c, dd=dd: c + dd)
            exp = [(c + dd, q) for c, q in nonempty]
            seq("project", pr, exp)
            seq("project", pr, exp)
        elif name == "prune":
            fn = PRUNE_FNS[op[1]]
            pn = lazy.prune(trans_fn=fn)
            exp = [(c, q) for i, (c, q) in enumerate(nonempty) if fn(i, c, q)]
            seq("prune", pn, exp)
            seq("prune", pn, exp)
        else:
            raise ValueError(name)
    mon.check(snap(watched) == before, "fromIterator:modified-source", "traversing the lazy fiber changed the produced payloads")
    return total


def _build_other(o, interior, d):
    spec = o["spec"]
    if o["own"] == "tensor":
        top = max([c for c, _ in spec], default=0) + 1
        if interior:
            t = gen.tensor_from_spec(spec, ["M", "K"], shape=[top, 4], default=d)
        else:
            t = gen.tensor_from_spec(spec, ["K"], shape=[top], default=d)
        return t.getRoot(), t
    return gen.fiber_from_spec(spec, d), None


def _run_coiter(ctx, f, t, args):
    """Dense co-iteration: at every coordinate of the domain, a tuple with one entry per operand - the stored
    payload object where the operand has the coordinate, else the default of the operand's rank (a scalar box
    holding the default at a leaf rank, an empty fiber at an upper rank); for the Ref forms that default has
    been inserted.  What the consumer does with the scratch values it was handed for absent coordinates does
    not change what later coordinates or a later traversal of the same lazy fiber are presented with."""
    mon, cfg, d = ctx.mon, ctx.cfg, ctx.d
    interior = cfg["interior"]
    m = args["mode"]
    others = args.get("others")
    if others is None:                                  # older replay files: one free leaf operand
        if interior:
            return 0
        others = [{"spec": args["other"], "own": "free"}]
    ops = [(f, t)] + [_build_other(o, interior, d) for o in others]
    fibers = [x for x, _ in ops]
    watched = [(tt if tt is not None else x) for x, tt in ops]
    before = [snap(w) for w in watched]
    ids_before = set()
    for w in watched:
        ids_before |= set(idset(w))
    cs0 = [list(x.coords) for x in fibers]
    orig = [dict(zip(x.coords, x.payloads)) for x in fibers]
    cur = [dict(o) for o in orig]                       # what each operand stores, as the statement predicts it
    ref = m.endswith("Ref")
    write = args.get("consumer") == "write"
    if "Range" in m:
        lo, hi, step = args["s"], args["e"], args["step"]
        dom = list(range(lo, hi, step))
        res = getattr(Fiber, m)(fibers, lo, hi, step)
    else:
        lo, hi = _domain(f, m)
        dom = list(range(lo, hi))
        res = getattr(Fiber, m)(fibers)
    what = m
    k = args.get("take")
    if k is not None:
        k = min(k, len(dom))
        dom = dom[:k]
        what += "+partial"
        mon.count("partial_traversals")
    if interior:
        what += "[upper]"

    def is_default(pv):
        if interior:
            return isinstance(pv, Fiber) and not pv.isLazy() and len(pv.coords) == 0
        return isinstance(pv, Payload) and not isinstance(pv.value, (Payload, Fiber)) and pv.value == d

    total = 0
    for trip in range(args.get("passes", 1)):
        mon.count("traversals")
        mon.count("coiter_traversals")
        if interior:
            mon.count("coiter_upper_traversals")
        if trip:
            mon.count("coiter_retraversals")
        # consume element by element: the consumer acts on an element before the next one is requested
        got = []
        bad_shape = False
        if k != 0:
            it = iter(res)
            for el in it:
                if len(got) >= len(dom) + 5:
                    mon.violation(f"{what}:runaway", f"{what} yielded more than {len(dom) + 5} elements")
                    break
                c, v = el.coord, unbox(el.payload)
                got.append(c)
                if len(got) > len(dom) or c != dom[len(got) - 1]:
                    break                               # reported as a coordinate mismatch below
                if not mon.check(isinstance(v, tuple) and len(v) == len(fibers), f"{what}:payload-shape",
                                 f"{what} at {c}: {v!r} is not a {len(fibers)}-tuple"):
                    bad_shape = True
                    break
                scratch = []
                for side, pv in enumerate(v):
                    if c in cur[side]:
                        mon.check(pv is cur[side][c], f"{what}:payload-identity",
                                  f"{what} at {c}: operand {side} payload is not the stored object")
                    else:
                        ok = mon.check(is_default(pv) and id(pv) not in ids_before, f"{what}:default-value",
                                       f"{what} at absent {c} (traversal #{trip + 1}, consumer {args.get('consumer')}): operand {side} "
                                       f"was presented with {pv!r}, the default is {'an empty fiber' if interior else repr(d)}; "
                                       f"domain {dom}, operands store {cs0}")
                        if ref:
                            cur[side][c] = pv
                        if ok:
                            scratch.append(pv)
                if write:
                    for pv in scratch:
                        mon.count("coiter_scratch_writes")
                        if interior:
                            pv.append(1, 5)
                        else:
                            pv += 10
                if k is not None and len(got) >= k:
                    break
            if k is not None and hasattr(it, "close"):
                it.close()
        mon.count("yields_checked", len(got))
        total += len(got)
        if bad_shape:
            break
        clause = "coords" if trip == 0 else "reiteration"
        if not mon.check(got == dom, f"{what}:{clause}", f"{what} (traversal #{trip + 1} of the co-iteration fiber) yielded {got} expected {dom}"):
            break
    for side, (x, tt) in enumerate(ops):
        if ref:
            now = dict(zip(x.coords, x.payloads))
            want = sorted(set(cs0[side]) | set(dom))
            mon.check(list(x.coords) == want, f"{what}:inserted-coords",
                      f"{what} over {dom}: operand {side} coords afterwards {list(x.coords)}, expected {want}")
            for c, q in cur[side].items():
                mon.check(now.get(c) is q, f"{what}:ref-not-stored" if c not in orig[side] else f"{what}:disturbed-existing",
                          f"{what}: operand {side} at {c} does not store the object that was yielded / stored before")
            if tt is not None:
                pr = RC(tt)
                mon.check(not pr, f"{what}:rank-lists", f"{what}: operand {side}: tensor rank lists inconsistent afterwards: {pr}")
        else:
            mon.check(snap(watched[side]) == before[side], f"{what}:modified-operand", f"{what} changed operand {side}")
    return total


def _valid_startpos(f, d, p, s, e):
    if p >= len(f.coords):
        return False
    for i in range(p):
        c = f.coords[i]
        if not _empty(f.payloads[i], d) and (s is None or c >= s) and (e is None or c < e):
            return False
    return True


def _run_trav(ctx, mode, args):
    mon, cfg, d = ctx.mon, ctx.cfg, ctx.d
    f, t = _build(cfg)
    interior = cfg["interior"]
    watched = t if t is not None else f
    before = snap(watched)
    ids_before = idset(watched)
    cs, ps = list(f.coords), list(f.payloads)
    stored = dict(zip(cs, ps))
    cap = len(cs) + 40
    nonempty = [(c, p) for c, p in zip(cs, ps) if not _empty(p, d)]
    what = mode
    mutating = False
    got = exp = None

    if mode in ("iter", "iterOccupancy", "iterActive", "iterRange"):
        p = args.get("p")
        if mode == "iterRange":
            s, e = args["s"], args["e"]
        elif mode == "iterActive":
            s, e = f.getActive()
        elif mode == "iter" and cfg["fmt"] == "U":
            s = e = None
        else:
            s = e = None
        if mode == "iter" and cfg["fmt"] == "U":
            lo, hi = f.getActive()
            exp = [(c, stored.get(c)) for c in range(lo, hi)]
            what = "iter[U]"
            got = _take(mon, f.__iter__(), cap, what)
        else:
            if p is not None:
                if not _valid_startpos(f, d, p, s, e):
                    return 0
                what += "+start_pos"
                mon.count("startpos_traversals")
            exp = [(c, q) for c, q in nonempty if (s is None or c >= s) and (e is None or c < e)]
            kw = {} if p is None else {"start_pos": p}
            if mode == "iter":
                it = f.__iter__(**kw)
            elif mode == "iterOccupancy":
                it = f.iterOccupancy(**kw)
            elif mode == "iterActive":
                it = f.iterActive(**kw)
            else:
                it = f.iterRange(s, e, **kw)
            got = _take(mon, it, cap, what)
    elif mode in ("iterShape", "iterActiveShape", "iterShapeRef", "iterActiveShapeRef", "iterRangeShape", "iterRangeShapeRef"):
        if "Range" in mode:
            lo, hi, step = args["s"], args["e"], args["step"]
            dom = list(range(lo, hi, step))
            it = getattr(f, mode)(lo, hi, step)
        else:
            lo, hi = _domain(f, mode)
            dom = list(range(lo, hi))
            it = getattr(f, mode)()
        cap = len(dom) + 5
        k = args.get("take")
        if k is not None:
            # an abandoned traversal has visited (and delivers) exactly the first k coordinates of its domain
            k = min(k, len(dom))
            dom = dom[:k]
            what += "+partial"
            mon.count("partial_traversals")
        if mode.endswith("Ref"):
            mutating = True
            mon.count("ref_traversals")
            got = _take(mon, it, cap, what, k)
            exp = [(c, stored.get(c)) for c in dom]
            want_coords = sorted(set(cs) | set(dom))
            mon.check(list(f.coords) == want_coords, f"{what}:inserted-coords",
                      f"{what} over {dom}: coords afterwards {f.coords}, expected {want_coords} (before {cs})")
            # every yielded payload is the object now stored at that coordinate
            now = dict(zip(f.coords, f.payloads))
            for c, q in got:
                mon.check(now.get(c) is q, f"{what}:ref-not-stored", f"{what} at {c}: yielded reference is not the stored payload")
            for c in cs:
                mon.check(now.get(c) is stored[c], f"{what}:disturbed-existing", f"{what}: existing element at {c} was replaced")
            # compare coordinates only for exp absent entries (the created default is stored, not 'fresh')
            gc, ec = [c for c, _ in got], [c for c, _ in exp]
            mon.count("traversals")
            mon.count("yields_checked", len(got))
            mon.check(gc == ec, f"{what}:coords", f"{what} yielded {gc} expected {ec}")
            for (c, q), (_, obj) in zip(got, exp):
                if obj is not None:
                    mon.check(q is obj, f"{what}:payload-identity", f"{what} at {c}: not the stored object")
                elif not interior:
                    mon.check(isinstance(q, Payload) and q.value == d, f"{what}:default-value", f"{what} at new {c}: {q!r}")
                else:
                    mon.check(isinstance(q, Fiber) and len(q.coords) == 0, f"{what}:default-value", f"{what} at new {c}: {q!r}")
            if t is not None:
                pr = RC(t)
                mon.check(not pr, f"{what}:rank-lists", f"{what}: tensor rank lists inconsistent afterwards: {pr}")
            return len(got)
        exp = [(c, stored.get(c)) for c in dom]
        got = _take(mon, it, cap, what, k)
    elif mode == "project":
        k, dd, iv, p = args["k"], args["d"], args.get("interval"), args.get("p")
        if cfg["fmt"] == "U":
            return 0
        if k < 0 and d != 0:
            mon.count("decreasing_projections_nonzero_default")
        fn = (lambda c, k=k, dd=dd: k * c + dd)
        mon.count("project_traversals")
        base = list(nonempty)
        if p is not None:
            # API precondition (asserted by the library) and semantic validity
            if p >= len(cs) or not (p == 0 or cs[p - 1] < iv[0]):
                return 0
            if not _valid_startpos(f, d, p, iv[0], iv[1]):
                return 0
            what += "+start_pos"
            mon.count("startpos_traversals")
        img = sorted(((fn(c), q) for c, q in base), key=lambda x: x[0])
        if iv is not None:
            img = [(c, q) for c, q in img if iv[0] <= c < iv[1]]
        exp = img
        what += ":decreasing" if k < 0 else ""
        kw = {"trans_fn": fn}
        if iv is not None:
            kw["interval"] = tuple(iv)
        if p is not None:
            kw["start_pos"] = p
        lazy = f.project(**kw)
        got = _take(mon, lazy, cap, what)
        got2 = _take(mon, lazy, cap, what)
        mon.check([c for c, _ in got2] == [c for c, _ in got] and all(a[1] is b[1] for a, b in zip(got, got2)),
                  f"{what}:reiteration", f"{what}: second traversal gave {[c for c, _ in got2]} after {[c for c, _ in got]}")
        if p is None:
            # active-range iteration of the projection: the projected elements inside the requested interval, or (no interval)
            # inside the image of the source's active range -- for a source whose active range was narrowed, too
            lo, hi = f.getActive()
            if iv is not None:
                alo, ahi = iv[0], iv[1]
            elif hi > lo:
                alo, ahi = min(fn(lo), fn(hi - 1)), max(fn(lo), fn(hi - 1)) + 1
            else:
                alo = ahi = None
            if alo is not None:
                src_in = [(fn(c), q) for c, q in base if lo <= c < hi]
                exp_act = sorted((x for x in src_in if alo <= x[0] < ahi), key=lambda x: x[0])
                if iv is not None:
                    exp_act = [x for x in img]
                got_act = _take(mon, lazy.iterActive(), cap, what + ":iterActive")
                mon.count("project_active_traversals")
                mon.check([c for c, _ in got_act] == [c for c, _ in exp_act] and all(a[1] is b[1] for a, b in zip(got_act, exp_act)),
                          f"{what}:iterActive", f"{what}: active-range iteration of the projection of a fiber with active range {(lo, hi)} "
                          f"gave {[c for c, _ in got_act]}, expected {[c for c, _ in exp_act]}")
    elif mode == "prune":
        pred = args["pred"]
        fn = PRUNE_FNS[pred]
        if cfg["fmt"] == "U":
            lo, hi = f.getActive()
            src = [(c, stored.get(c)) for c in range(lo, hi)]
            return 0
        src = nonempty
        exp = [(c, q) for i, (c, q) in enumerate(src) if fn(i, c, q)]
        lazy = f.prune(trans_fn=fn)
        got = _take(mon, lazy, cap, what)
        got2 = _take(mon, lazy, cap, what)
        mon.check([c for c, _ in got2] == [c for c, _ in got], f"{what}:reiteration", f"{what}: second traversal differs")
    elif mode == "lazy":
        via = args["via"]
        mon.count("lazy_traversals")
        if cfg["fmt"] == "U" or interior or d != 0:
            return 0
        if via == "and-self":
            g = gen.fiber_from_spec(cfg["spec"], d)
            lazy = f & g
            exp_c = [c for c, _ in nonempty]
        elif via == "project":
            lazy = f.project(trans_fn=lambda c: c + 3)
            exp_c = [c + 3 for c, _ in nonempty]
        else:
            lazy = f.prune(trans_fn=lambda i, c, q: c % 2 == 0)
            exp_c = [c for c, _ in nonempty if c % 2 == 0]
        what = f"lazy:{via}"
        a = _take(mon, lazy, cap, what)
        b = _take(mon, lazy, cap, what)
        mon.count("traversals")
        mon.check([c for c, _ in a] == exp_c, f"{what}:coords", f"{what} yielded {[c for c, _ in a]} expected {exp_c}")
        mon.check([c for c, _ in a] == [c for c, _ in b], f"{what}:reiteration", f"{what}: traversals differ: {[c for c, _ in a]} vs {[c for c, _ in b]}")
        n = len(lazy)
        mon.check(n == len(exp_c), f"{what}:len", f"len(lazy)={n} expected {len(exp_c)}")
        c3 = _take(mon, lazy, cap, what)
        mon.check([c for c, _ in c3] == exp_c, f"{what}:reiteration", f"{what}: traversal after len() gave {[c for c, _ in c3]}")
        eager = Fiber.fromLazy(lazy)
        mon.check(not eager.isLazy() and list(eager.coords) == exp_c, f"{what}:fromLazy-coords",
                  f"fromLazy coords {eager.coords} expected {exp_c}")
        vals = [unbox(p) for p in eager.payloads]
        if via == "and-self":
            ok = all(isinstance(v, tuple) and len(v) == 2 and unbox(v[0]) == unbox(q) for v, (_, q) in zip(vals, nonempty))
        else:
            src = [q for c, q in nonempty if (via == "project" or c % 2 == 0)]
            ok = [v for v in vals] == [unbox(q) for q in src]
        mon.check(ok, f"{what}:fromLazy-values", f"fromLazy payloads {vals} do not match the lazy fiber's")
        mon.check(snap(watched) == before, f"{what}:modified-operand", f"{what} changed its operand")
        return len(a)
    elif mode == "coiter":
        return _run_coiter(ctx, f, t, args)
    elif mode == "producer":
        return _run_producer(ctx, f, watched, before, args)
    else:
        raise ValueError(mode)

    ok = _check_seq(ctx, what, got, exp, ids_before, interior)
    if not mutating:
        after = snap(watched)
        if after != before:
            extra = ""
            if t is not None:
                extra = "; rank lists: " + "; ".join(RC(t))
            mon.violation(f"{what}:modified-operand", f"{what} (non-Ref traversal) changed the tree or its tensor{extra}; fiber {cfg}")
        else:
            mon.count("oracle_evals")
    return len(got or [])
