"""C16 - traces are well-formed: one sorted, correctly addressed row per traced event.

Monitor: offline checker over two logs.  Ground truth: while the kernel runs, the interpreter's observer
logs, per loop level visit and from the *raw* coordinate/payload lists (never from the library's counters),
which elements each operand presents, how a two-finger merge (possibly of lazily produced operands) or a
leader-follower intersection consumes them, which coordinates the populate offers, which of them already
existed in the destination and at which raw index, and which were kept.  Library log: the CSV files written under the collection prefix / the consumed in-memory traces.
The checker validates header, stamp ordering, and matches rows to ground-truth events one-to-one in
order; every kernel is run with flush thresholds 2, 3, 7, 1000 (and with the threshold changed while the collection runs), with consumable traces (consumed at the end,
piecewise, or after a refused endCollect()) and with the on-disk and in-memory forms mixed per trace - all row
sequences must be identical - and with two complementary subsets of the traces requested, each judged
against the ground truth of its own run.
"""
import collections
import json
import os
import random
import shutil
import tempfile
import zlib

from fibertree import Fiber, Payload, Tensor
from fibertree.core.metrics import Metrics

from fvmon import kernels, gen
from fvmon.observe import content, unbox

SPEC = {
    "anchors": ["fibertree.core.metrics:Metrics.addUse", "fibertree.core.metrics:Metrics.registerRank", "fibertree.core.metrics:Metrics._startTrace", "fibertree.core.metrics:Metrics.incIter", "fibertree.core.metrics:Metrics.endIter", "fibertree.core.metrics:Metrics._writeTrace", "fibertree.core.metrics:Metrics.consumeTrace", "fibertree.core.metrics:Metrics.associateShape", "fibertree.core.iterators:iterRange", "fibertree.core.iterators:__and__", "fibertree.core.iterators:__lshift__", "fibertree.core.fiber:Fiber.project",
                "fibertree.core.iterators:intersection", "fibertree.core.iterators:iterRangeShapeRef", "fibertree.core.fiber:Fiber.getPayload", "fibertree.core.fiber:Fiber.getPayloadRef"],
    "rule": ("case = one kernel from the C06 family with up to four operands co-iterated per loop level, written as a chain of "
             "`&`, as one Fiber.intersection(...) or as a leader-follower intersection, any loop order, optional tiling, operands "
             "canonical or holding explicit defaults, optional U-format ranks, output empty or pre-populated (so populates are "
             "appending, revisiting or inserting), with every trace type of every loop rank registered (iter, intersect_i, "
             "populate_i, populate_read_i, populate_write_i); or a hand-written two-level nest whose outer loop is sparse or a "
             "dense by-reference walk of the output (iterShapeRef / iterActiveShapeRef / iterRangeShapeRef) and whose inner operand "
             "expression (1-3 operands, every nesting of `&` / Fiber.intersection / leader-follower) is built inside or ahead of "
             "the collection; plus 1-D projection (convolution-like) kernels with project_i traces, and projections in the innermost "
             "loop of a nest of depth 2-3 (a new projected fiber per iteration of the enclosing loops).  Configurations of the "
             "collection per kernel / nest: flush thresholds 2, 3, 7, 1000; every trace on disk, in memory, or both (form drawn per "
             "trace); in-memory forms consumed once after the nest, piecewise at every iteration of the outermost loop, or only "
             "after endCollect() has refused to drop them (the collection is then ended again); the flush threshold fixed, or changed "
             "with setNumCachedUses() while the collection runs (to values drawn from 2..1000 at the iterations of the outermost loop "
             "and once more after the nest - raised or lowered, also below the number of rows a trace holds unwritten at that moment); "
             "every batch consumeTrace() delivered (also the empty ones) is copied at once and kept, and read again after the "
             "collection ended; all traces requested, or a random "
             "subset of the (rank, type) pairs and its complement, each judged against the ground truth of its own run.  Histories: a two-level "
             "nest traced in a collection that follows an earlier collection under the same prefix - an ordinary nest or a loop driven by a "
             "projection between two of the later nest's loop ranks (either direction) or foreign ranks - which ended normally, was abandoned "
             "after endCollect() refused to drop an unread in-memory trace, or was abandoned without endCollect().  Non-trivial "
             "= at least 2 trace files with at least 2 data rows each; distinct = distinct case."),
    "shards": {"quick": 16, "thorough": 16},
    "min_counts": {"quick": {"evaluations": 100, "files_checked": 600, "rows_matched": 1500, "flush_variants_compared": 300,
                             "inserting_visits": 20, "noninserting_visits": 300, "project_rows": 30, "startpos_traces": 30, "bounded_nests": 30,
                             "projections_with_start_pos": 60, "stale_file_sessions": 30, "abandoned_first_collections": 15,
                             "first_collections_matching_loop_ranks": 8, "abandoned_first_collections_matching_loop_ranks": 4,
                             "nested_intersection_visits": 60, "leader_follower_visits": 50, "wide_coiteration_visits": 70,
                             "dense_ref_outer_nests": 25, "prepared_ahead_nests": 20, "prepared_ahead_leader_follower_nests": 6,
                             "trace_subsets_judged": 200, "write_without_read_subsets": 5, "inserting_moves_judged": 60,
                             "piecewise_consumed_collections": 100, "late_drained_collections": 100,
                             "inner_loop_projection_nests": 30, "inner_loop_project_rows": 200,
                             "threshold_changed_collections": 300, "threshold_lowered_collections": 200,
                             "threshold_lowered_below_buffered_collections": 60,
                             "delivered_batches_reread": 20000, "empty_batches_followed_by_accesses": 2000}},
    "assumptions": [
        "label rule (which intersect_i / populate_i file belongs to which operand), derived from the library's behaviour on the unchanged tree: labels are handed out per loop rank in the order the operators start - a populate names its destination and source first, the outermost intersection names its operands next, an intersection nested inside one of its operands names its own when it is first pulled (left operand before right); a leader-follower intersection names leader then followers; integer coordinates",
        "an access in a two-finger intersection = an element of an operand that was compared and consumed, or the one left at the head of the unexhausted operand when the merge ends; a lazy operand is pulled on demand, so elements it never had to produce are not accesses",
        "a leader-follower intersection reads every leader element once and probes every follower once per leader element; a probe that finds the element is addressed by that element's index, a probe that finds nothing addresses no element and only its coordinate is judged; followers are compressed-format fibers",
        "an outer loop that walks the output densely by reference publishes its coordinate to the traces of the inner ranks; its own iter trace is not judged (next assumption)",
        "destination-side traces of an inserting populate (first source coordinate below the destination's maximum, compressed destination) are only required to be stamp-ordered and complete; complete = the write trace holds exactly one row per kept write plus one per moved element, the read trace at least one row per read of an element that was already there plus one per moved element (the reads of the search for the insertion place are not modelled); moved elements = the non-empty elements from the first inserted one to the end of the fiber as it is when the populate ends",
        "which traces are requested does not change which accesses a requested trace must hold; it may change the stamps (only their order is judged in a subset configuration).",
        "endCollect() refuses (AssertionError) to end a collection whose in-memory traces hold unconsumed rows; after the rows have been consumed a second endCollect() ends it, and the refused call must not have changed what the traces hold",
        "a collection started with beginCollect() is described by its own loop nest only: nothing an earlier collection did (rank matches made by projections, trace requests, files under the same prefix) carries over, whether that collection ended, was refused by endCollect() or was never ended",
        "Metrics.setNumCachedUses() may be called while a collection runs; it only changes how many rows are buffered before a flush, so the content of every trace is that of the collection run with a fixed threshold",
        "a batch returned by consumeTrace() belongs to the consumer: the library neither appends to it nor delivers its rows again, so read after the collection it holds exactly the rows it held when it was delivered",
        "a projected fiber consumed directly by the innermost loop (no populate / intersection on top of it, default tick): its source rank is matched to the loop rank, so the project_i header names the loop ranks; rows carry the source coordinate",
        "a loop level driven directly by the dense iterator of a single uncompressed operand emits no iter rows; its iter trace is not judged",
        "position of an element of a lazily produced fiber (a & b, z << a) is its ordinal in that lazy sequence; position in an uncompressed-format fiber is the offset in its active range",
    ],
}

ALL_TYPES = ["iter"] + [f"intersect_{i}" for i in range(8)] + ["populate_1", "populate_read_0", "populate_write_0"]
FAMS = list(kernels.FAMILIES)


def generate(rng, tier, shard, nshards, mon):
    n = (880 if tier == "quick" else 48000) // nshards
    for i in range(n):
        if i % 10 == 2:
            yield _gen_nest2(rng)
            continue
        if i % 10 == 1:
            # a single traced fiber iterated from a (valid) saved position
            yield {"kind": "startpos", "f": gen.rand_leaf_spec(rng, rng.randint(2, 10), 0.7, 0.25, 0), "r": rng.randrange(1 << 16),
                   "mode": rng.choice(["iterOccupancy", "iterRange", "iterActive", "iter"]), "s": rng.randint(0, 5), "e": rng.randint(3, 11)}
            continue
        if i % 10 == 8:
            # two collections under one prefix: the second one's files must describe the second one only
            M, K = rng.randint(1, 3), rng.randint(1, 5)
            yield {"kind": "stale", "M": M, "K": K, "a1": gen.rand_tree_spec(rng, [M, K], 0.9, 0.0, 0),
                   "a2": gen.rand_tree_spec(rng, [M, K], rng.choice([0.0, 0.0, 0.5, 0.9]), 0.0, 0),
                   "order": rng.choice(["file", "mem-then-file", "file-then-mem"]), "ncu": rng.choice([2, 1000]),
                   # the earlier collection: the same kind of nest, or a loop driven by a projection from rank `src` onto rank `dst`
                   # (ranks of the later nest or foreign ones); ended normally, abandoned after endCollect() refused to drop an
                   # unread in-memory trace, or abandoned without any endCollect()
                   "first": {"kind": rng.choice(["nest", "project", "project"]),
                             "ranks": rng.choice([["K", "M"], ["K", "M"], ["M", "K"], ["M", "K"], ["W", "M"], ["W", "K"], ["K", "J"], ["W", "J"]]),
                             "p": gen.rand_leaf_spec(rng, rng.randint(2, 6), 0.9, 0.0, 0), "shift": rng.randint(0, 2),
                             "end": rng.choice(["normal", "refused", "never"])}}
            continue
        if i % 10 == 6:
            # inner intersection consumed through a bounded range that may end before the operands do
            M, K = rng.randint(1, 4), rng.randint(2, 8)
            yield {"kind": "bounded", "a": gen.rand_tree_spec(rng, [M, K], 0.8, 0.0, 0), "b": gen.rand_leaf_spec(rng, K, 0.7, 0.0, 0),
                   "lo": rng.randint(0, 3), "hi": rng.randint(2, K + 1), "M": M, "K": K}
            continue
        if i % 5 == 3:
            e = [rng.randint(1, 3), rng.randint(1, 3), rng.randint(1, 4)]
            yield {"kind": "tuple", "ext": e, "nest": kernels._rand_nest(rng, e, rng.choice([0.4, 0.8, 1.0])), "levels": 1}
            continue
        if i % 5 == 4:
            yield {"kind": "project", "a": gen.rand_leaf_spec(rng, rng.randint(1, 9), 0.7, 0.2, 0), "shift": rng.randint(0, 3),
                   "interval": rng.choice([[0, rng.randint(1, 9)], [rng.randint(1, 3), rng.randint(4, 9)]]),
                   "z": gen.rand_leaf_spec(rng, 6, 0.3, 0.0, 0),
                   # a (valid) start position for the projection, plain or boxed
                   "sp": rng.choice(["none", "plain", "boxed", "boxed"]), "spr": rng.randrange(1 << 16)}
            continue
        # up to four operands co-iterated on one rank: written as a chain of `&`, as one Fiber.intersection(...)
        # (two-finger) or as a leader-follower intersection
        spec = kernels.rand_spec(rng, family=rng.choice(FAMS if rng.random() < 0.65 else kernels.FAMILIES3), tiles=True)
        spec["style"] = "leader-follower" if rng.random() < 0.25 else "two-finger"
        nested_and = rng.random() < 0.6
        lv = spec["order"]
        if rng.random() < 0.4:
            fm = []
            for name, idx in spec["ops"] + [["Z", spec["out"]]]:
                for x in kernels.loop_vars_of(idx, spec):
                    if rng.random() < (0.5 if name == "Z" else 0.3):
                        fm.append([name, kernels.rid(x)])
            # a level driven directly by the dense iterator of a single U operand is not traced (see assumptions)
            zl0 = kernels.loop_vars_of(spec["out"], spec)
            keep = []
            for name, r in fm:
                v = [x for x in lv if kernels.rid(x) == r][0]
                part = [n for n, idx in spec["ops"] if v in kernels.loop_vars_of(idx, spec)]
                if name != "Z" and len(part) == 1 and v not in zl0:
                    continue
                # a follower is probed by coordinate, not walked: its declared format plays no role (see assumptions)
                if name != "Z" and spec["style"] == "leader-follower":
                    continue
                keep.append([name, r])
            spec["fmts"] = keep
        zl = sorted(kernels.loop_vars_of(spec["out"], spec), key=lv.index)
        if zl and rng.random() < 0.5:
            spec["zinit"] = gen.rand_tree_spec(rng, [spec["ext"][x[0]] for x in zl], 0.5, 0.0, 0)
        # explicit defaults inside the operands change raw indices
        dirty = {}
        if rng.random() < 0.35:
            for name, idx in spec["ops"]:
                if len(idx) >= 1 and rng.random() < 0.7:
                    dirty[name] = rng.randrange(1 << 16)
        yield {"kind": "kernel", "spec": spec, "dirty": dirty, "nested_and": nested_and}
    # projections in the innermost loop of a nest of depth 2-3 (a new projected fiber per iteration of the enclosing loops)
    for i in range(max(2, n // 8)):
        ext = [rng.randint(2, 4)] + ([rng.randint(1, 3)] if rng.random() < 0.35 else []) + [rng.randint(2, 8)]
        lo = rng.randint(0, 4)
        yield {"kind": "project2", "ext": ext, "a": gen.rand_tree_spec(rng, ext, rng.choice([0.6, 0.8, 1.0]), rng.choice([0.0, 0.0, 0.0, 0.3]), 0),
               "shift": rng.randint(0, 3), "interval": rng.choice([None, None, [lo, lo + rng.randint(1, 8)]])}


EXPRS = {1: [0],
         2: [["and", 0, 1], ["flat", 0, 1], ["lf", 0, 1]],
         3: [["and", ["and", 0, 1], 2], ["and", 0, ["and", 1, 2]], ["flat", 0, 1, 2], ["lf", 0, 1, 2],
             ["and", ["lf", 0, 1], 2], ["and", 0, ["lf", 1, 2]]]}


def _gen_nest2(rng):
    """Two-level nest written by hand: outer loop sparse or a dense by-reference walk of the output, inner operand
    expression of one to three operands in every spelling, built inside or ahead of the collection."""
    M, K = rng.randint(2, 4), rng.randint(2, 7)
    nops = rng.choice([1, 2, 2, 3, 3, 3])
    ops = {}
    for j, name in enumerate("ABC"[:nops]):
        dim = 2 if j == 0 else rng.choice([1, 2])
        dens = rng.choice([0.5, 0.8, 1.0])
        ops[name] = [dim, gen.rand_tree_spec(rng, [M, K], dens, 0.0, 0) if dim == 2 else gen.rand_leaf_spec(rng, K, dens, 0.0, 0)]
    outer = rng.choice(["sparse", "zshape", "zactive", "zrange"])
    populate = rng.random() < (0.5 if outer == "sparse" else 0.8)
    lo = rng.randint(0, M - 1)
    case = {"kind": "nest2", "M": M, "K": K, "ops": ops, "expr": rng.choice(EXPRS[nops]), "outer": outer, "populate": populate,
            "prepared": rng.random() < 0.5, "range": [lo, rng.randint(lo + 1, M), rng.choice([1, 1, 2])],
            "zinit": gen.rand_tree_spec(rng, [M, K], 0.5, 0.0, 0) if (populate and rng.random() < 0.4) else None,
            "zfmt": populate and rng.random() < 0.2, "dirty": {}}
    if rng.random() < 0.3:
        case["dirty"] = {name: rng.randrange(1 << 16) for name in ops if rng.random() < 0.6}
    return case


# ------------------------------------------------------------------------------------------
# ground truth
# ------------------------------------------------------------------------------------------
def _is_empty(p, d=0):
    if isinstance(p, Fiber):
        return content(p, d) == {}
    return unbox(p) == d


def _fmt_of(f):
    own = f.getOwner()
    return own.getFormat() if own is not None else f.getRankAttrs().getFormat()


def _present(f):
    """[(coord, raw index or active offset, ordinal)] of what the fiber presents to co-iteration."""
    if _fmt_of(f) == "U":
        lo, hi = f.getActive()
        return [(c, c - lo, c - lo) for c in range(lo, hi)]
    out = []
    for i, (c, p) in enumerate(zip(f.coords, f.payloads)):
        if not _is_empty(p):
            out.append((c, i, len(out)))
    return out


class _Labels:
    """Operand labels of one loop rank: handed out in the order the operators start (see SPEC assumptions)."""

    def __init__(self, first):
        self.n = first

    def take(self):
        self.n += 1
        return self.n - 1


def _chain(n):
    """((0 & 1) & 2) & ... : the expression a k-operand two-finger co-iteration is written as."""
    e = ["and", 0, 1]
    for i in range(2, n):
        e = ["and", e, i]
    return e


def _has_nested(e):
    return isinstance(e, list) and e[0] == "and" and any(isinstance(x, list) for x in e[1:])


def _has_lf(e):
    return isinstance(e, list) and (e[0] == "lf" or any(_has_lf(x) for x in e[1:]))


class _GT(kernels.Observer):
    """Ground truth.  An operand expression is an int (index into the level's fibers), ["and", x, y] (lazy
    two-finger intersection of two expressions) or ["lf", i, j, ...] (leader-follower intersection of plain
    fibers, leader first)."""

    def __init__(self, spec, lvars, zl):
        self.spec, self.lvars, self.zl = spec, lvars, zl
        self.exp = {}           # (rank, type) -> [visit dict]
        self.stack = []
        self.dense_driven = set()
        self.stats = {"nested": 0, "lf": 0, "wide": 0}
        self.tap = None         # called at the start of every iteration of the outermost loop (streaming consumer)

    def _visit(self, R, tt, prefix, **kw):
        v = {"prefix": tuple(prefix), "rows": [], "inserting": False}
        v.update(kw)
        self.exp.setdefault((R, tt), []).append(v)
        return v

    def _stream(self, R, e, fibers, labels, point):
        """Elements (coord, index, ordinal) the expression presents to its consumer, produced on demand exactly
        as a lazy fiber is; every access to an operand is appended to the visit of that operand's trace."""
        if isinstance(e, int):
            yield from _present(fibers[e])
            return
        if e[0] == "lf":
            vs = [self._visit(R, f"intersect_{labels.take()}", point) for _ in e[1:]]
            followers = [fibers[i] for i in e[2:]]
            for k, el in enumerate(_present(fibers[e[1]])):
                vs[0]["rows"].append(el)
                for v, f in zip(vs[1:], followers):
                    # a probe that finds the element addresses it; a probe that misses addresses no element,
                    # only its coordinate is judged
                    v["rows"].append((el[0], f.coords.index(el[0]) if el[0] in f.coords else None, None))
                yield (el[0], k, k)
            return
        va = self._visit(R, f"intersect_{labels.take()}", point)
        vb = self._visit(R, f"intersect_{labels.take()}", point)
        A = self._stream(R, e[1], fibers, labels, point)
        B = self._stream(R, e[2], fibers, labels, point)
        a, b = next(A, None), next(B, None)
        k = 0
        while a is not None and b is not None:
            if a[0] == b[0]:
                va["rows"].append(a)
                vb["rows"].append(b)
                yield (a[0], k, k)
                k += 1
                a, b = next(A, None), next(B, None)
            elif a[0] < b[0]:
                va["rows"].append(a)
                a = next(A, None)
            else:
                vb["rows"].append(b)
                b = next(B, None)
        if a is not None:
            va["rows"].append(a)
        if b is not None:
            vb["rows"].append(b)

    def level_start(self, d, var, part, cur, zcur, is_out, point):
        n = len(part)
        if n == 1:
            e = 0
        elif self.spec["style"] == "leader-follower":
            e = ["lf"] + list(range(n))
        else:
            e = _chain(n)       # `a & b & c` and Fiber.intersection(a, b, c) are the same expression
        self.start_level(kernels.rid(var), [cur[x] for x in part], zcur, is_out, point, e)

    def start_dense(self, R, point):
        """A level that walks the output densely by reference (iterShapeRef & co.): it publishes its coordinate
        to the inner ranks but has no traced accesses of its own."""
        self.dense_driven.add(R)
        self.stack.append({"R": R, "is_out": False, "dense": True, "prev": None})

    def start_level(self, R, fibers, zcur, is_out, point, e):
        fr = {"R": R, "is_out": is_out, "z": zcur if is_out else None, "k": 0, "prev": None, "prefix": list(point)}
        fr["iter"] = self._visit(R, "iter", point)
        single = isinstance(e, int)
        fr["eager_driver"] = fibers[e] if (single and not is_out) else None
        if fr["eager_driver"] is not None and _fmt_of(fr["eager_driver"]) == "U":
            self.dense_driven.add(R)
        if single:
            src_rows = list(_present(fibers[e]))
        else:
            # the populate operator (if any) starts first and names its two operands 0 and 1
            src_rows = list(self._stream(R, e, fibers, _Labels(2 if is_out else 0), point))
            self.stats["nested"] += _has_nested(e)
            self.stats["lf"] += _has_lf(e)
            self.stats["wide"] += len(fibers) > 2
        offered = [c for c, _, _ in src_rows]
        if is_out:
            z = zcur
            vs = self._visit(R, "populate_1", point)
            vs["rows"] = src_rows
            zmax = z.coords[-1] if z.coords else None
            inserting = bool(offered) and zmax is not None and _fmt_of(z) == "C" and offered[0] < zmax
            fr["read"] = self._visit(R, "populate_read_0", point, inserting=inserting)
            fr["write"] = self._visit(R, "populate_write_0", point, inserting=inserting)
            fr["snapshot"] = list(z.coords)
            fr["pre"] = list(z.coords)
            fr["inserting"] = inserting
        self.stack.append(fr)

    def _finalize_prev(self, fr):
        if fr["is_out"] and fr["prev"] is not None:
            c = fr["prev"]
            z = fr["z"]
            if c in z.coords:
                fr["write"]["rows"].append((c, z.coords.index(c), None))
            fr["prev"] = None

    def body(self, d, var, c, point):
        fr = self.stack[-1]
        if self.tap is not None and len(self.stack) == 1:
            self.tap()
        if fr.get("dense"):
            return
        self._finalize_prev(fr)
        k = fr["k"]
        if fr["eager_driver"] is not None:
            f = fr["eager_driver"]
            pos = (c - f.getActive()[0]) if _fmt_of(f) == "U" else f.coords.index(c)
        else:
            pos = k
        fr["iter"]["rows"].append((c, pos, k))
        if fr["is_out"]:
            # c existed before this yield iff it was stored when the previous element was offered
            if c in fr["snapshot"]:
                fr["read"]["rows"].append((c, fr["z"].coords.index(c), None))
            fr["snapshot"] = list(fr["z"].coords)
            fr["prev"] = c
        fr["k"] = k + 1

    def level_end(self, d, var, point):
        fr = self.stack.pop()
        self._finalize_prev(fr)
        if fr["is_out"] and fr["inserting"]:
            # an insertion is modelled as a write to a staging area followed, when the populate ends, by one move
            # (a read and a write) of every element from the first inserted one to the end of the fiber
            z = fr["z"]
            new = [c for c, _, _ in fr["write"]["rows"] if c not in fr["pre"]]
            moved = []
            if new:
                p0 = z.coords.index(min(new))
                moved = [c for c, p in zip(z.coords[p0:], z.payloads[p0:]) if not _is_empty(p)]
            fr["write"]["moved"] = fr["read"]["moved"] = moved


# ------------------------------------------------------------------------------------------
# running the kernel under collection
# ------------------------------------------------------------------------------------------
def _apply_dirty(tensors, dirty):
    """Store explicit default payloads at absent coordinates of leaf fibers (public getPayloadRef only)."""
    import random
    for name, seed in dirty.items():
        t = tensors.get(name)
        if t is None or not t.ranks:
            continue
        r = random.Random(seed)
        leafs = list(t.ranks[-1].getFibers())
        shape = t.ranks[-1].getAttrs().getShape() or 1
        for f in leafs:
            for c in range(shape):
                if c not in f.coords and r.random() < 0.4 and f.getActive()[0] <= c < f.getActive()[1]:
                    f.getPayloadRef(c)


def _flat(p):
    p = Payload.get(p)
    if isinstance(p, tuple):
        for x in p:
            yield from _flat(x)
    else:
        yield p


def _build_expr(e, fibers):
    """The library expression for an operand expression tree (see _GT)."""
    if isinstance(e, int):
        return fibers[e]
    if e[0] == "lf":
        return Fiber.intersection(*[fibers[i] for i in e[1:]], style="leader-follower")
    if e[0] == "flat":
        return Fiber.intersection(*[fibers[i] for i in e[1:]])
    return _build_expr(e[1], fibers) & _build_expr(e[2], fibers)


def _model_expr(e):
    """Fiber.intersection(a, b, c) is by definition the chain (a & b) & c."""
    if isinstance(e, list) and e[0] == "flat":
        m = ["and", e[1], e[2]]
        for i in e[3:]:
            m = ["and", m, i]
        return m
    if isinstance(e, list) and e[0] == "and":
        return ["and", _model_expr(e[1]), _model_expr(e[2])]
    return e


def _prep_kernel(case):
    """-> (ground truth recorder, loop ranks, thunk running the loop nest); called before the collection starts"""
    spec = case["spec"]
    tensors, Z, lvars, zl = kernels.build(spec, zinit=spec.get("zinit"))
    _apply_dirty(tensors, case.get("dirty", {}))
    gt = _GT(spec, lvars, zl)
    ranks = [kernels.rid(v) for v in spec["order"]]
    return gt, ranks, lambda: kernels.execute(spec, tensors, Z, lvars, zl, observer=gt, nested_and=case.get("nested_and", True))


def _prep_nest2(case):
    """for m: for k: nest written by hand.  The outer loop is driven by the first operand (optionally under a
    populate of Z) or by a dense by-reference walk of the output (iterShapeRef / iterActiveShapeRef /
    iterRangeShapeRef); the inner operand expressions are built inline or ahead of the collection."""
    M, K = case["M"], case["K"]
    ops = {}
    for name, (dim, ts) in case["ops"].items():
        ids, shape = (["M", "K"], [M, K]) if dim == 2 else (["K"], [K])
        ops[name] = gen.tensor_from_spec(ts, ids, shape=shape, default=0, name=name)
    _apply_dirty(ops, case.get("dirty", {}))
    names = list(case["ops"])
    if case.get("zinit"):
        Z = gen.tensor_from_spec(case["zinit"], ["M", "K"], shape=[M, K], default=0, name="Z", mutable=True)
    else:
        Z = Tensor(rank_ids=["M", "K"], shape=[M, K], name="Z")
    if case.get("zfmt"):
        Z.setFormat("K", "U")
    z_m = Z.getRoot()
    a_m = ops[names[0]].getRoot()
    outer, populate, e = case["outer"], case["populate"], case["expr"]
    lo, hi, step = case.get("range", [0, M, 1])
    ms = list(a_m.coords) if outer == "sparse" else list(range(M))
    fibs = {}
    for m in ms:
        fibs[m] = [ops[n].getRoot().getPayload(m) if case["ops"][n][0] == 2 else ops[n].getRoot() for n in names]
    # operand expressions prepared ahead of the traced loop nest are lazy: nothing is read until they are iterated
    ahead = {m: _build_expr(e, fibs[m]) for m in ms} if case["prepared"] else None
    gt = _GT({"style": "two-finger"}, None, None)
    me = _model_expr(e)

    def run():
        if outer == "sparse":
            gt.start_level("M", [a_m], z_m, populate, [], 0)
            it = (z_m << a_m) if populate else a_m
        else:
            gt.start_dense("M", [])
            it = {"zshape": z_m.iterShapeRef, "zactive": z_m.iterActiveShapeRef,
                  "zrange": lambda: z_m.iterRangeShapeRef(lo, hi, step)}[outer]()
        for m, p in it:
            z_k = None
            if outer != "sparse":
                z_k = p
            elif populate:
                z_k, _ = p
            gt.body(0, "m", m, [m])
            gt.start_level("K", fibs[m], z_k, populate, [m], me)
            co = ahead[m] if ahead is not None else _build_expr(e, fibs[m])
            for k, q in ((z_k << co) if populate else co):
                gt.body(1, "k", k, [m, k])
                if populate:
                    z_ref, q = q
                    if all(v != 0 for v in _flat(q)):
                        z_ref += 100
            gt.level_end(1, "k", [m])
        gt.level_end(0, "m", [])
    return gt, ["M", "K"], run


FORMS = ["file", "mem", "file-then-mem", "mem-then-file"]
THRESHOLDS = [2, 3, 4, 7, 64, 1000]


def _cfg_seed(case):
    """A per-case seed for the trace configuration (which traces, which form, when consumed)."""
    return zlib.crc32(json.dumps(case, sort_keys=True, default=str).encode())


def _subset(ranks, seed):
    """A random subset of the (rank, trace type) pairs and its complement: between them every pair of traces is
    requested once together with and once without the other."""
    r = random.Random(seed)
    keys = [(R, tt) for R in ranks for tt in ALL_TYPES]
    a = {k for k in keys if r.random() < 0.5}
    out = []
    for want in (a, set(keys) - a):
        # (with populate_read_i requested WITHOUT populate_write_i the library did not record the reads of the moves that end
        # an inserting populate until repository fix c54fa5e: key populate_read:inserting:incomplete)
        out.append(want)
    return out


def _run(case, prefix, ncu, consumable, want=None, drain="end", resched=None):
    """Run the case under a collection.  `consumable`: False (every trace on disk), True (in memory), "file-then-mem" /
    "mem-then-file" (both forms, requested in that order) or ("mixed", seed) (form drawn per trace).  `want`: the
    (rank, type) pairs to request (None = all).  `drain`: when the in-memory forms are consumed - "end" (once, after
    the loop nest), "stream" (at every iteration of the outermost loop and after the nest) or "late" (only after
    endCollect() has refused to drop the unconsumed rows; the collection is then ended again).  `resched`: (steps, final) -
    the flush threshold is changed while the collection runs: to steps[i % len(steps)] at the i-th iteration of the
    outermost loop and to `final` (unless None) after the loop nest, before anything is consumed / the collection ends."""
    gt, ranks, thunk = (_prep_nest2 if case["kind"] == "nest2" else _prep_kernel)(case)
    gt.lowered = gt.overfull = 0
    keys = [(r, tt) for r in ranks for tt in ALL_TYPES if want is None or (r, tt) in want]
    if isinstance(consumable, tuple):
        rr = random.Random(consumable[1])
        form = {k: rr.choice(FORMS) for k in keys}
    else:
        form = {k: {False: "file", True: "mem"}.get(consumable, consumable) for k in keys}
    Metrics.setNumCachedUses(ncu)
    Metrics.beginCollect(prefix)
    for r, tt in keys:
        for f in {"file": [False], "mem": [True], "file-then-mem": [False, True], "mem-then-file": [True, False]}[form[(r, tt)]]:
            Metrics.trace(r, type_=tt, consumable=f)
    memkeys = [k for k in keys if form[k] != "file"]
    mem = {k: [] for k in memkeys}

    kept = {k: [] for k in memkeys}

    def consume():
        for r, tt in memkeys:
            batch = Metrics.consumeTrace(r, tt)
            # the rows are copied at once AND the delivered batch is kept, to be read again after the collection
            mem[(r, tt)].extend([str(x) for x in row] for row in batch)
            kept[(r, tt)].append(batch)
    ntap = [0]

    def rethreshold(new):
        # (coverage counters only: was the threshold lowered, and below what some on-disk trace holds unwritten)
        try:
            if new < Metrics.num_cached_uses:
                gt.lowered += 1
                gt.overfull += any(ft is not None and len(ft) > new for d in Metrics.traces.values() for ft, _, _ in d.values())
        except Exception:       # noqa
            pass
        Metrics.setNumCachedUses(new)

    def tap():
        if resched is not None:
            rethreshold(resched[0][ntap[0] % len(resched[0])])
            ntap[0] += 1
        if drain == "stream":
            consume()
    if drain == "stream" or resched is not None:
        gt.tap = tap
    thunk()
    gt.tap = None
    gt.refused = None
    if resched is not None and resched[1] is not None:
        rethreshold(resched[1])
    if drain != "late":
        consume()
        Metrics.endCollect()
    else:
        try:
            Metrics.endCollect()
            gt.refused = False
        except AssertionError:
            # rows nobody consumed yet: read them, then end the collection
            gt.refused = True
            consume()
            Metrics.endCollect()
    # a batch once delivered is the consumer's: read again after the collection it holds what it held when delivered
    gt.batches = sum(len(v) for v in kept.values())
    gt.empty_batches = sum(1 for v in kept.values() for b in v[:-1] if len(b) == 0)
    gt.batch_changed = [k for k in memkeys if [[str(x) for x in row] for b in kept[k] for row in b] != mem[k]]
    files = {}
    for k in keys:
        r, tt = k
        rows = None
        if form[k] != "mem":
            fn = f"{prefix}-{r}-{tt}.csv"
            if os.path.exists(fn):
                with open(fn) as fh:
                    rows = [ln.rstrip("\n").split(",") for ln in fh if ln.strip() != ""]
        if form[k] == "file":
            files[k] = rows
        elif form[k] == "mem":
            files[k] = mem[k]
        else:
            # both forms must hold the same rows; report the in-memory form and flag a difference
            files[k] = rows if (rows or []) == (mem[k] or []) else [["<file and memory differ>"]] + (rows or [])
    return gt, files, ranks


def run_case(case, mon):
    tmp = tempfile.mkdtemp(prefix="fv16-")
    try:
        if case["kind"] == "project":
            _run_project(case, mon, os.path.join(tmp, "p"))
        elif case["kind"] == "tuple":
            _run_tuple(case, mon, os.path.join(tmp, "t"))
        elif case["kind"] == "startpos":
            _run_startpos(case, mon, os.path.join(tmp, "s"))
        elif case["kind"] == "bounded":
            _run_bounded(case, mon, os.path.join(tmp, "b"))
        elif case["kind"] == "stale":
            _run_stale(case, mon, os.path.join(tmp, "r"))
        elif case["kind"] == "project2":
            _run_project2(case, mon, os.path.join(tmp, "q"))
        else:       # "kernel", "nest2"
            _run_kernel(case, mon, os.path.join(tmp, "k"))
    finally:
        try:
            if Metrics.isCollecting():
                Metrics.traces = {}
                Metrics.endCollect()
        except BaseException:   # noqa
            Metrics.collecting = False
        shutil.rmtree(tmp, ignore_errors=True)


def _run_kernel(case, mon, prefix):
    if case["kind"] == "nest2":
        desc = (f"for m ({case['outer']}{case.get('range') if case['outer'] == 'zrange' else ''}): for k in "
                f"{'z_k << ' if case['populate'] else ''}{case['expr']} over {[(n, d) for n, (d, _) in case['ops'].items()]}, "
                f"expressions built {'ahead of' if case['prepared'] else 'inside'} the collection; zinit={bool(case.get('zinit'))} "
                f"zfmt={case.get('zfmt')} dirty={bool(case.get('dirty'))}")
        st = ("nest2", case["outer"], str(case["expr"]), case["populate"], case["prepared"])
    else:
        spec = case["spec"]
        desc = (f"{spec['ops']}->{spec['out']!r} order={spec['order']} tiles={spec['tiles']} fmts={spec.get('fmts')} "
                f"style={spec['style']}{'' if case.get('nested_and', True) else '/Fiber.intersection'} dirty={bool(case.get('dirty'))}")
        st = (str(spec["ops"]), spec["out"])
    try:
        gt, files, ranks = _run(case, prefix, 1000, False)
    except BaseException as e:      # noqa
        if isinstance(e, KeyboardInterrupt):
            raise
        mon.violation(f"traced-kernel:raised:{type(e).__name__}", f"traced kernel {desc} raised {type(e).__name__}: {e}")
        return
    big = _judge(gt, files, ranks, desc, mon, None)
    _variants(case, prefix, files, ranks, desc, mon)
    if big >= 2:
        mon.nontrivial()
    mon.count("nested_intersection_visits", gt.stats["nested"])
    mon.count("leader_follower_visits", gt.stats["lf"])
    mon.count("wide_coiteration_visits", gt.stats["wide"])
    if case["kind"] == "nest2":
        mon.count("dense_ref_outer_nests", int(case["outer"] != "sparse"))
        mon.count("prepared_ahead_nests", int(bool(case["prepared"])))
        mon.count("prepared_ahead_leader_follower_nests", int(bool(case["prepared"]) and _has_lf(case["expr"])))
    mon.state(st + (big,))


def _judge(gt, files, ranks, desc, mon, want):
    """Judge the traces of one collection against the ground truth logged during that very run; `want` = the
    (rank, type) pairs that were requested (None = all).  -> number of traces with at least 2 data rows."""
    big = 0
    for d, R in enumerate(ranks):
        header = [r + "_pos" for r in ranks[:d + 1]] + ranks[:d + 1] + ["fiber_pos"]
        nr = d + 1
        for tt in ALL_TYPES:
            if want is not None and (R, tt) not in want:
                continue
            visits = gt.exp.get((R, tt), [])
            rows = files.get((R, tt))
            n_expected = sum(len(v["rows"]) for v in visits)
            if tt == "iter" and R in gt.dense_driven:
                continue
            if not rows:
                reached = any(v for v in gt.exp.get((R, "iter"), []))
                mon.check(n_expected == 0 or not reached, f"{_tkind(tt)}:missing-rows",
                          f"trace {R}/{tt} is empty but {n_expected} traced accesses happened; {desc}")
                continue
            mon.count("files_checked")
            if not mon.check(rows[0] == header, f"{_tkind(tt)}:header", f"trace {R}/{tt} header {rows[0]} expected {header}; {desc}"):
                continue
            data = []
            bad = False
            for row in rows[1:]:
                if len(row) != 2 * nr + 1:
                    mon.violation(f"{_tkind(tt)}:row-width", f"trace {R}/{tt} row {row} has {len(row)} fields, header has {2 * nr + 1}; {desc}")
                    bad = True
                    break
                try:
                    vals = [int(x) for x in row]
                except ValueError:
                    mon.violation(f"{_tkind(tt)}:row-not-integers", f"trace {R}/{tt} row {row}; {desc}")
                    bad = True
                    break
                data.append((tuple(vals[:nr]), tuple(vals[nr:2 * nr]), vals[-1]))
            if bad:
                continue
            if not data and n_expected:
                mon.violation(f"{_tkind(tt)}:missing-rows", f"trace {R}/{tt} holds its header only but {n_expected} traced accesses happened; {desc}")
                continue
            if len(data) >= 2:
                big += 1
            # stamp order
            strict = tt == "iter"
            for x, y in zip(data, data[1:]):
                ok = x[0] < y[0] if strict else x[0] <= y[0]
                if not ok:
                    mon.violation(f"{_tkind(tt)}:stamp-order", f"trace {R}/{tt}: stamp {x[0]} followed by {y[0]}; {desc}")
                    break
            else:
                mon.count("oracle_evals")
            # the right accesses in the right order, but filed under other coordinates of the enclosing loop ranks
            if not any(v["inserting"] for v in visits):
                want_flat = [(v["prefix"], c) for v in visits for c, _, _ in v["rows"]]
                got_flat = [(pt[:-1], pt[-1]) for _, pt, _ in data]
                if [c for _, c in want_flat] == [c for _, c in got_flat] and want_flat != got_flat:
                    k = [a == b for a, b in zip(want_flat, got_flat)].index(False)
                    mon.violation(f"{_tkind(tt)}:enclosing-coordinates",
                                  f"trace {R}/{tt}: the access to element {want_flat[k][1]} made at {want_flat[k][0]} of the enclosing "
                                  f"ranks is filed under {got_flat[k][0]}; {desc}")
                    continue
            # group rows by loop-point prefix (= one visit of this level)
            groups = []
            for st, pt, pos in data:
                if groups and groups[-1][0] == pt[:-1]:
                    groups[-1][1].append((pt[-1], pos))
                else:
                    groups.append((pt[:-1], [(pt[-1], pos)]))
            exp_groups = [v for v in visits if v["rows"] or v["inserting"]]
            gi = 0
            for v in exp_groups:
                got = None
                if gi < len(groups) and groups[gi][0] == v["prefix"]:
                    got = groups[gi][1]
                    gi += 1
                if v["inserting"]:
                    mon.count("inserting_visits")
                    # complete = one row per access: every kept write / every read of an element that was already
                    # there, and the read and the write of every element moved to its place when the populate ends
                    # (the positions - staging area or not - are not interpreted)
                    have = collections.Counter(c for c, _ in (got or []))
                    need = collections.Counter(c for c, _, _ in v["rows"]) + collections.Counter(v.get("moved", []))
                    missing = sorted((need - have).elements())
                    if tt == "populate_write_0":
                        if mon.check(not missing, "populate_write:inserting:incomplete",
                                     f"trace {R}/{tt} visit {v['prefix']}: kept writes {[c for c, _, _ in v['rows']]} and moved elements "
                                     f"{v.get('moved', [])} need a row each, rows address {sorted(have.elements())}: no row for {missing}; {desc}"):
                            extra = sorted((have - need).elements())
                            mon.check(not extra, "populate_write:inserting:extra-rows",
                                      f"trace {R}/{tt} visit {v['prefix']}: rows {extra} beyond the kept writes {[c for c, _, _ in v['rows']]} "
                                      f"and the moved elements {v.get('moved', [])}; {desc}")
                        mon.count("inserting_moves_judged", len(v.get("moved", [])))
                    elif tt == "populate_read_0":
                        # (the reads made while searching for the place of an insertion are not modelled: no upper bound)
                        mon.check(not missing, "populate_read:inserting:incomplete",
                                  f"trace {R}/{tt} visit {v['prefix']}: reads of existing elements {[c for c, _, _ in v['rows']]} and of moved "
                                  f"elements {v.get('moved', [])} need a row each, rows address {sorted(have.elements())}: no row for {missing}; {desc}")
                    continue
                if not v["rows"]:
                    continue
                mon.count("noninserting_visits")
                want_c = [c for c, _, _ in v["rows"]]
                got_c = [c for c, _ in (got or [])]
                if not mon.check(got_c == want_c, f"{_tkind(tt)}:rows",
                                 f"trace {R}/{tt} visit {v['prefix']}: rows address coordinates {got_c}, traced accesses were {want_c}; {desc}"):
                    continue
                mon.count("rows_matched", len(want_c))
                for (c, pos), (_, raw, ordinal) in zip(got, v["rows"]):
                    if raw is None or pos == raw:       # (a probe that found nothing addresses no element)
                        continue
                    if ordinal is not None and pos == ordinal and raw != ordinal:
                        mon.violation(f"{_tkind(tt)}:position-counts-nonempty-elements-only",
                                      f"trace {R}/{tt} visit {v['prefix']}: element {c} has fiber_pos {pos} (its ordinal among "
                                      f"non-empty elements), its index in the fiber is {raw}; {desc}")
                    else:
                        mon.violation(f"{_tkind(tt)}:position", f"trace {R}/{tt} visit {v['prefix']}: element {c} has fiber_pos {pos}, "
                                                                  f"its index in the fiber is {raw}; {desc}")
                    break
            extra = groups[gi:]
            # groups left over belong to no expected visit (only tolerated for inserting destination traces)
            if extra and not any(v["inserting"] for v in visits):
                mon.violation(f"{_tkind(tt)}:extra-rows", f"trace {R}/{tt}: {sum(len(g[1]) for g in extra)} rows belong to no traced access; {desc}")
    return big


def _variants(case, prefix, files, ranks, desc, mon):
    """The same kernel under other configurations of the collection."""
    seed = _cfg_seed(case)
    rr = random.Random(seed)
    # flush-threshold / consumable invariance: all traces requested, so even the stamps must agree
    for ncu, cons, drain in ((2, False, "end"), (3, False, "end"), (7, False, "end"), (1000, True, "end"), (3, "file-then-mem", "end"),
                             (1000, "mem-then-file", "end"),
                             # form drawn per trace; in-memory forms consumed piecewise while the nest runs, or only after
                             # endCollect() has refused to drop them
                             (rr.choice([2, 3, 5, 1000]), ("mixed", seed), "stream"), (rr.choice([2, 3, 5, 1000]), ("mixed", seed + 1), "late")):
        try:
            g2, f2, _ = _run(case, prefix, ncu, cons, drain=drain)
        except BaseException as e:      # noqa
            if isinstance(e, KeyboardInterrupt):
                raise
            mon.violation(f"flush:raised:{type(e).__name__}:{'consumable' if cons else 'file'}",
                          f"traced kernel raised {type(e).__name__}: {e} with num_cached_uses={ncu} consumable={cons} drain={drain}; {desc}")
            continue
        mon.count("flush_variants_compared")
        _batches(g2, mon, f"num_cached_uses={ncu} consumable={cons} consumed={drain}; {desc}")
        if drain != "end":
            mon.count("piecewise_consumed_collections" if drain == "stream" else "late_drained_collections", int(drain == "stream" or bool(g2.refused)))
        for key, rows in files.items():
            a = rows or []
            b = f2.get(key) or []
            if a != b:
                k = ("flush:threshold-changes-content" if not cons else "flush:consumable-differs" if drain == "end" else
                     "consume-piecewise:changes-content" if drain == "stream" else "consume-after-refused-end:changes-content")
                mon.violation(k, f"trace {key} differs with num_cached_uses={ncu} consumable={cons} consumed={drain}: {len(b)} rows vs {len(a)}; {desc}")
                break
        else:
            mon.count("oracle_evals")
    # the flush threshold may be changed while the collection runs (at any iteration of the outermost loop and after
    # the loop nest): raised or lowered, also below the number of rows a trace currently holds unwritten
    for cons, drain in ((False, "end"), (("mixed", seed + 2), rr.choice(["end", "stream", "late"]))):
        first = rr.choice(THRESHOLDS)
        steps = [rr.choice(THRESHOLDS) for _ in range(rr.randint(1, 4))]
        final = rr.choice([None] + THRESHOLDS[:4])
        try:
            g4, f4, _ = _run(case, prefix, first, cons, drain=drain, resched=(steps, final))
        except BaseException as e:      # noqa
            if isinstance(e, KeyboardInterrupt):
                raise
            mon.violation(f"flush:threshold-changed-during-collection:raised:{type(e).__name__}",
                          f"traced kernel raised {type(e).__name__}: {e} with num_cached_uses={first} changed to {steps} (cyclically, at the "
                          f"iterations of the outermost loop) and to {final} after the nest, consumable={cons} drain={drain}; {desc}")
            continue
        mon.count("threshold_changed_collections")
        _batches(g4, mon, f"num_cached_uses={first} changed to {steps} / {final} consumable={cons} consumed={drain}; {desc}")
        mon.count("threshold_lowered_collections", int(g4.lowered > 0))
        mon.count("threshold_lowered_below_buffered_collections", int(g4.overfull > 0))
        for key, rows in files.items():
            a = rows or []
            b = f4.get(key) or []
            if a != b:
                mon.violation("flush:threshold-changed-during-collection:changes-content",
                              f"trace {key} differs when num_cached_uses={first} is changed to {steps} (cyclically, at the iterations of the "
                              f"outermost loop) and to {final} after the nest (consumable={cons} consumed={drain}): {len(b)} rows vs {len(a)}; {desc}")
                break
        else:
            mon.count("oracle_evals")
    # any subset of the traces may be requested: each requested trace is judged against the ground truth of its own run
    # (stamps depend on what else is traced and are only required to be ordered)
    for want in _subset(ranks, seed):
        if not want:
            continue
        ncu = rr.choice([2, 3, 1000])
        try:
            g3, f3, _ = _run(case, prefix, ncu, False, want=want)
        except BaseException as e:      # noqa
            if isinstance(e, KeyboardInterrupt):
                raise
            mon.violation(f"traced-kernel:raised:{type(e).__name__}", f"traced kernel raised {type(e).__name__}: {e} with traces {sorted(want)} requested; {desc}")
            continue
        mon.count("trace_subsets_judged")
        mon.count("write_without_read_subsets", sum(1 for R in ranks if (R, "populate_write_0") in want and (R, "populate_read_0") not in want
                                                    and any(v["inserting"] for v in g3.exp.get((R, "populate_write_0"), []))))
        _judge(g3, f3, ranks, f"{desc}; traces requested: {sorted(want)}", mon, want)


def _batches(g, mon, desc):
    """The batches consumeTrace() delivered during one collection, read again after the collection ended."""
    mon.count("delivered_batches_reread", g.batches)
    mon.count("empty_batches_followed_by_accesses", g.empty_batches)
    mon.check(not g.batch_changed, "consume:delivered-batch-changes-afterwards",
              f"traces {g.batch_changed}: the batches consumeTrace() delivered, read again after the collection ended, no longer hold "
              f"the rows they held when delivered; {desc}")


def _tkind(tt):
    return tt.rstrip("0123456789").rstrip("_")


def _run_project(case, mon, prefix):
    """z_q << i_w.project(w -> w - shift, interval) traced with project_0 / iter on the source rank."""
    d = 0
    a = Tensor.fromFiber(rank_ids=["W"], fiber=gen.fiber_from_spec(case["a"], d), shape=[12])
    z = Tensor.fromFiber(rank_ids=["Q"], fiber=gen.fiber_from_spec(case["z"], d), shape=[12])
    s = case["shift"]
    iv = tuple(case["interval"])
    i_w = a.getRoot()
    present = [(c, i) for i, (c, p) in enumerate(zip(i_w.coords, i_w.payloads)) if not _is_empty(p)]
    nonempty_ord = {c: k for k, (c, _) in enumerate(present)}
    expected = [(c, i) for c, i in present if iv[0] <= c - s < iv[1]]
    # valid start positions (the documented precondition: everything before it lies below the interval)
    sp = None
    if case.get("sp", "none") != "none" and i_w.coords:
        cands = [k for k in range(len(i_w.coords)) if k == 0 or i_w.coords[k - 1] < iv[0]]
        cands = [k for k in cands if not expected or k <= expected[0][1]]
        if cands:
            sp = cands[case["spr"] % len(cands)]
            mon.count("projections_with_start_pos")
    ne_from_sp = {}
    k = sp or 0
    for c, i in present:
        if i >= (sp or 0):
            ne_from_sp[c] = k
            k += 1
    rows_by = {}
    for ncu, cons in ((1000, False), (2, False), (1000, True)):
        a2 = Tensor.fromFiber(rank_ids=["W"], fiber=gen.fiber_from_spec(case["a"], d), shape=[12])
        z2 = Tensor.fromFiber(rank_ids=["Q"], fiber=gen.fiber_from_spec(case["z"], d), shape=[12])
        try:
            Metrics.setNumCachedUses(ncu)
            Metrics.beginCollect(prefix)
            Metrics.trace("W", type_="project_0", consumable=cons)
            kw = {} if sp is None else {"start_pos": Payload(sp) if case["sp"] == "boxed" else sp}
            lazy = z2.getRoot() << a2.getRoot().project(trans_fn=lambda w: w - s, interval=iv, rank_id="Q", tick=True, **kw)
            for q, (z_ref, i_val) in lazy.iterOccupancy(tick=False):
                z_ref += i_val
            if cons:
                rows = [[str(x) for x in r] for r in Metrics.consumeTrace("W", "project_0")]
            Metrics.endCollect()
            if not cons:
                with open(f"{prefix}-W-project_0.csv") as fh:
                    rows = [ln.rstrip("\n").split(",") for ln in fh if ln.strip()]
        except BaseException as e:      # noqa
            if isinstance(e, KeyboardInterrupt):
                raise
            mon.violation(f"project:raised:{type(e).__name__}", f"projection kernel raised {type(e).__name__}: {e}; {case}")
            return
        rows_by[(ncu, cons)] = rows
    rows = rows_by[(1000, False)]
    mon.count("files_checked")
    if not rows:
        mon.check(not expected, "project:missing-rows", f"project_0 trace empty, expected {expected}")
        return
    if not mon.check(rows[0] == ["W_pos", "W", "fiber_pos"], "project:header", f"header {rows[0]}"):
        return
    try:
        data = [[int(x) for x in r] for r in rows[1:]]
    except ValueError:
        mon.violation("project:row-not-integers", f"project_0 rows hold something else than integers: {rows[1:4]}; start_pos={case.get('sp')}")
        return
    got_c = [r[1] for r in data]
    if mon.check(got_c == [c for c, _ in expected], "project:rows", f"project_0 rows address {got_c}, projected elements are {[c for c, _ in expected]}; {case}"):
        mon.count("project_rows", len(data))
        mon.count("rows_matched", len(data))
        for r, (c, raw) in zip(data, expected):
            if r[2] != raw:
                key = "project:position-counts-nonempty-elements-only" if r[2] in (nonempty_ord.get(c), ne_from_sp.get(c)) else "project:position"
                mon.violation(key, f"project_0 row for element {c}: fiber_pos {r[2]}, index in the fiber {raw}; {case}")
                break
    for x, y in zip(data, data[1:]):
        if not x[0] <= y[0]:
            mon.violation("project:stamp-order", f"stamp {x[0]} followed by {y[0]}")
            break
    for k, v in rows_by.items():
        mon.count("flush_variants_compared")
        mon.check(v == rows, "flush:consumable-differs" if k[1] else "flush:threshold-changes-content",
                  f"project trace differs with num_cached_uses={k[0]} consumable={k[1]}")
    if len(data) >= 2:
        mon.nontrivial()
    mon.state(("project", len(data)))


def _run_project2(case, mon, prefix):
    """for m: [for n:] for j in a_k.project(k -> k + shift, interval, rank_id="J"): a projected fiber is built anew in
    every iteration of the enclosing loops; traces: iter of every loop rank, project_0 of the source rank K."""
    ext = case["ext"]
    outer = ["M", "N"][:len(ext) - 1]
    s, iv = case["shift"], case["interval"]
    loop = outer + ["J"]
    keys = [(r, "iter") for r in loop] + [("K", "project_0")]

    def walk(f, d, point, exp):
        """ground truth from the raw lists"""
        if d == len(outer):
            k_ord = 0
            ne = -1
            for i, (k, p) in enumerate(zip(f.coords, f.payloads)):
                if _is_empty(p):
                    continue
                ne += 1         # (ordinal among the non-empty elements: what the known finding reports instead of i)
                j = k + s
                if iv is not None and j >= iv[1]:
                    break
                if iv is None or j >= iv[0]:
                    exp[("K", "project_0")].append((tuple(point) + (k,), i, ne))
                    exp[("J", "iter")].append((tuple(point) + (j,), k_ord, k_ord))
                    k_ord += 1
            return
        for i, (c, sub) in enumerate(zip(f.coords, f.payloads)):
            if _is_empty(sub):
                continue
            exp[(outer[d], "iter")].append((tuple(point) + (c,), i, None))
            walk(sub, d + 1, point + [c], exp)

    def run(ncu, form, drain):
        A = gen.tensor_from_spec(case["a"], outer + ["K"], shape=ext, default=0, name="A")
        exp = {k: [] for k in keys}
        walk(A.getRoot(), 0, [], exp)
        mem = {k: [] for k in keys}

        def consume():
            if form == "mem":
                for r, tt in keys:
                    mem[(r, tt)].extend([str(x) for x in row] for row in Metrics.consumeTrace(r, tt))

        def nest(f, d):
            if d == len(outer):
                for j, v in f.project(trans_fn=lambda k: k + s, interval=tuple(iv) if iv else None, rank_id="J"):
                    pass
                return
            for c, sub in f:
                if drain == "stream" and d == 0:
                    consume()
                nest(sub, d + 1)
        Metrics.setNumCachedUses(ncu)
        Metrics.beginCollect(prefix)
        for r, tt in keys:
            Metrics.trace(r, type_=tt, consumable=(form == "mem"))
        nest(A.getRoot(), 0)
        consume()
        Metrics.endCollect()
        if form == "mem":
            return exp, mem
        return exp, {(r, tt): _read_csv(f"{prefix}-{r}-{tt}.csv") or [] for r, tt in keys}

    out = {}
    for ncu, form, drain in ((1000, "file", "end"), (2, "file", "end"), (3, "file", "end"), (7, "file", "end"), (1000, "mem", "end"), (1000, "mem", "stream")):
        try:
            exp, out[(ncu, form, drain)] = run(ncu, form, drain)
        except BaseException as e:      # noqa
            if isinstance(e, KeyboardInterrupt):
                raise
            mon.violation(f"project:inner-loop:raised:{type(e).__name__}", f"projection in the inner loop of a nest raised {type(e).__name__}: {e}; {case}")
            return
    base = out[(1000, "file", "end")]
    mon.count("inner_loop_projection_nests")
    big = 0
    for d, R in enumerate(loop + ["K"]):
        tt = "iter" if R != "K" else "project_0"
        kind = "iter" if R != "K" else "project"
        upto = loop[:d + 1] if R != "K" else loop       # the source rank is matched to the loop rank J
        header = [r + "_pos" for r in upto] + upto + ["fiber_pos"]
        rows, want = base[(R, tt)], exp[(R, tt)]
        mon.count("files_checked")
        if not rows:
            mon.check(not want, f"{kind}:missing-rows", f"inner-loop projection: trace {R}/{tt} is empty but {len(want)} traced accesses happened; {case}")
            continue
        if not mon.check(rows[0] == header, f"{kind}:header", f"inner-loop projection: trace {R}/{tt} header {rows[0]} expected {header}; {case}"):
            continue
        if not mon.check(header not in rows[1:], f"{kind}:header-repeated", f"inner-loop projection: trace {R}/{tt} holds its header more than once; {case}"):
            continue
        try:
            data = [[int(x) for x in r] for r in rows[1:]]
        except ValueError:
            mon.violation(f"{kind}:row-not-integers", f"inner-loop projection: trace {R}/{tt} rows {rows[1:4]}; {case}")
            continue
        nr = len(upto)
        if not mon.check(all(len(r) == 2 * nr + 1 for r in data), f"{kind}:row-width", f"inner-loop projection: trace {R}/{tt} rows {rows[1:4]}; {case}"):
            continue
        got_c = [tuple(r[nr:2 * nr]) for r in data]
        if mon.check(got_c == [w[0] for w in want], f"{kind}:rows",
                     f"inner-loop projection: trace {R}/{tt} rows address {got_c[:8]}, traced accesses were {[w[0] for w in want][:8]}; {case}"):
            mon.count("rows_matched", len(data))
            if R == "K":
                mon.count("inner_loop_project_rows", len(data))
            for r, (c, raw, ordinal) in zip(data, want):
                if r[-1] != raw:
                    key = f"{kind}:position-counts-nonempty-elements-only" if r[-1] == ordinal else f"{kind}:position"
                    mon.violation(key, f"inner-loop projection: trace {R}/{tt} row for element {c}: fiber_pos {r[-1]}, index in the fiber {raw}; {case}")
                    break
        st = [tuple(r[:nr]) for r in data]
        mon.check(all((a < b) if tt == "iter" else (a <= b) for a, b in zip(st, st[1:])), f"{kind}:stamp-order",
                  f"inner-loop projection: stamps of trace {R}/{tt} not ordered: {st[:10]}; {case}")
        if len(data) >= 2:
            big += 1
    for (ncu, form, drain), v in out.items():
        mon.count("flush_variants_compared")
        key = ("flush:threshold-changes-content" if form == "file" else "flush:consumable-differs" if drain == "end" else "consume-piecewise:changes-content")
        bad = [k for k in keys if (v[k] or []) != (base[k] or [])]
        mon.check(not bad, key, f"inner-loop projection: traces {bad} differ with num_cached_uses={ncu} form={form} consumed={drain} "
                                f"({[len(v[k] or []) for k in bad]} rows vs {[len(base[k] or []) for k in bad]}); {case}")
    if big >= 2:
        mon.nontrivial()
    mon.state(("project2", len(ext), bool(iv), len(exp[("K", "project_0")])))


def _run_tuple(case, mon, prefix):
    """Loop nest whose outer rank has tuple coordinates (flattened M,K registered with associateShape)."""
    M, K, N = case["ext"]
    t = Tensor.fromUncompressed(rank_ids=["M", "K", "N"], root=case["nest"], shape=[M, K, N])
    tf = t.flattenRanks(depth=0, levels=1)
    tf.setRankIds(["MK", "N"])
    root = tf.getRoot()
    exp_mk, exp_n = [], []
    for i, (c, f) in enumerate(zip(root.coords, root.payloads)):
        if _is_empty(f):
            continue
        lin = c[0] * K + c[1]
        exp_mk.append((lin, i))
        for j, (n, p) in enumerate(zip(f.coords, f.payloads)):
            if not _is_empty(p):
                exp_n.append((lin, n, j))
    out = {}
    for cons in (False, True):
        try:
            Metrics.setNumCachedUses(3)
            Metrics.beginCollect(prefix)
            Metrics.associateShape("MK", (M, K))
            Metrics.trace("MK", type_="iter", consumable=cons)
            Metrics.trace("N", type_="iter", consumable=cons)
            for mk, t_n in root:
                for n, v in t_n:
                    pass
            rows = {}
            if cons:
                for r in ("MK", "N"):
                    rows[r] = [[str(x) for x in row] for row in Metrics.consumeTrace(r, "iter")]
            Metrics.endCollect()
            if not cons:
                for r in ("MK", "N"):
                    with open(f"{prefix}-{r}-iter.csv") as fh:
                        rows[r] = [ln.rstrip("\n").split(",") for ln in fh if ln.strip()]
        except BaseException as e:      # noqa
            if isinstance(e, KeyboardInterrupt):
                raise
            mon.violation(f"tuple-rank:raised:{type(e).__name__}", f"loop nest over a tuple-coordinate rank raised {type(e).__name__}: {e}; {case}")
            return
        out[cons] = rows
    rows = out[False]
    mon.count("files_checked", 2)
    if not exp_mk:
        return
    ok = mon.check(rows["MK"][:1] == [["MK_pos", "MK", "fiber_pos"]] and rows["N"][:1] == [["MK_pos", "N_pos", "MK", "N", "fiber_pos"]],
                   "iter:header", f"tuple-rank headers {rows['MK'][:1]} {rows['N'][:1]}")
    if ok:
        got_mk = [(r[1], r[2]) for r in rows["MK"][1:]]
        mon.check(got_mk == [(str(a), str(b)) for a, b in exp_mk], "iter:rows:tuple-rank",
                  f"MK iter rows (coord, pos) {got_mk}, expected {exp_mk} (tuple coordinates linearised by the associated shape)")
        got_n = [tuple(r[2:]) for r in rows["N"][1:]] if all(len(r) == 5 for r in rows["N"][1:]) else [tuple(r) for r in rows["N"][1:]]
        mon.check(got_n == [(str(a), str(b), str(c)) for a, b, c in exp_n], "iter:rows:below-tuple-rank",
                  f"N iter rows (MK, N, pos) {got_n[:6]}, expected {exp_n[:6]}")
        mon.count("rows_matched", len(exp_n) + len(exp_mk))
    mon.count("flush_variants_compared")
    mon.check(out[True] == rows, "flush:consumable-differs", "tuple-rank traces differ between file and consumable mode")
    if len(exp_n) >= 2:
        mon.nontrivial()
    mon.state(("tuple", len(exp_n)))


def _read_csv(fn):
    if not os.path.exists(fn):
        return None
    with open(fn) as fh:
        return [ln.rstrip("\n").split(",") for ln in fh if ln.strip()]


def _run_startpos(case, mon, prefix):
    """`iter` trace of one fiber iterated from a saved position: rows address the raw index of each element."""
    t = Tensor.fromFiber(rank_ids=["K"], fiber=gen.fiber_from_spec(case["f"], 0), shape=[12])
    f = t.getRoot()
    mode = case["mode"]
    s_, e_ = (case["s"], case["e"]) if mode == "iterRange" else ((None, None) if mode != "iterActive" else f.getActive())
    elems = [(c, i) for i, (c, p) in enumerate(zip(f.coords, f.payloads)) if not _is_empty(p)]
    inr = [(c, i) for c, i in elems if (s_ is None or c >= s_) and (e_ is None or c < e_)]
    # valid start positions: no element that must be yielded lies before it
    first = inr[0][1] if inr else len(f.coords) - 1
    cands = [p for p in range(0, max(first, 0) + 1) if p < len(f.coords)]
    if not cands:
        return
    sp = cands[case["r"] % len(cands)]
    out = {}
    for cons in (False, True):
        try:
            Metrics.setNumCachedUses(2)
            Metrics.beginCollect(prefix)
            Metrics.trace("K", type_="iter", consumable=cons)
            if mode == "iterOccupancy":
                it = f.iterOccupancy(start_pos=sp)
            elif mode == "iterRange":
                it = f.iterRange(s_, e_, start_pos=sp)
            elif mode == "iterActive":
                it = f.iterActive(start_pos=sp)
            else:
                it = f.__iter__(start_pos=sp)
            for c, p in it:
                pass
            rows = [[str(x) for x in r] for r in Metrics.consumeTrace("K", "iter")] if cons else None
            Metrics.endCollect()
            if not cons:
                rows = _read_csv(f"{prefix}-K-iter.csv")
        except BaseException as e:      # noqa
            if isinstance(e, KeyboardInterrupt):
                raise
            mon.violation(f"iter:start_pos:raised:{type(e).__name__}", f"{mode}(start_pos={sp}) under an iter trace raised {type(e).__name__}: {e}; {case}")
            return
        out[cons] = rows or []
    rows = out[False]
    mon.count("files_checked")
    mon.count("startpos_traces")
    if not rows:
        mon.check(not inr, "iter:missing-rows", f"{mode}(start_pos={sp}): iter trace empty, {len(inr)} elements were yielded")
        return
    if mon.check(rows[0] == ["K_pos", "K", "fiber_pos"], "iter:header", f"header {rows[0]}"):
        got = [(r[1], r[2]) for r in rows[1:]]
        want = [(str(c), str(i)) for c, i in inr]
        if mon.check([g[0] for g in got] == [w[0] for w in want], "iter:rows", f"{mode}(start_pos={sp}): rows address {[g[0] for g in got]}, yielded {[w[0] for w in want]}"):
            mon.count("rows_matched", len(want))
            mon.check(got == want, "iter:position:start_pos", f"{mode}(start_pos={sp}): (coord, fiber_pos) rows {got}, raw indices {want}; fiber coords {f.coords}")
        st = [int(r[0]) for r in rows[1:]]
        mon.check(all(a < b for a, b in zip(st, st[1:])), "iter:stamp-order", f"iter stamps {st} not strictly increasing")
    mon.count("flush_variants_compared")
    mon.check(out[True] == rows, "flush:consumable-differs", "start_pos trace differs between file and consumable mode")
    if len(rows) >= 3:
        mon.nontrivial()
    mon.state(("startpos", mode, len(rows)))


def _run_bounded(case, mon, prefix):
    """for m: for k in (a_k & b_k).iterRange(lo, hi): the inner loop may stop before the operands are exhausted."""
    A = gen.tensor_from_spec(case["a"], ["M", "K"], shape=[case["M"], case["K"]], default=0)
    B = gen.tensor_from_spec(case["b"], ["K"], shape=[case["K"]], default=0)
    lo, hi = case["lo"], case["hi"]
    a_m, b_k = A.getRoot(), B.getRoot()
    exp = {"iter": [], "intersect_0": [], "intersect_1": [], "m": []}
    pb = _present(b_k)
    for mi, (m, a_k) in enumerate(zip(a_m.coords, a_m.payloads)):
        if _is_empty(a_k):
            continue
        exp["m"].append((m, mi))
        pa = _present(a_k)
        i = j = 0
        nmatch = 0
        ended_early = False
        while i < len(pa) and j < len(pb):
            if pa[i][0] == pb[j][0]:
                exp["intersect_0"].append((m, pa[i][0], pa[i][1]))
                exp["intersect_1"].append((m, pb[j][0], pb[j][1]))
                c = pa[i][0]
                if c >= hi:
                    ended_early = True
                    break
                if c >= lo:
                    exp["iter"].append((m, c, nmatch))
                nmatch += 1
                i += 1
                j += 1
            elif pa[i][0] < pb[j][0]:
                exp["intersect_0"].append((m, pa[i][0], pa[i][1]))
                i += 1
            else:
                exp["intersect_1"].append((m, pb[j][0], pb[j][1]))
                j += 1
        if not ended_early:
            if i < len(pa):
                exp["intersect_0"].append((m, pa[i][0], pa[i][1]))
            if j < len(pb):
                exp["intersect_1"].append((m, pb[j][0], pb[j][1]))
    try:
        Metrics.setNumCachedUses(3)
        Metrics.beginCollect(prefix)
        for tt in ("iter", "intersect_0", "intersect_1"):
            Metrics.trace("K", type_=tt)
        Metrics.trace("M", type_="iter")
        for m, a_k in a_m:
            for k, (av, bv) in (a_k & b_k).iterRange(lo, hi):
                pass
        Metrics.endCollect()
    except BaseException as e:      # noqa
        if isinstance(e, KeyboardInterrupt):
            raise
        mon.violation(f"bounded:raised:{type(e).__name__}", f"bounded inner loop raised {type(e).__name__}: {e}; {case}")
        return
    mon.count("bounded_nests")
    big = 0
    for tt in ("iter", "intersect_0", "intersect_1"):
        rows = _read_csv(f"{prefix}-K-{tt}.csv") or []
        mon.count("files_checked")
        want = exp[tt]
        if not rows:
            mon.check(not want or not exp["m"], f"{_tkind(tt)}:missing-rows", f"bounded nest: trace K/{tt} empty, {len(want)} accesses happened; {case}")
            continue
        if not mon.check(rows[0] == ["M_pos", "K_pos", "M", "K", "fiber_pos"], f"{_tkind(tt)}:header", f"bounded nest header {rows[0]}"):
            continue
        got = [(r[2], r[3], r[4]) for r in rows[1:] if len(r) == 5]
        w = [(str(a), str(b), str(c)) for a, b, c in want]
        if mon.check([g[:2] for g in got] == [x[:2] for x in w], f"{_tkind(tt)}:rows:bounded-range",
                     f"bounded nest (range [{lo},{hi})): trace K/{tt} rows address {[g[:2] for g in got]}, traced accesses were {[x[:2] for x in w]}; {case}"):
            mon.count("rows_matched", len(w))
            mon.check(got == w, f"{_tkind(tt)}:position", f"bounded nest: trace K/{tt} rows {got}, expected {w}")
        st = [tuple(int(x) for x in r[:2]) for r in rows[1:] if len(r) == 5]
        okst = all((a < b) if tt == "iter" else (a <= b) for a, b in zip(st, st[1:]))
        mon.check(okst, f"{_tkind(tt)}:stamp-order", f"bounded nest: stamps of K/{tt} not ordered: {st}")
        if len(rows) >= 3:
            big += 1
    if big >= 2:
        mon.nontrivial()
    mon.state(("bounded", len(exp["iter"]), len(exp["intersect_0"])))


def _run_stale(case, mon, prefix):
    """Two collections with the same prefix; the traces of the second describe the second only - whatever the first one did
    (an ordinary nest or a projection-driven loop, which matches ranks) and however it ended (normally, abandoned after a
    refused endCollect(), abandoned without endCollect())."""
    first = case.get("first") or {"kind": "nest", "end": "normal"}
    info = {"refused": False, "mem": {}}

    def finish(end):
        if end == "never":
            return
        try:
            Metrics.endCollect()
        except AssertionError:
            # an in-memory trace nobody read: the collection is abandoned as it is
            info["refused"] = True

    def earlier():
        lazy = first["end"] == "refused"
        Metrics.setNumCachedUses(1000)
        Metrics.beginCollect(prefix)
        if first["kind"] == "project":
            src, dst = first["ranks"]
            P = Tensor.fromFiber(rank_ids=[src], fiber=gen.fiber_from_spec(first["p"], 0), shape=[12])
            Metrics.trace(src, type_="project_0", consumable=lazy)
            sh = first["shift"]
            for c, v in P.getRoot().project(trans_fn=lambda x: x + sh, rank_id=dst):
                pass
        else:
            A = gen.tensor_from_spec(case["a1"], ["M", "K"], shape=[case["M"], case["K"]], default=0)
            Metrics.trace("M", type_="iter")
            Metrics.trace("K", type_="iter", consumable=lazy)
            for m, a_k in A.getRoot():
                for k, v in a_k:
                    pass
        finish(first["end"])

    def nest(spec, order, ncu):
        A = gen.tensor_from_spec(spec, ["M", "K"], shape=[case["M"], case["K"]], default=0)
        exp = {"M": [], "K": []}
        a_m = A.getRoot()
        for mi, (m, a_k) in enumerate(zip(a_m.coords, a_m.payloads)):
            if _is_empty(a_k):
                continue
            exp["M"].append((str(m), str(mi)))
            for ki, (k, v) in enumerate(zip(a_k.coords, a_k.payloads)):
                if not _is_empty(v):
                    exp["K"].append((str(m), str(k), str(ki)))
        Metrics.setNumCachedUses(ncu)
        Metrics.beginCollect(prefix)
        for r in ("M", "K"):
            if order == "file":
                Metrics.trace(r, type_="iter")
            elif order == "mem-then-file":
                Metrics.trace(r, type_="iter", consumable=True)
                Metrics.trace(r, type_="iter")
            else:
                Metrics.trace(r, type_="iter")
                Metrics.trace(r, type_="iter", consumable=True)
        for m, a_k in a_m:
            for k, v in a_k:
                pass
        if order != "file":
            for r in ("M", "K"):
                # consumable traces must be drained before the collection ends
                info["mem"][r] = [[str(x) for x in row] for row in Metrics.consumeTrace(r, "iter")]
        Metrics.endCollect()
        return exp
    try:
        earlier()
        exp = nest(case["a2"], case["order"], case["ncu"])
    except BaseException as e:      # noqa
        if isinstance(e, KeyboardInterrupt):
            raise
        mon.violation(f"second-collection:raised:{type(e).__name__}", f"second collection under the same prefix raised {type(e).__name__}: {e}; {case}")
        return
    mon.count("stale_file_sessions")
    abandoned = first["end"] == "never" or info["refused"]
    mon.count("abandoned_first_collections", int(abandoned))
    matching = first["kind"] == "project" and set(first["ranks"]) == {"M", "K"}
    mon.count("first_collections_matching_loop_ranks", int(matching))
    mon.count("abandoned_first_collections_matching_loop_ranks", int(matching and abandoned))
    hist = (f"after an earlier collection under the same prefix ({first['kind']}"
            f"{' ' + '->'.join(first['ranks']) if first['kind'] == 'project' else ''}, ended: {first['end']}"
            f"{'/refused' if info['refused'] else ''}; traces of the later one requested {case['order']})")
    for r, ncol in (("M", 1), ("K", 2)):
        rows = _read_csv(f"{prefix}-{r}-iter.csv") or []
        mon.count("files_checked")
        want = exp[r]
        if not want:
            mon.count("stale_files_expected_rowless")
        header = [x + "_pos" for x in ("M", "K")[:ncol]] + list(("M", "K")[:ncol]) + ["fiber_pos"]
        if rows or want:
            # the trace starts with the header naming the later collection's loop ranks, and holds it once
            if not mon.check(rows[:1] == [header], "iter:header:after-earlier-collection",
                             f"{hist}: file {r}/iter starts with {rows[:1]}, header expected {header}"):
                continue
            if not mon.check(all(len(x) == 2 * ncol + 1 and x != header for x in rows[1:]), "iter:header-repeated-or-row-width:after-earlier-collection",
                             f"{hist}: file {r}/iter holds rows that are no data rows: {[x for x in rows[1:] if len(x) != 2 * ncol + 1 or x == header][:3]}"):
                continue
        data = rows[1:]
        got = [tuple(x[ncol:]) for x in data]
        if mon.check(got == want, "iter:rows:second-collection-same-prefix",
                     f"{hist}: file {r}/iter holds rows {got[:6]}, the second collection's accesses were {want[:6]}"):
            mon.count("rows_matched", len(want))
        if r in info["mem"]:
            mon.count("flush_variants_compared")
            mon.check((info["mem"][r] or []) == rows, "flush:consumable-differs",
                      f"{hist}: in-memory trace {r}/iter delivers {info['mem'][r][:4]}, the file holds {rows[:4]}")
    if len(exp["K"]) >= 2:
        mon.nontrivial()
    mon.state(("stale", case["order"], first["kind"], first["end"], len(exp["K"])))
