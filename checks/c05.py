"""C05 - populate (z << a) offers exactly a's coordinates and keeps only what was written.

Monitor: executable model of populate over content maps, run in lock-step with the real loop.  The
loop body is a deterministic action table (assign / accumulate / leave / write the default / recurse)
shared by the real body and the model.  Observation points: every yield to the body (sequence, payload
identity, the reference shows z's current value and aliases z's storage, WF and RC hold) and the end of
the loop (content = old content overridden by the writes, nothing left behind for coordinates left at
the default, coordinates outside a untouched down to box identity, a and its tensor unchanged).
"""
import random

from fibertree import Fiber, Payload, Tensor

from fvmon import gen
from fvmon.observe import content, snap, unbox, RC, WF, rc_kind, wf_kind

SPEC = {
    "anchors": ["fibertree.core.iterators:__lshift__", "fibertree.core.fiber:Fiber._create_payload", "fibertree.core.rank:Rank.pop", "fibertree.core.fiber:Fiber.setActive"],
    "rule": ("case = destination tree x source tree of depth 1-3 (destination empty / disjoint / overlapping / superset, "
             "holding explicit defaults and empty sub-fibers, free (depth 1) or tensor-owned; source compressed, "
             "U-format at the top or an interior rank, or lazy (a1 & a2, project)), default 0 or 7, with a "
             "deterministic per-coordinate action table per level; systematic part: every 3-state destination x "
             "3-state source over 3 coordinates x every action table over the offered coordinates.  Non-trivial = "
             "at least 2 coordinates offered, at least one kept write and at least one offered coordinate left at "
             "the default; distinct = distinct case."),
    "shards": {"quick": 16, "thorough": 16},
    "min_counts": {"quick": {"evaluations": 1000, "populates_with_start_pos": 800, "populates_with_nonzero_start_pos": 40, "yields_checked": 5000, "loops_checked": 1500, "removed_checked": 1000,
                             "untouched_checked": 1000, "nested_loops": 300, "later_passes": 500,
                             "reused_populate_objects": 200, "snapshots_taken": 200, "uformat_destinations": 300, "subfibers_assigned_whole": 300, "existing_leaf_left_at_default_checked": 1000, "nodefault_rejections": 60, "destinations_built_with_initial": 100, "uformat_sources_storing_nothing": 60, "free_uformat_sources": 50}},
    "assumptions": [
        "pre-existing explicit defaults of z that the body leaves alone may stay or be removed (only content is compared for them)",
        "bodies that break / raise are judged on WF and RC only",
        "z's active range after the loop is C14's, not compared here",
        "integer leaf values",
    ],
}

ACTS = ["assign", "accumulate", "leave", "default", "assign", "accumulate", "leave"]


def _act(seed, level, prefix, c, leaf):
    h = (seed * 1000003 + level * 7919 + hash_pt(prefix) * 31 + c * 131) % 1009
    if leaf:
        return ACTS[h % len(ACTS)], 1 + h % 4
    return ("leave" if h % 4 == 0 else ("assign-fiber" if h % 4 == 1 else "recurse")), 0


def hash_pt(p):
    x = 7
    for c in p:
        x = (x * 37 + c + 1) % 100003
    return x


def generate(rng, tier, shard, nshards, mon):
    # systematic: 3-state destination x 3-state source over 3 coords x explicit action tables (4^k)
    idx = 0
    n = 3
    for vz in gen.all_state_vectors(n):
        for va in gen.all_state_vectors(n):
            offered = [i for i, s in enumerate(va) if s >= 2]
            for tab in range(4 ** len(offered)):
                if idx % nshards == shard:
                    table = {}
                    x = tab
                    for c in offered:
                        table[str(c)] = ["assign", "accumulate", "leave", "default"][x % 4]
                        x //= 4
                    yield {"kind": "sys", "z": gen.states_to_leaf_spec(vz), "a": gen.states_to_leaf_spec(va, values=[4, 6, 9]),
                           "default": 0, "table": table, "own": ["free", "tensor"][idx % 2]}
                idx += 1
    mon.exhaustive["3state-3coords-all-tables"] = True
    nrand = (4000 if tier == "quick" else 200000) // nshards
    for _ in range(nrand):
        depth = rng.choice([1, 1, 2, 2, 3])
        default = rng.choice([0, 0, 7, 0.5, -1.25])
        ext = [rng.randint(1, 5) for _ in range(depth)]
        src = rng.choice(["eager", "eager", "tensor", "U-top", "U-mid", "lazy-and", "project", "U-free", "U-all"])
        if depth > 1 and src == "U-free":
            src = "U-top"
        if depth == 1 and src == "U-mid":
            src = "U-top"
        if depth > 1 and src in ("lazy-and", "project"):
            src = "tensor"
        if _ % 23 == 7:
            # a destination that has no empty value (default None): an offered coordinate it lacks cannot be created - the loop is
            # rejected there and must leave z as it was (plus what the body wrote before)
            e = rng.randint(2, 6)
            yield {"kind": "nodefault", "z": gen.rand_leaf_spec(rng, e, 0.5, 0.0, 0), "a": gen.rand_leaf_spec(rng, e, 0.7, 0.0, 0),
                   "seed": rng.randrange(1 << 20), "default": None}
            continue
        if src == "U-all" and rng.random() < 0.5:
            a_dens = 0.0        # a source tensor that stores nothing at all: every level presents its whole (declared) range
        else:
            a_dens = None
        case = {"kind": "rand", "depth": depth, "ext": ext, "default": default, "seed": rng.randrange(1 << 20),
                "z": gen.rand_tree_spec(rng, ext, rng.choice([0.0, 0.3, 0.7]), rng.choice([0, 0.5]), default),
                "a": gen.rand_tree_spec(rng, ext, rng.choice([0.3, 0.6, 0.9]) if a_dens is None else a_dens, rng.choice([0, 0.4]) if a_dens is None else 0.0, default),
                "a2": gen.rand_leaf_spec(rng, ext[0], 0.7, 0.1, default), "src": src,
                "own": "free" if depth == 1 and rng.random() < 0.4 else "tensor",
                # a free destination built from coordinates and one initial value (Fiber(coords, initial=v))
                "zinitial": rng.choice([None, None, 3, default]),
                "stop": rng.choice([None] * 8 + ["break", "raise"]), "at": rng.randint(0, 3),
                # the same destination driven through several loops; the populate object may be built once and reused;
                # a snapshot (Tensor.fromFiber on the owned root) may be taken between two loops
                # declared formats of the destination's ranks (what stays behind must not depend on them)
                # the body may take an offered sub-fiber over as a whole (z_n <<= a_n) instead of descending into it
                "assign_sub": rng.random() < 0.5,
                "zfmts": [rng.choice("CU") for _ in range(depth)] if rng.random() < 0.3 else None,
                "passes": rng.choice([1, 1, 2, 3]), "hoist": rng.random() < 0.5, "snapshot": rng.random() < 0.5}
        yield case


class _Stop(Exception):
    pass


class _Bad(Exception):
    """first violation inside a loop: the rest of the case is tainted"""


def _is_empty(p, d):
    if isinstance(p, Fiber):
        return content(p, d) == {}
    return unbox(p) == d


def _present(f, d, fmt, extent=None):
    if fmt == "U":
        # the declared extent of the rank when the caller knows it (never the library's own answer for a fiber it synthesised)
        lo, hi = (0, extent) if extent is not None else f.getActive()
        st = dict(zip(f.coords, f.payloads))
        return [(c, st.get(c)) for c in range(lo, hi)]
    return [(c, p) for c, p in zip(f.coords, f.payloads) if not _is_empty(p, d)]


def _run_nodefault(case, mon):
    z = Fiber([c for c, _ in case["z"]], [v for _, v in case["z"]], default=None)
    a = Fiber([c for c, _ in case["a"]], [v for _, v in case["a"]])
    model = {c: v for c, v in case["z"]}
    lacking = [c for c, _ in case["a"] if c not in model]
    mon.count("nodefault_destinations")
    rejected = None
    try:
        for c, (z_ref, a_val) in z << a:
            z_ref += a_val
            model[c] = model[c] + unbox(a_val)
    except AssertionError as e:
        rejected = e
    except BaseException as e:      # noqa
        if isinstance(e, KeyboardInterrupt):
            raise
        mon.violation(f"populate:no-default:raised:{type(e).__name__}", f"populate into a fiber without a default raised {type(e).__name__}: {e}")
        return
    mon.count("oracle_evals")
    if lacking:
        mon.count("nodefault_rejections")
        if not mon.check(rejected is not None, "populate:no-default:created-an-element", f"z has no default but coordinate {lacking[0]} was created: {z!r}"):
            return
    pw = WF(z)
    if pw:
        mon.violation(f"wf:{'+'.join(sorted({wf_kind(p) for p in pw}))}:after-rejected-populate", f"destination not well-formed after the rejected loop: {pw[:2]}")
        return
    got = {c: unbox(p) for c, p in zip(z.coords, z.payloads)}
    mon.check(got == model, "populate:no-default:content", f"after the {'rejected ' if rejected else ''}loop z holds {got}, expected {model}")
    if lacking and len(model) >= 1:
        mon.nontrivial()
    mon.state(("nodefault", len(lacking), len(model)))


def run_case(case, mon):
    if case.get("kind") == "nodefault":
        _run_nodefault(case, mon)
        return
    d = case["default"]
    if case["kind"] == "sys":
        depth, src, seed = 1, "eager", 0
        table = case["table"]
    else:
        depth, src, seed = case["depth"], case["src"], case["seed"]
        table = None
    ids = gen.rank_ids_for(depth)
    shape = [e + 1 for e in case.get("ext", [4])] if case["kind"] == "rand" else [4]
    # destination
    if case["own"] == "free" and case.get("zinitial") is not None and case["z"] and depth == 1:
        zv = case["zinitial"]
        case = dict(case, z=[[c, zv] for c, _ in case["z"]])
        zt, z = None, Fiber(coords=[c for c, _ in case["z"]], initial=zv, default=d, shape=shape[0])
        mon.count("destinations_built_with_initial")
    elif case["own"] == "free":
        zt, z = None, gen.fiber_from_spec(case["z"], d, shape=shape[0])
    else:
        zt = gen.tensor_from_spec(case["z"], ids, shape=shape, default=d, fmts=case.get("zfmts"))
        if case.get("zfmts") and "U" in case["zfmts"]:
            mon.count("uformat_destinations")
        z = zt.getRoot()
    # source
    at, fmts = None, ["C"] * depth
    if src in ("eager", "lazy-and", "project", "U-free"):
        a = gen.fiber_from_spec(case["a"], d, shape=shape[0])
        if src == "U-free":
            # a free-standing source declared uncompressed through its own attributes
            a.getRankAttrs().setFormat("U")
            fmts[0] = "U"
            mon.count("free_uformat_sources")
    else:
        if src == "U-all":
            fmts = ["U"] * depth
            if not case["a"]:
                mon.count("uformat_sources_storing_nothing")
        elif src == "U-top":
            fmts[0] = "U"
        elif src == "U-mid":
            fmts[1 if depth > 2 else 0] = "U"
            if depth > 2:
                fmts[1] = "U"
        at = gen.tensor_from_spec(case["a"], ids, shape=shape, default=d, fmts=fmts)
        a = at.getRoot()
    a_watch = [at if at is not None else a]
    lazy = None
    if src == "lazy-and":
        a2 = gen.fiber_from_spec(case["a2"], d, shape=shape[0])
        a_watch.append(a2)
        lazy = ("and", a, a2)
        source = a & a2
    elif src == "project":
        lazy = ("project", a)
        source = a.project(trans_fn=lambda c: c + 1)
    else:
        source = a
    before_a = [snap(x) for x in a_watch]
    model = dict(content(zt if zt is not None else z, d))
    st = {"offered": 0, "kept": 0, "left": 0, "yields": 0}
    subject = zt if zt is not None else z

    def invariants(where):
        pw = WF(subject)
        if pw:
            mon.violation(f"wf:{'+'.join(sorted({wf_kind(p) for p in pw}))}:{where}", f"destination not well-formed {where}: {pw[:2]}")
            raise _Bad()
        if zt is not None:
            pr = RC(zt)
            if pr:
                mon.violation(f"rc:{'+'.join(sorted({rc_kind(p) for p in pr}))}:{where}", f"destination tensor rank lists wrong {where}: {pr[:2]}")
                raise _Bad()
        mon.count("oracle_evals")

    def loop(zf, af, level, prefix, lazy_here, fmt):
        leaf = level == depth - 1
        if lazy_here is None:
            pres = _present(af, d, fmt, shape[level] if (at is not None or src == "U-free") and level < len(shape) else None)
            lazy_fiber = af
        elif lazy_here[0] == "and":
            p1 = dict(_present(lazy_here[1], d, "C"))
            p2 = dict(_present(lazy_here[2], d, "C"))
            pres = [(c, (p1[c], p2[c])) for c in sorted(set(p1) & set(p2))]
            lazy_fiber = source
        else:
            pres = [(c + 1, p) for c, p in _present(lazy_here[1], d, "C")]
            lazy_fiber = source
        before_z = {c: (p, snap(p)) for c, p in zip(zf.coords, zf.payloads)}
        offered_c = [c for c, _ in pres]
        seen = []
        cap = len(pres) + 3
        mon.count("loops_checked")
        if level > 0:
            mon.count("nested_loops")
        if level == 0 and hoisted:
            if not hoisted[0]:
                hoisted[0] = [zf << lazy_fiber]
            pop = hoisted[0][0]
        else:
            sp = None
            if pres and (seed * 31 + level * 17 + hash_pt(prefix)) % 3 == 0 and all(isinstance(x, int) for x in zf.coords):
                # the optional search-start hint: any position whose predecessor lies below the first offered coordinate is legal,
                # and a legal hint changes nothing of what the loop offers or leaves behind
                legal = [q for q in range(len(zf.coords) + 1) if q == 0 or zf.coords[q - 1] < pres[0][0]]
                sp = legal[-1] if (seed + level) % 2 else legal[(seed + level + hash_pt(prefix)) % len(legal)]
            if sp is None:
                pop = zf << lazy_fiber
            else:
                pop = zf.__lshift__(lazy_fiber, start_pos=sp)
                mon.count("populates_with_start_pos")
                if sp > 0:
                    mon.count("populates_with_nonzero_start_pos")
        for c, (z_ref, a_val) in pop:
            k = len(seen)
            seen.append(c)
            st["yields"] += 1
            mon.count("yields_checked")
            if k >= cap:
                mon.violation("populate:runaway", "populate yielded more elements than the source presents")
                raise _Bad()
            if k >= len(pres) or c != pres[k][0]:
                mon.violation("populate:sequence", f"populate at level {level} yielded {seen}, source presents {offered_c}")
                raise _Bad()
            want_obj = pres[k][1]
            # source payload
            if isinstance(want_obj, tuple):
                v = unbox(a_val)
                mon.check(isinstance(v, tuple) and v[0] is want_obj[0] and v[1] is want_obj[1], "populate:source-payload",
                          f"at {prefix + (c,)} the source payload is not the lazy source's (a1, a2) pair")
            elif want_obj is not None:
                mon.check(a_val is want_obj, "populate:source-payload", f"at {prefix + (c,)} the a-payload is not a's stored object")
            else:
                ok = (isinstance(a_val, Fiber) and not a_val.coords) if not leaf else (isinstance(a_val, Payload) and a_val.value == d)
                mon.check(ok, "populate:source-default", f"U-format source at absent {prefix + (c,)} delivered {a_val!r}")
            # the reference shows z's current value and aliases z's storage
            pt = prefix + (c,)
            if leaf:
                cur = model.get(pt, d)
                mon.check(isinstance(z_ref, Payload) and unbox(z_ref) == cur, "populate:ref-value",
                          f"z reference at {pt} shows {z_ref!r}, z's current value is {cur!r}")
            else:
                cur = {p[len(pt):]: v for p, v in model.items() if p[:len(pt)] == pt}
                mon.check(isinstance(z_ref, Fiber) and content(z_ref, d) == cur, "populate:ref-value",
                          f"z reference at {pt} is {z_ref!r}, z's content under it is {cur}")
            mon.check(c in zf.coords and zf.payloads[zf.coords.index(c)] is z_ref, "populate:ref-not-stored",
                      f"z reference at {pt} is not the payload stored in z at that coordinate during the body")
            invariants("at-yield")
            if case.get("stop") and st["yields"] > case.get("at", 0):
                if case["stop"] == "break":
                    raise _Stop()
                raise _Stop()
            # body
            if table is not None:
                act, val = table[str(c)], 5
            else:
                act, val = _act(seed + pstate["pass"] * 7919, level, prefix, c, leaf)
            if leaf:
                av = unbox(a_val)
                if isinstance(av, tuple):
                    av = unbox(av[0]) * unbox(av[1])
                old = model.get(pt, d)
                if act == "assign":
                    z_ref <<= val
                    new = val
                elif act == "accumulate":
                    z_ref += av
                    new = old + av
                elif act == "default":
                    z_ref <<= d
                    new = d
                else:
                    new = old
                if new != d:
                    model[pt] = new
                else:
                    model.pop(pt, None)
            else:
                if act == "assign-fiber" and not (case.get("assign_sub") and level == depth - 2 and isinstance(a_val, Fiber)
                                                  and (fmts[level + 1] if at is not None else "C") == "C"):
                    # (an uncompressed source fiber assigns its dense view, explicit defaults included: whether that counts as
                    # "written" is not stated, so whole-fiber assignment is driven from compressed source levels only)
                    act = "recurse"     # whole-fiber assignment only just above the leaves (deeper: C02's known stale rank entries)
                if act == "assign-fiber":
                    z_ref <<= a_val
                    mon.count("subfibers_assigned_whole")
                    for q in [q for q in model if q[:len(pt)] == pt]:
                        del model[q]
                    for q, v in content(a_val, d).items():
                        model[pt + q] = v
                elif act == "recurse":
                    sub_fmt = fmts[level + 1] if at is not None else "C"
                    loop(z_ref, a_val, level + 1, pt, None, sub_fmt)
        if seen != offered_c:
            mon.violation("populate:sequence", f"populate at level {level} yielded {seen}, source presents {offered_c}")
            raise _Bad()
        # after the loop at this level
        now = dict(zip(zf.coords, zf.payloads))
        for c in offered_c:
            pt = prefix + (c,)
            under = {p: v for p, v in model.items() if p[:len(pt)] == pt}
            st["offered"] += 1
            if under:
                st["kept"] += 1
            else:
                st["left"] += 1
            if leaf and c in before_z and not under:
                # a leaf element that was stored before and ends the body at the default leaves no element behind either
                mon.count("existing_leaf_left_at_default_checked")
                mon.check(c not in now, "populate:left-behind:existing-leaf",
                          f"coordinate {pt} was stored, offered and ended at the default, but z still holds an element there")
            if c not in before_z and not under:
                mon.count("removed_checked")
                mon.check(c not in now, "populate:left-behind",
                          f"coordinate {pt} was absent, offered and left at the default, but z still holds "
                          f"{'a sub-fiber' if isinstance(now.get(c), Fiber) else 'an element'} there")
        for c, (obj, s0) in before_z.items():
            if c in offered_c:
                continue
            mon.count("untouched_checked")
            mon.check(now.get(c) is obj and snap(obj) == s0, "populate:outside-touched",
                      f"z coordinate {prefix + (c,)} is outside the source but its payload changed")

    passes = case.get("passes", 1) if not case.get("stop") else 1
    hoisted = [None] if (case.get("hoist") and passes > 1) else []
    pstate = {"pass": 0}
    stopped = False
    for pno in range(passes):
        pstate["pass"] = pno
        tag = "" if pno == 0 else ":later-pass"
        if pno:
            mon.count("later_passes")
            if hoisted:
                mon.count("reused_populate_objects")
        try:
            loop(z, source, 0, (), lazy, fmts[0] if (at is not None or src == "U-free") else "C")
        except _Stop:
            stopped = True
        except _Bad:
            return
        except BaseException as e:      # noqa
            if isinstance(e, KeyboardInterrupt):
                raise
            mon.violation(f"populate:raised:{type(e).__name__}{tag}", f"populate raised {type(e).__name__}: {e}; case src={src} pass={pno}")
            return
        try:
            invariants("after-loop")
        except _Bad:
            return
        if stopped:
            break
        got = content(subject, d)
        if not mon.check(got == model, "populate:content" + tag,
                         f"after loop #{pno} z holds {got}, model (old content overridden by the writes) is {model}"):
            return
        if zt is not None and case.get("snapshot") and pno + 1 < passes:
            # a snapshot of the destination between two loops leaves the destination as it was
            snapshot = Tensor.fromFiber(rank_ids=list(ids), fiber=zt.getRoot(), shape=list(shape), default=d)
            mon.count("snapshots_taken")
            mon.check(content(snapshot, d) == model, "snapshot:content", f"snapshot of z holds {content(snapshot, d)}, z holds {model}")
            try:
                invariants("after-snapshot")
            except _Bad:
                return
    after_a = [snap(x) for x in a_watch]
    if after_a != before_a:
        extra = ""
        if at is not None and RC(at):
            extra = "; source tensor rank lists: " + "; ".join(RC(at)[:2])
        mon.violation("populate:source-modified" + (":rank-lists" if extra else ""), "populate changed its source" + extra)
    else:
        mon.count("oracle_evals")
    if st["offered"] >= 2 and st["kept"] >= 1 and st["left"] >= 1:
        mon.nontrivial()
    mon.state((depth, src, st["offered"], st["kept"], st["left"]))
