"""C19 - intersection and merge cost models count what the hardware idiom would do.

Monitor: the traces are produced by really executing `a & b` (and `Fiber.intersection(...,
style="leader-follower")`) under `Metrics` with consumable traces, for 1..n consecutive fibers under
0..2 outer loop ranks; the real model objects (TwoFingerIntersector, SkipAheadIntersector,
LeaderFollowerIntersector) are fed the consumed traces fiber by fiber, in one shot, in random
groups of consecutive fibers, and with empty calls (traces really consumed when nothing new was traced)
before the first / between / after the last batch; their totals are compared with closed-form counts computed from the raw
coordinate lists (never from the trace, never from the models).  `Compute.numSwaps` is compared with an
independent round-by-round simulation over the raw coordinate lists and re-run with other payloads.

Known defect class on the unchanged tree (DESIGN section 10, observation 19): when a batch of several
fibers is fed in one call and a fiber that is not the last of the batch leaves a *leftover row* (its
merge ended on a match, or took no step because exactly one operand was empty, while the other operand
still had an element under the finger), the two-finger / skip-ahead models compare that row with the
next fiber's rows.  Whether that pattern is present is computed from the raw coordinate lists, so that a
batching difference in any other situation gets a different key.
"""
import itertools
import random

from fibertree import Fiber, Metrics, Tensor
from fibertree.model import (Compute, LeaderFollowerIntersector, SkipAheadIntersector,
                             TwoFingerIntersector)

from fvmon import gen

SPEC = {
    "anchors": ["fibertree.model.intersect:TwoFingerIntersector.addTraces", "fibertree.model.intersect:SkipAheadIntersector.addTraces", "fibertree.model.intersect:LeaderFollowerIntersector.addTraces", "fibertree.core.iterators:__and__", "fibertree.model.compute:Compute.numSwaps", "fibertree.model.compute:Compute._numSwapsTree", "fibertree.model.compute:Compute._merge"],
    "rule": ("cases = (i) `isect`: 1..6 consecutive pairs of leaf fibers (A_i, B_i) intersected with the real `&` "
             "under Metrics with consumable intersect_0/intersect_1 traces, below 0, 1 or 2 outer loop ranks "
             "with strictly increasing loop points; the consumed traces are fed to fresh TwoFinger / SkipAhead / "
             "LeaderFollower(a) / LeaderFollower(b) model objects fiber by fiber, in one shot, and in a random "
             "grouping of consecutive fibers (one real execution per batching mode), and once more with one of "
             "these batchings interleaved with EMPTY calls: the consumable traces are really consumed (and the "
             "result fed to every model; for the two-trace models both traces are empty) 0..2 times at the top of "
             "the iteration that starts each batch - for the first batch that is before the intersected rank has "
             "been iterated at all, e.g. 'feed at the top of every iteration, drain at the end' - and 0..2 times "
             "after the loop nest has ended; an empty call contributes nothing, so the same closed-form totals are "
             "required (where the known one-shot defect masks the closed form, the outcome must equal that of the "
             "same batching without the empty calls).  Systematic part: every pair "
             "of subsets of {0..4} as a single fiber, every sequence of two fibers over subsets of {0..2} "
             "({0..3} thorough), every sequence of three fibers over subsets of {0..1} ({0..2} thorough); "
             "random part: longer lists, explicit default payloads, empty / disjoint / interleaved / identical "
             "operands.  The traces are registered under the rank id of the FIRST operand ('K'); the second operand "
             "carries the same id, another id ('K0', 'k', 'K1') or no id at all (never set), in turn in the "
             "systematic part and at random otherwise - the same totals are required.  Every case is also executed "
             "once more with ONE trace only registered in the collection (intersect_0 or intersect_1, alternating in the "
             "systematic part, at random otherwise; the other trace does not exist), over one of the case's batching "
             "modes (empty calls included), and that trace is fed to a LeaderFollower model of that operand alone: it "
             "must report the number of elements its operand presented.  "
             "(ii) `lf`: real leader-follower intersections, leader trace fed to LeaderFollower. "
             "(iii) `swaps`: canonical tensors of 2..4 ranks, Compute.numSwaps at depth 0..2, radix 2..6 and "
             "infinity, latency 0..4, 7, 100 and 'N' (0 = the boundary: nothing is charged), compared with an "
             "independent simulation and re-run (a) with "
             "re-drawn non-zero payloads and (b) with the same stored coordinates after the payloads of some - never "
             "all - elements of each merged list were replaced by default-valued ones (a stored 0; one rank further "
             "down an empty sub-fiber or a sub-fiber of default-valued payloads only): the charge is per list and "
             "per STORED element, so run (b) must equal both the simulation and the original run.  Non-trivial = some fiber has both operands non-empty (isect), leader "
             "non-empty (lf), or some merge group holds at least two lists (swaps); distinct = distinct case."),
    "shards": {"quick": 16, "thorough": 16},
    "min_counts": {"quick": {"evaluations": 3000, "oracle_evals": 30000, "model_feeds": 20000,
                             "multi_fiber_batches_clean": 1500, "multi_fiber_batches_known_pattern": 300,
                             "numswaps_calls": 1500, "numswaps_N_calls": 200, "numswaps_N_tiefree_calls": 200,
                             "lf_real_runs": 100, "empty_call_runs": 2000, "empty_call_feeds": 8000,
                             "empty_calls_fed": 8000, "empty_first_calls_fed": 2000,
                             "isect_runs_second_operand_other_rank_id": 5000,
                             "isect_runs_second_operand_no_rank_id": 1500,
                             "numswaps_zero_latency_calls": 500,
                             "isect_single_trace_runs": 4000, "isect_only_first_trace_runs": 1500,
                             "isect_only_second_trace_runs": 1500,
                             "numswaps_default_payload_calls": 1500, "numswaps_default_payload_elements": 3000,
                             "numswaps_default_subfiber_calls": 100, "numswaps_N_default_payload_calls": 400},
                   "thorough": {"evaluations": 60000, "oracle_evals": 600000, "model_feeds": 400000,
                                "multi_fiber_batches_clean": 30000, "numswaps_calls": 20000,
                                "empty_call_runs": 40000, "empty_first_calls_fed": 40000,
                                "isect_runs_second_operand_other_rank_id": 50000,
                                "isect_runs_second_operand_no_rank_id": 15000,
                                "numswaps_zero_latency_calls": 2000,
                                "isect_single_trace_runs": 40000, "isect_only_first_trace_runs": 15000,
                                "isect_only_second_trace_runs": 15000,
                                "numswaps_default_payload_calls": 10000, "numswaps_default_subfiber_calls": 2000,
                                "numswaps_N_default_payload_calls": 3000}},
    "assumptions": [
        "coordinate lists of an operand = the coordinates it presents to `&` (stored elements whose payload is "
        "not the default), integer coordinates, ordered/unique fibers",
        "the intersect_0/intersect_1 traces of `a & b` are registered, emitted and consumed under the rank id of the "
        "FIRST operand (the rank `__and__` ticks and names its result after); the rank id of the second operand is "
        "free - equal, different, or never set (the constructor's 'Unknown') - and takes no part in the totals.  For "
        "real leader-follower intersections both operands carry the same id (a follower in another rank needs "
        "Metrics.matchRanks to be traced at all; not driven)",
        "which of the two operand traces are registered is the user's choice: both (all four models), or one only (the "
        "leader-follower model of that operand alone; the two-trace models are not fed then) - an operand's trace rows "
        "do not depend on whether the other operand's trace is collected",
        "multi-fiber batches are only fed when fiber boundaries are recognisable in the trace, i.e. under at least "
        "one outer traced loop rank with strictly increasing loop points (as in a real loop nest); without an "
        "outer rank only fiber-by-fiber feeding (and a single fiber in one shot) is judged",
        "batches are cut at fiber boundaries only (addTraces 'must be called after two fibers are fully intersected'); "
        "a batch may be empty (a call made when nothing was traced since the previous consumption: before the first "
        "fiber, twice at one boundary, after the last fiber); such a call contributes 0 to every total",
        "empty calls are fed to all three models, including before the first non-empty call (TwoFingerIntersector "
        "raised IndexError there until repository fix a26e85b; key two-finger:empty-first-call:raised:IndexError)",
        "leader-follower model fed the intersect_<l> trace of one operand of `&` counts the rows that operand "
        "presented: elements consumed by the merge including the one left under the finger when the other "
        "operand ran out (reading fixed by test_num_isect_leader_follower); for a real leader-follower "
        "intersection only the leader's count (its non-empty elements) is judged",
        "numSwaps: the lists merged at `depth` are the fibers one rank below; the coordinate list of such a fiber = "
        "its STORED coordinates (getCoords()), whatever the payloads - 'charged per element, unaffected by payload "
        "values'.  Original trees are canonical (no empty sub-fibers, no explicit default leaves); the default-valued "
        "run stores a 0 leaf / an empty or all-default sub-fiber at some coordinates of a merged list.  depth <= "
        "ranks-2, radix an "
        "int >= 2 or float('inf') (the docstring's radix 'N' raises TypeError in `radix > len(coords)` and is not "
        "driven), latency a non-negative int or 'N' (a stated latency of 0 is a stated latency: 0 per list and per "
        "element, not the unbounded case)",
        "numSwaps: every merged list is non-empty; all of its elements may be default-valued (such a list was charged "
        "neither per list nor per element until repository fix cc80d79); a list without any stored "
        "coordinate is not driven (whether it is still 'a list' to be charged is not stated)",
        "latency 'N': comparison count of inserting each new head into a sorted buffer holding one head per list "
        "= 1 + number of waiting heads with a smaller coordinate (reading fixed by test_num_swaps_undefined_next); "
        "how many waiting heads with an *equal* coordinate are passed is not stated, so with equal coordinates in a "
        "merge group only bounds (min/max over both pop orders x none/ordered/all equals passed) are enforced; the "
        "count is exact on tie-free inputs (exhaustive sweep + 35% of random 'N' cases)",
        "numSwaps payload independence is judged over re-drawn non-zero payload values and over default-valued "
        "payloads stored at a proper subset of each merged list's coordinates; with tied coordinates and latency 'N' "
        "the independent count is a pair of bounds but the payload runs must still agree exactly",
    ],
}

# ------------------------------------------------------------------------------------------
# generation
# ------------------------------------------------------------------------------------------
def _subsets(n):
    out = []
    for mask in range(1 << n):
        out.append([c for c in range(n) if mask >> c & 1])
    return out


def _leaf(coords, salt=0):
    return [[c, gen.VALUES[(c + salt) % len(gen.VALUES)]] for c in coords]


def _outer_for(n, d, style=0):
    """n strictly increasing loop points of arity d (JSON lists)."""
    if d == 0:
        return [[] for _ in range(n)]
    if d == 1:
        step = 1 + style % 3
        base = (style // 3) % 2
        return [[base + k * step] for k in range(n)]
    pts = []
    i, j = style % 2, 0
    for k in range(n):
        pts.append([i, j])
        if (k + style) % 2:
            i += 1 + style % 2
            j = (style // 2) % 2
        else:
            j += 1 + (style // 2) % 2
    return pts


# rank id of the second operand of `&` (the first one is always "K", the rank the traces are registered under);
# "" = the id is never set
B_RANK_IDS_SYS = ["K", "K0", "K", "", "k"]
B_RANK_IDS_RAND = ["K", "K", "K", "K0", "K0", "k", "K1", "", ""]


def _sys_emp(k):
    """Empty-call pattern of the k-th systematic case of a shard: which batching it is laid over and how many
    empty calls go before the first batch / between batches / after the last batch (all 7 non-void
    lead/middle/trail combinations in turn, one or two calls)."""
    bits = 1 + k % 7
    two = 1 + (k // 7) % 2
    return {"base": (k // 14) % 3, "lead": two if bits & 1 else 0, "mid": [1, two] if bits & 2 else [],
            "trail": (3 - two) if bits & 4 else 0}


def _sys_solo(k):
    """Single-trace collection of the k-th systematic case of a shard: which operand's trace is the only one
    registered (a model of that operand alone) and over which of the case's batching modes."""
    return {"side": k % 2, "mode": (k // 2) % 4}


def _rand_emp(rng):
    r = rng.random()
    if r < 0.25:                                    # feed at the top of every iteration, drain at the end
        return {"base": 0, "lead": 1, "mid": [], "trail": 0}
    return {"base": rng.randint(0, 2), "lead": rng.choice([0, 1, 1, 2]),
            "mid": [rng.choice([0, 1, 2]) for _ in range(rng.randint(0, 3))], "trail": rng.choice([0, 0, 1, 2])}


def generate(rng, tier, shard, nshards, mon):
    quick = tier == "quick"
    idx = 0
    # (a) one fiber, all pairs of subsets of {0..4}
    s5 = _subsets(5)
    for a in s5:
        for b in s5:
            if idx % nshards == shard:
                d = idx // nshards % 3
                yield {"kind": "isect", "outer": _outer_for(1, d, idx), "fibers": [[_leaf(a), _leaf(b, 1)]],
                       "groups": [1], "emp": _sys_emp(idx // nshards), "brank": B_RANK_IDS_SYS[idx // nshards % 5],
                       "solo": _sys_solo(idx // nshards), "sys": "one-fiber-n5"}
            idx += 1
    mon.exhaustive["isect-one-fiber-subsets-n5"] = True
    # (b) two fibers
    n2 = 3 if quick else 4
    s = _subsets(n2)
    pairs = [(a, b) for a in s for b in s]
    for p1 in pairs:
        for p2 in pairs:
            if idx % nshards == shard:
                d = 1 + (idx // nshards) % 2
                yield {"kind": "isect", "outer": _outer_for(2, d, idx // 7),
                       "fibers": [[_leaf(p1[0]), _leaf(p1[1], 1)], [_leaf(p2[0], 2), _leaf(p2[1], 3)]],
                       "groups": [2], "emp": _sys_emp(idx // nshards), "brank": B_RANK_IDS_SYS[idx // nshards % 5],
                       "solo": _sys_solo(idx // nshards), "sys": f"two-fibers-n{n2}"}
            idx += 1
    mon.exhaustive[f"isect-two-fibers-subsets-n{n2}"] = True
    # (c) three fibers
    n3 = 2
    s = _subsets(n3)
    pairs = [(a, b) for a in s for b in s]
    for p1 in pairs:
        for p2 in pairs:
            for p3 in pairs:
                if idx % nshards == shard:
                    d = 1 + (idx // nshards) % 2
                    yield {"kind": "isect", "outer": _outer_for(3, d, idx // 5),
                           "fibers": [[_leaf(p[0], k), _leaf(p[1], k + 1)] for k, p in enumerate((p1, p2, p3))],
                           "groups": [[3], [1, 2], [2, 1]][idx % 3], "emp": _sys_emp(idx // nshards),
                           "brank": B_RANK_IDS_SYS[idx // nshards % 5], "solo": _sys_solo(idx // nshards),
                           "sys": f"three-fibers-n{n3}"}
                idx += 1
    mon.exhaustive[f"isect-three-fibers-subsets-n{n3}"] = True
    if not quick:
        # three fibers over subsets of {0..2}, complete
        s = _subsets(3)
        pairs = [(a, b) for a in s for b in s]
        for p1 in pairs:
            for p2 in pairs:
                for p3 in pairs:
                    if idx % nshards == shard:
                        yield {"kind": "isect", "outer": _outer_for(3, 1 + idx // nshards % 2, idx // 5),
                               "fibers": [[_leaf(p[0], k), _leaf(p[1], k + 1)] for k, p in enumerate((p1, p2, p3))],
                               "groups": [[3], [1, 2], [2, 1]][idx % 3], "emp": _sys_emp(idx // nshards),
                               "brank": B_RANK_IDS_SYS[idx // nshards % 5], "solo": _sys_solo(idx // nshards),
                               "sys": "three-fibers-n3"}
                    idx += 1
        mon.exhaustive["isect-three-fibers-subsets-n3"] = True
    # (d) systematic numSwaps: all ordered triples of non-empty subsets of {0..2} x radix x latency
    ne = [x for x in _subsets(3) if x]
    confs = [(r, l) for r in (2, 3, "inf") for l in (0, 1, 3, "N")]
    for lists in itertools.product(ne, repeat=3):
        for r, l in confs:
            if idx % nshards == shard:
                yield {"kind": "swaps", "tree": [[m, _leaf(cs, m)] for m, cs in enumerate(lists)],
                       "depth": 0, "radix": r, "latency": l, "reval": 1 + idx % 5, "sys": "swaps-3lists-n3"}
            idx += 1
    mon.exhaustive["numswaps-three-lists-subsets-n3"] = True
    # (e) tie-free 'N' latency: every assignment of coordinates {0..4} to one of three lists or to none
    for assign in itertools.product(range(4), repeat=5):
        lists = [[c for c in range(5) if assign[c] == k] for k in range(3)]
        if not all(lists):
            continue
        for r in (2, 3, "inf"):
            if idx % nshards == shard:
                yield {"kind": "swaps", "tree": [[m, _leaf(cs, m)] for m, cs in enumerate(lists)],
                       "depth": 0, "radix": r, "latency": "N", "reval": 1 + idx % 5, "sys": "swaps-tiefree-n5"}
            idx += 1
    mon.exhaustive["numswaps-N-three-disjoint-lists-n5"] = True
    nrand = (9000 if quick else 600000) // nshards
    for _ in range(nrand):
        yield _random_case(rng)


def _rand_coords(rng, ext, style):
    if style == "empty":
        return []
    if style == "dense":
        return list(range(ext))
    p = rng.choice([0.2, 0.5, 0.8])
    return [c for c in range(ext) if rng.random() < p]


def _rand_pair(rng):
    """One (A, B) pair of leaf specs, biased towards the documented corner classes."""
    ext = rng.randint(1, rng.choice([4, 6, 12]))
    r = rng.random()
    if r < 0.08:
        a, b = [], _rand_coords(rng, ext, "r")
    elif r < 0.16:
        a, b = _rand_coords(rng, ext, "r"), []
    elif r < 0.20:
        a, b = [], []
    elif r < 0.30:                                  # identical
        a = _rand_coords(rng, ext, "r")
        b = list(a)
    elif r < 0.40:                                  # disjoint
        a = _rand_coords(rng, ext, "r")
        b = [c for c in range(ext) if c not in a and rng.random() < 0.7]
    elif r < 0.50:                                  # strictly interleaved
        k = rng.randint(0, 1)
        a = [c for c in range(ext) if c % 2 == k]
        b = [c for c in range(ext) if c % 2 != k]
    elif r < 0.58:                                  # one entirely before the other
        cut = rng.randint(0, ext)
        a = [c for c in range(cut) if rng.random() < 0.7]
        b = [c for c in range(cut, ext) if rng.random() < 0.7]
        if rng.random() < 0.5:
            a, b = b, a
    else:
        a, b = _rand_coords(rng, ext, "r"), _rand_coords(rng, ext, "r")
    off = rng.choice([0, 0, 0, 3, 10])
    a = [c + off for c in a]
    b = [c + off for c in b]

    def spec(cs):
        out = []
        for c in cs:
            out.append([c, rng.choice(gen.VALUES)])
        return out
    sa, sb = spec(a), spec(b)
    if rng.random() < 0.2:                          # explicit default payloads: stored but not presented
        for sp in (sa, sb):
            have = {c for c, _ in sp}
            for c in range(off, off + ext + 1):
                if c not in have and rng.random() < 0.25:
                    sp.append([c, 0])
            sp.sort()
    return [sa, sb]


def _rand_outer(rng, n, d):
    if d == 0:
        return [[] for _ in range(n)]
    if d == 1:
        pts, j = [], rng.randint(0, 2)
        for _ in range(n):
            pts.append([j])
            j += rng.randint(1, 3)
        return pts
    pts = []
    i, j = rng.randint(0, 2), rng.randint(0, 2)
    for _ in range(n):
        pts.append([i, j])
        if rng.random() < 0.4:
            i += rng.randint(1, 2)
            j = rng.randint(0, 2)
        else:
            j += rng.randint(1, 2)
    return pts


def _rand_groups(rng, n):
    out = []
    left = n
    while left:
        g = rng.randint(1, left)
        out.append(g)
        left -= g
    return out


def _random_case(rng):
    r = rng.random()
    if r < 0.55:
        n = rng.choice([1, 2, 2, 3, 3, 4, 5, 6])
        d = rng.choice([0, 1, 1, 1, 2, 2])
        return {"kind": "isect", "outer": _rand_outer(rng, n, d), "fibers": [_rand_pair(rng) for _ in range(n)],
                "groups": _rand_groups(rng, n), "emp": _rand_emp(rng), "brank": rng.choice(B_RANK_IDS_RAND),
                "solo": {"side": rng.randint(0, 1), "mode": rng.randint(0, 3)}}
    if r < 0.62:
        n = rng.choice([1, 2, 3])
        d = rng.choice([0, 1, 2])
        return {"kind": "lf", "outer": _rand_outer(rng, n, d), "fibers": [_rand_pair(rng) for _ in range(n)],
                "groups": _rand_groups(rng, n), "emp": _rand_emp(rng)}
    return _rand_swaps(rng)


def _rand_swaps(rng):
    depth = rng.choice([0, 0, 0, 1, 1, 2])
    below = rng.choice([0, 0, 0, 1])                # ranks below the merged rank
    nranks = depth + 2 + below
    ext_k = rng.choice([3, 5, 8])

    def build(level):
        if level == nranks - 1:
            cs = [c for c in range(ext_k if level == depth + 1 else 3) if rng.random() < rng.choice([0.3, 0.6, 0.9])]
            return [[c, rng.choice(gen.VALUES)] for c in cs]
        if level == depth:
            width = rng.choice([1, 2, 3, 4, 5, 7, 9])
        elif level == depth + 1:
            width = ext_k
        else:
            width = rng.choice([1, 2, 3])
        out = []
        for c in range(width):
            if level != depth and rng.random() < 0.25:
                continue
            sub = build(level + 1)
            if sub:
                out.append([c, sub])
        return out
    tree = build(0)
    if rng.random() < 0.35:
        tree = _make_tiefree(rng, tree, depth)
    return {"kind": "swaps", "tree": tree, "nranks": nranks, "depth": depth,
            "radix": rng.choice([2, 2, 3, 4, 5, 6, "inf", "inf"]), "latency": rng.choice([0, 0, 1, 1, 2, 3, 4, 7, 100, "N", "N", "N", "N"]),
            "reval": rng.randint(1, 1000)}


def _make_tiefree(rng, tree, depth):
    """Re-draw the coordinates of the lists merged at `depth` so that no coordinate occurs in two lists of
    the same parent fiber (then no merge round ever compares equal coordinates)."""
    if depth > 0:
        return [[c, _make_tiefree(rng, sub, depth - 1)] for c, sub in tree]
    pool = list(range(sum(len(sub) for _, sub in tree) + rng.randint(0, 4)))
    rng.shuffle(pool)
    out = []
    for c, sub in tree:
        cs = sorted(pool.pop() for _ in sub)
        out.append([c, [[nc, p] for nc, (_, p) in zip(cs, sub)]])
    return out


# ------------------------------------------------------------------------------------------
# oracle: closed-form merge counts over raw coordinate lists
# ------------------------------------------------------------------------------------------
def _presented(spec, default=0):
    return [c for c, v in spec if v != default]


def merge_counts(A, B):
    """A, B: strictly increasing coordinate lists.
    -> dict(tf, sa, rows_a, rows_b, leftover)

    A two-finger merge visits the coordinates of A u B in increasing order and stops as soon as one list
    is exhausted, i.e. after the coordinate m = min(max A, max B); it never starts when a list is empty."""
    if not A or not B:
        return {"tf": 0, "sa": 0, "rows_a": 1 if A else 0, "rows_b": 1 if B else 0,
                "leftover": bool(A) != bool(B), "both": False}
    m = min(A[-1], B[-1])
    sa_, sb_ = set(A), set(B)
    visited = sorted(c for c in sa_ | sb_ if c <= m)
    labels = ["M" if (c in sa_ and c in sb_) else ("a" if c in sa_ else "b") for c in visited]
    runs = 0
    prev = None
    for lab in labels:
        if lab == "M" or lab != prev:
            runs += 1
        prev = None if lab == "M" else lab
    tail_a = A[-1] > m
    tail_b = B[-1] > m
    return {"tf": len(visited), "sa": runs,
            "rows_a": sum(1 for c in A if c <= m) + (1 if tail_a else 0),
            "rows_b": sum(1 for c in B if c <= m) + (1 if tail_b else 0),
            "leftover": labels[-1] == "M" and (tail_a or tail_b), "both": True}


# ------------------------------------------------------------------------------------------
# driving the real code
# ------------------------------------------------------------------------------------------
def _reset_metrics():
    try:
        if Metrics.isCollecting():
            for rank, d in list(Metrics.traces.items()):
                for t, (ft, mt, st) in list(d.items()):
                    if mt is not None:
                        Metrics.traces[rank][t] = (ft, [], st)
            Metrics.endCollect()
    except BaseException:       # noqa
        pass
    try:
        Metrics.beginCollect()
        Metrics.endCollect()
    except BaseException:       # noqa
        Metrics.collecting = False
        Metrics.traces = {}


def _outer_tree(points):
    """Nested outer fibers for loop points of arity 1 or 2 -> function iterating the points in order."""
    d = len(points[0])
    if d == 1:
        f = Fiber([p[0] for p in points], [1] * len(points))
        f.getRankAttrs().setId("J")

        def walk():
            for _ in f:
                yield
        return walk
    groups = []
    for p in points:
        if groups and groups[-1][0] == p[0]:
            groups[-1][1].append(p[1])
        else:
            groups.append((p[0], [p[1]]))
    subs = []
    for _, js in groups:
        sf = Fiber(js, [1] * len(js))
        sf.getRankAttrs().setId("J")
        subs.append(sf)
    fi = Fiber([g[0] for g in groups], subs)
    fi.getRankAttrs().setId("I")

    def walk():
        for _, fj in fi:
            for _ in fj:
                yield
    return walk


def _execute(case, groups, style="and", slots=None, which=(0, 1)):
    """Really run the loop nest once, consuming the traces after each group of consecutive fibers.
    which: the operands whose intersect_<l> trace is registered (and consumed); the chunk entry of an operand
    whose trace is not registered is [].
    slots (len(groups) + 1 counts): additional consumptions at moments when nothing new has been traced -
    slots[i] times at the top of the iteration that starts group i (before its first `&`; for i = 0 that is
    before the traced rank has been iterated at all) and slots[-1] times after the loop nest has ended.
    -> list of (trace_a, trace_b) chunks in consumption order."""
    fibers = []
    for sa, sb in case["fibers"]:
        a = gen.fiber_from_spec(sa)
        b = gen.fiber_from_spec(sb)
        a.getRankAttrs().setId("K")
        brank = case.get("brank", "K") if style == "and" else "K"
        if brank:                                   # "" = the second operand's rank id is never set
            b.getRankAttrs().setId(brank)
        fibers.append((a, b))
    cuts = set(itertools.accumulate(groups))
    starts = {st: i for i, st in enumerate([0] + list(itertools.accumulate(groups))[:-1])}
    chunks = []

    def consume():
        chunks.append(tuple(Metrics.consumeTrace("K", f"intersect_{l}") if l in which else [] for l in (0, 1)))
    Metrics.beginCollect()
    try:
        for l in which:
            Metrics.trace("K", f"intersect_{l}", consumable=True)

        def body(n):
            if slots is not None and n in starts:
                for _ in range(slots[starts[n]]):
                    consume()
            a, b = fibers[n]
            if style == "and":
                res = a & b
            else:
                res = Fiber.intersection(a, b, style="leader-follower")
            cap = len(a.coords) + len(b.coords) + 2
            for k, _ in enumerate(res):
                if k > cap:
                    raise RuntimeError("runaway intersection")
            if n + 1 in cuts:
                consume()
        if len(case["outer"][0]) == 0:
            for n in range(len(fibers)):
                body(n)
        else:
            walk = _outer_tree(case["outer"])
            n = 0
            for _ in walk():
                body(n)
                n += 1
        if slots is not None:
            for _ in range(slots[-1]):
                consume()
        Metrics.endCollect()
    except BaseException:
        _reset_metrics()
        raise
    return chunks


# TwoFingerIntersector.addTraces([], []) as the very first call raised IndexError until repository fix a26e85b
# (`len(trace0[0])` without SkipAhead's `and trace0`); the failure is reported under its own key
# two-finger:empty-first-call:raised:IndexError.  The guard stays available (off) for bisecting older trees.
TWO_FINGER_SKIP_EMPTY_FIRST_CALLS = False


def _is_empty(chunk):
    return not chunk[0] and not chunk[1]


def _feed(model_cls, chunks, side=None, mon=None):
    """Feed one fresh model object the chunks in order; -> (total, None, None) or (None, exception, where);
    where = "empty-first-call" when the failing call is an empty one and nothing non-empty was fed before."""
    m = model_cls()
    if model_cls is TwoFingerIntersector and TWO_FINGER_SKIP_EMPTY_FIRST_CALLS:
        k = 0
        while k < len(chunks) and _is_empty(chunks[k]):
            k += 1
        chunks = chunks[k:]
    seen_rows = False
    for ta, tb in chunks:
        mine = (ta, tb) if side is None else ((ta,) if side == 0 else (tb,))
        empty = not any(mine)
        if mon is not None and empty:
            mon.count("empty_calls_fed")
            if not seen_rows:
                mon.count("empty_first_calls_fed")
        try:
            m.addTraces(*mine)
        except BaseException as e:      # noqa
            return None, e, ("empty-first-call" if empty and not seen_rows else None)
        seen_rows = seen_rows or not empty
    try:
        return m.getNumIntersects(), None, None
    except BaseException as e:      # noqa
        return None, e, None


def run_case(case, mon):
    kind = case["kind"]
    if kind == "isect":
        _run_isect(case, mon)
    elif kind == "lf":
        _run_lf(case, mon)
    elif kind == "swaps":
        _run_swaps(case, mon)


EMPTY = "+empty-calls"


def _modes(case):
    """-> list of (mode name, groups, slots); slots is None for the plain batchings.  The last mode lays the
    case's empty-call pattern over one of the plain batchings: slots[i] empty calls before batch i, slots[-1]
    after the last batch."""
    n = len(case["fibers"])
    d = len(case["outer"][0])
    modes = [("per-fiber", [1] * n, None)]
    if n == 1:
        modes.append(("one-shot", [1], None))
    elif d > 0:
        modes.append(("one-shot", [n], None))
        g = list(case.get("groups") or [n])
        if sum(g) == n and g != [n] and g != [1] * n:
            modes.append(("grouped", g, None))
    emp = case.get("emp")
    if emp:
        base, groups, _ = modes[emp.get("base", 0) % len(modes)]
        mid = list(emp.get("mid") or [])
        slots = [min(int(emp.get("lead", 0)), 2)]
        for i in range(1, len(groups)):
            slots.append(min(int(mid[(i - 1) % len(mid)]), 2) if mid else 0)
        slots.append(min(int(emp.get("trail", 0)), 2))
        if not any(slots):
            slots[0] = 1
        modes.append((base + EMPTY, groups, slots))
    return modes


def _slot_chunks(chunks, slots):
    """The chunks that were consumed at the empty-call moments (in consumption order: slots[i] chunks, then the
    chunk of batch i, ..., finally slots[-1] chunks)."""
    out, k = [], 0
    for i, c in enumerate(slots):
        out += chunks[k:k + c]
        k += c + 1
    return out


def _run_isect(case, mon):
    per = [merge_counts(_presented(sa), _presented(sb)) for sa, sb in case["fibers"]]
    n = len(per)
    want = {"two-finger": sum(p["tf"] for p in per), "skip-ahead": sum(p["sa"] for p in per),
            "leader-follower-a": sum(p["rows_a"] for p in per), "leader-follower-b": sum(p["rows_b"] for p in per)}
    mon.count("fibers", n)
    got_all = {}
    brank = case.get("brank", "K")
    ranks = "" if brank == "K" else (f", second operands in rank {brank!r}" if brank else ", rank id of the second operands never set")
    for mode, groups, slots in _modes(case):
        try:
            chunks = _execute(case, groups, slots=slots)
        except BaseException as e:      # noqa
            mon.violation(f"and-under-metrics:raised:{type(e).__name__}",
                          f"executing a & b under Metrics ({mode}{ranks}) raised {type(e).__name__}: {e}")
            continue
        if brank != "K":
            mon.count("isect_runs_second_operand_other_rank_id" if brank else "isect_runs_second_operand_no_rank_id")
        emp = slots is not None
        base = mode[:-len(EMPTY)] if emp else mode
        if emp:
            mon.count("empty_call_runs")
            mon.check(len(chunks) == len(groups) + sum(slots)
                      and all(_is_empty(c) for c in _slot_chunks(chunks, slots)),
                      "consumeTrace:nothing-traced-since-last-call:not-empty",
                      f"consuming the intersect traces again when nothing was traced since the last consumption "
                      f"returned rows: slots {slots} over groups {groups}, chunks {chunks}")
        multi = base != "per-fiber" and n > 1
        # known-defect pattern, from the raw lists: a fiber that is not the last of its batch leaves a leftover row
        # and the models' entry assertion (first rows of both traces belong to one fiber) is known to trip exactly
        # when, in some batch, the first fiber with an a-row is not the first fiber with a b-row
        pattern = False
        assert_expected = False
        if multi:
            start = 0
            for g in groups:
                batch = per[start:start + g]
                if any(p["leftover"] for p in batch[:-1]):
                    pattern = True
                fa = next((k for k, p in enumerate(batch) if p["rows_a"]), None)
                fb = next((k for k, p in enumerate(batch) if p["rows_b"]), None)
                if fa is not None and fb is not None and fa != fb:
                    assert_expected = True
                start += g
            if pattern:
                mon.count("multi_fiber_batches_known_pattern")
            else:
                mon.count("multi_fiber_batches_clean")
        for name, cls, side in (("two-finger", TwoFingerIntersector, None), ("skip-ahead", SkipAheadIntersector, None),
                                ("leader-follower-a", LeaderFollowerIntersector, 0),
                                ("leader-follower-b", LeaderFollowerIntersector, 1)):
            total, exc, where = _feed(cls, chunks, side, mon if emp else None)
            mon.count("model_feeds")
            if emp:
                mon.count("empty_call_feeds")
            got_all[(mode, name)] = (total, type(exc).__name__ if exc is not None else None)
            fam = name if side is None else "leader-follower"
            detail = (f"{name} fed {mode} {groups}" + (f" with {slots} empty calls before/between/after the batches" if emp else "")
                      + f" over fibers {[(_presented(a), _presented(b)) for a, b in case['fibers']]} outer {case['outer']}{ranks}")
            if where == "empty-first-call":
                mon.violation(f"{fam}:empty-first-call:raised:{type(exc).__name__}",
                              f"{detail}: an empty first addTraces call raised {type(exc).__name__}: {exc}")
                continue
            if emp and multi and side is None and (pattern or assert_expected):
                # the closed form is masked by the known defect class here; an empty call contributes nothing, so
                # the outcome must be that of the same batching without the empty calls
                ref = got_all.get((base, name))
                mon.check(ref is None or ref == got_all[(mode, name)],
                          f"{fam}:with-empty-calls:outcome-differs-from-same-batching-without",
                          f"{detail}: outcome (total, exception) {got_all[(mode, name)]}, without the empty calls {ref}")
            if side is not None or not multi:
                label = "with-empty-calls" if emp else ("one-shot-single-fiber" if (mode == "one-shot" and n == 1) else mode)
                if exc is not None:
                    mon.violation(f"{fam}:{label}:raised:{type(exc).__name__}", f"{detail} raised {type(exc).__name__}: {exc}")
                    continue
                mon.check(total == want[name], f"{fam}:{label}:total",
                          f"{detail}: model reports {total}, independent merge of the raw lists gives {want[name]}")
                continue
            # two-finger / skip-ahead fed a batch of several fibers
            if exc is not None:
                if isinstance(exc, AssertionError) and assert_expected:
                    mon.violation(f"{fam}:one-shot-vs-per-fiber:raised:AssertionError",
                                  f"{detail} raised AssertionError (a batch starts with a fiber in which exactly one "
                                  f"operand is empty, so the first rows of the two traces belong to different fibers): {exc}")
                else:
                    mon.violation(f"{fam}:multi-fiber-batch:raised:{type(exc).__name__}:"
                                  + ("leftover-row-present" if pattern else "no-leftover-row"),
                                  f"{detail} raised {type(exc).__name__} although the first rows of both traces belong to "
                                  f"the same fiber in every batch: {exc}")
                continue
            if pattern:
                mon.check(total == want[name], f"{fam}:one-shot-vs-per-fiber",
                          f"{detail}: model reports {total} but fiber-by-fiber / independent merge gives {want[name]} "
                          f"(a non-final fiber of a batch ends on a match or has one empty operand, leaving a leftover row)")
            else:
                mon.check(total == want[name], f"{fam}:multi-fiber-batch{EMPTY if emp else ''}:total:no-leftover-row",
                          f"{detail}: model reports {total}, independent merge gives {want[name]}; no fiber of a batch "
                          f"leaves a leftover row before the batch's last fiber")
    _run_solo(case, mon, want, ranks)
    if any(p["both"] for p in per):
        mon.nontrivial()
    mon.state(("isect", want["two-finger"], want["skip-ahead"], want["leader-follower-a"], want["leader-follower-b"], n))


def _run_solo(case, mon, want, ranks):
    """A model of ONE operand alone: only that operand's intersect_<l> trace is registered in the collection (the
    other trace does not exist), the loop nest is really executed once more over one of the case's batching modes
    and the consumed trace is fed to a fresh LeaderFollowerIntersector.  'The leader-follower model reports the
    number of elements its operand presented' - whether or not anybody models the other operand."""
    solo = case.get("solo")
    if not solo:
        return
    side = int(solo.get("side", 0)) % 2
    modes = _modes(case)
    mode, groups, slots = modes[int(solo.get("mode", 0)) % len(modes)]
    emp = slots is not None
    name = "leader-follower-" + "ab"[side]
    what = (f"only the intersect_{side} trace registered, {mode} {groups}"
            + (f" with {slots} empty calls before/between/after the batches" if emp else "")
            + f" over fibers {[(_presented(a), _presented(b)) for a, b in case['fibers']]} outer {case['outer']}{ranks}")
    try:
        chunks = _execute(case, groups, slots=slots, which=(side,))
    except BaseException as e:      # noqa
        mon.violation(f"and-under-metrics:single-trace-registered:raised:{type(e).__name__}",
                      f"executing a & b under Metrics ({what}) raised {type(e).__name__}: {e}")
        return
    mon.count("isect_single_trace_runs")
    mon.count("isect_only_second_trace_runs" if side else "isect_only_first_trace_runs")
    if emp:
        mon.check(len(chunks) == len(groups) + sum(slots) and all(_is_empty(c) for c in _slot_chunks(chunks, slots)),
                  "consumeTrace:nothing-traced-since-last-call:not-empty",
                  f"consuming the trace again when nothing was traced since the last consumption returned rows: "
                  f"{what}, chunks {chunks}")
    total, exc, where = _feed(LeaderFollowerIntersector, chunks, side, None)
    mon.count("model_feeds")
    if exc is not None:
        mon.violation(f"leader-follower:single-trace-registered:raised:{type(exc).__name__}",
                      f"{name}, {what}: raised {type(exc).__name__}: {exc}")
        return
    mon.check(total == want[name], "leader-follower:single-trace-registered:total",
              f"{name}, {what}: model reports {total}, the operand presented {want[name]} elements "
              f"(independent merge of the raw lists)")


def _run_lf(case, mon):
    """Real leader-follower intersections: the leader presents each of its non-empty elements once."""
    want = sum(len(_presented(sa)) for sa, _ in case["fibers"])
    n = len(case["fibers"])
    for mode, groups, slots in _modes(case):
        emp = slots is not None
        try:
            chunks = _execute(case, groups, style="lf", slots=slots)
        except BaseException as e:      # noqa
            mon.violation(f"leader-follower-intersection-under-metrics:raised:{type(e).__name__}",
                          f"executing a leader-follower intersection under Metrics raised {type(e).__name__}: {e}")
            continue
        mon.count("lf_real_runs")
        total, exc, _where = _feed(LeaderFollowerIntersector, chunks, 0, mon if emp else None)
        mon.count("model_feeds")
        label = "with-empty-calls" if emp else mode
        if emp:
            mon.count("empty_call_runs")
            mon.count("empty_call_feeds")
        if exc is not None:
            mon.violation(f"leader-follower:real-leader:{label}:raised:{type(exc).__name__}",
                          f"LeaderFollowerIntersector fed {mode} raised {type(exc).__name__}: {exc}")
            continue
        mon.check(total == want, f"leader-follower:real-leader:{label}:total",
                  f"leader trace of leader-follower intersections over {[_presented(a) for a, _ in case['fibers']]} fed "
                  f"{mode} {groups}" + (f" with {slots} empty calls before/between/after the batches" if emp else "")
                  + f": model reports {total}, the leaders present {want} elements")
    if want:
        mon.nontrivial()
    mon.state(("lf", want, n))


# ------------------------------------------------------------------------------------------
# numSwaps
# ------------------------------------------------------------------------------------------
def _lists_at(tree, depth):
    """Groups of coordinate lists merged by numSwaps(depth): one group per fiber at `depth`."""
    if depth == 0:
        return [[[c for c, _ in sub] for _, sub in tree]]
    out = []
    for _, sub in tree:
        out += _lists_at(sub, depth - 1)
    return out


def _insert_cost(heads, new, larger_first, equal):
    """heads: list of (coord, list index) waiting in the sorted buffer; cost of placing `new` = 1 + number
    of heads it is compared with and passes: those with a smaller coordinate, plus - among heads with an
    equal coordinate - none / all / those that pop first under the strict order."""
    c, i = new
    n = 1
    for hc, hi in heads:
        if hc < c:
            n += 1
        elif hc == c:
            if equal == "all" or (equal == "order" and ((hi > i) if larger_first else (hi < i))):
                n += 1
    return n


def _merge_N(group, larger_first=True, equal="order"):
    """Incremental merge of `group` through a sorted buffer holding one head per list.
    larger_first: among equal coordinates the head of the list with the larger index pops first."""
    cursors = [0] * len(group)
    heads = []
    cost = 0
    for i, lst in enumerate(group):
        new = (lst[0], i)
        cost += _insert_cost(heads, new, larger_first, equal)
        heads.append(new)
        cursors[i] = 1
    merged = []
    while heads:
        k = min(range(len(heads)), key=lambda x: (heads[x][0], -heads[x][1] if larger_first else heads[x][1]))
        c, i = heads.pop(k)
        merged.append(c)
        if cursors[i] < len(group[i]):
            new = (group[i][cursors[i]], i)
            cursors[i] += 1
            cost += _insert_cost(heads, new, larger_first, equal)
            heads.append(new)
    return cost, merged


N_VARIANTS = [(lf, eq) for lf in (True, False) for eq in ("order", "none", "all")]


def swaps_oracle(lists, radix, latency, variant=(True, "order")):
    """-> (total, ties): ties = some merge group holds the same coordinate in two lists."""
    lists = [list(x) for x in lists]
    total = 0
    ties = False
    while len(lists) > 1:
        r = len(lists) if radix == "inf" else min(radix, len(lists))
        nxt = []
        for s in range(0, len(lists), r):
            group = lists[s:s + r]
            allc = [c for g in group for c in g]
            if len(set(allc)) != len(allc):
                ties = True
            if latency == "N":
                cost, merged = _merge_N(group, *variant)
                merged = sorted(merged)
            else:
                merged = sorted(allc)
                cost = latency * (len(group) + len(merged))
            total += cost
            nxt.append(merged)
        lists = nxt
    return total, ties


def _revalue(tree, salt):
    out = []
    for c, p in tree:
        if isinstance(p, list):
            out.append([c, _revalue(p, salt * 31 + c + 1)])
        else:
            v = ((p * 7 + salt * 13 + c) % 19) - 9
            out.append([c, v if v != 0 else 4])
    return out


# (decided: repaired, repository fix cc80d79): on the unchanged tree a list whose EVERY element is default-valued (a lower
# fiber of stored zeros only / of empty sub-fibers only) is not charged at all - neither per list nor per element -
# because _numSwapsTree walks the upper fiber with the skipping iterator, while a list with a single non-default
# element is charged for all its stored coordinates (numSwaps 17 -> 6 for three two-element lists, radix 2,
# latency 1, when the first list's two payloads are set to 0).  Until that is decided the generator leaves at
# least one non-default element in every merged list.  Lifted, such inputs report under
# numSwaps:<latency>:...:list-of-default-valued-elements.
NUMSWAPS_ALLOW_ALL_DEFAULT_LISTS = True      # fixed in the repository by cc80d79


def _is_default_valued(p):
    """The payload equals the default as fiber iteration sees it: a 0 leaf, or a sub-fiber without any
    non-default leaf (empty, or holding default-valued payloads only)."""
    if isinstance(p, list):
        return all(_is_default_valued(q) for _, q in p)
    return p == 0


def _emptied(p, rng):
    """A default-valued payload in place of p: 0 for a leaf; for a sub-fiber either an empty sub-fiber or the
    same coordinates with every payload default-valued in turn."""
    if not isinstance(p, list):
        return 0
    if rng.random() < 0.5:
        return []
    return [[c, _emptied(q, rng)] for c, q in p]


def _with_defaults(tree, depth, rng, level=0):
    """The same stored coordinates at every rank down to the merged lists (the fibers at depth + 1), with the
    payloads of some elements of each list replaced by default-valued ones.  A list of two or more elements
    gets at least one; (guard) every list keeps at least one non-default element."""
    if level <= depth:
        return [[c, _with_defaults(sub, depth, rng, level + 1)] for c, sub in tree]
    n = len(tree)
    pick = [rng.random() < 0.45 for _ in range(n)]
    if n >= 2 and not any(pick):
        pick[rng.randrange(n)] = True
    if n and all(pick) and not NUMSWAPS_ALLOW_ALL_DEFAULT_LISTS:
        pick[rng.randrange(n)] = False
    return [[c, _emptied(p, rng) if k else p] for (c, p), k in zip(tree, pick)]


def _default_census(tree, depth, level=0):
    """-> (default-valued leaves, default-valued sub-fibers, some list is default-valued throughout) over the
    elements of the merged lists."""
    n_leaf = n_sub = 0
    all_dfl = False
    if level <= depth:
        for _, sub in tree:
            a, b, c = _default_census(sub, depth, level + 1)
            n_leaf, n_sub, all_dfl = n_leaf + a, n_sub + b, all_dfl or c
        return n_leaf, n_sub, all_dfl
    for _, p in tree:
        if _is_default_valued(p):
            if isinstance(p, list):
                n_sub += 1
            else:
                n_leaf += 1
    return n_leaf, n_sub, bool(tree) and n_leaf + n_sub == len(tree)


def _run_swaps(case, mon):
    tree = case["tree"]
    depth = case["depth"]
    nranks = case.get("nranks", 2)
    radix = case["radix"]
    lat = case["latency"]
    if not tree:
        return
    groups = _lists_at(tree, depth)
    ties = False
    if lat == "N":
        totals = []
        for var in N_VARIANTS:
            tot = 0
            for g in groups:
                t_, ti = swaps_oracle(g, radix, lat, var)
                tot += t_
                ties = ties or ti
            totals.append(tot)
        lo, hi = min(totals), max(totals)
    else:
        lo = hi = sum(swaps_oracle(g, radix, lat)[0] for g in groups)
    rk = "N" if lat == "N" else "finite"
    what = f"numSwaps(depth={depth}, radix={radix}, latency={lat!r}) over lists {groups}"
    dfl_tree = _with_defaults(tree, depth, random.Random(case.get("reval", 1) * 7919 + depth))
    assert _lists_at(dfl_tree, depth) == groups         # same stored coordinates: same lists, same charge
    n_leaf, n_sub, all_dfl = _default_census(dfl_tree, depth)
    vals = {}
    for variant, spec in (("orig", tree), ("revalued", _revalue(tree, case.get("reval", 1))), ("defaults", dfl_tree)):
        # clause suffix of the keys: the run over stored default-valued payloads is told apart; a list whose EVERY
        # element is default-valued (only driven when the guard above is lifted) gets its own class
        sfx = "" if variant != "defaults" else (":list-of-default-valued-elements" if all_dfl else ":default-valued-payloads")
        try:
            t = gen.tensor_from_spec(spec, ["M", "K", "N", "P", "Q"][:nranks])
            got = Compute.numSwaps(t, depth, float("inf") if radix == "inf" else radix, lat)
        except BaseException as e:      # noqa
            mon.violation(f"numSwaps:{rk}-latency:raised:{type(e).__name__}{sfx}", f"{what} raised {type(e).__name__}: {e}"
                          + (f" (payloads {dfl_tree})" if sfx else ""))
            return
        mon.count("numswaps_calls")
        if lat == "N":
            mon.count("numswaps_N_calls")
            if not ties:
                mon.count("numswaps_N_tiefree_calls")
        elif lat == 0:
            mon.count("numswaps_zero_latency_calls")
        if variant == "defaults" and n_leaf + n_sub:
            mon.count("numswaps_default_payload_calls")
            mon.count("numswaps_default_payload_elements", n_leaf + n_sub)
            if n_sub:
                mon.count("numswaps_default_subfiber_calls")
            if lat == "N":
                mon.count("numswaps_N_default_payload_calls")
        vals[variant] = got
        if variant != "revalued":
            tail = f" (stored payloads, default-valued ones included: {dfl_tree})" if sfx else ""
            if lo == hi:
                mon.check(got == lo, f"numSwaps:{rk}-latency:total{sfx}",
                          f"{what}: library reports {got}, independent round-by-round simulation gives {lo}{tail}")
            else:
                mon.check(lo <= got <= hi, f"numSwaps:N-latency:total:outside-tie-bounds{sfx}",
                          f"{what}: library reports {got}; the insertion-comparison count lies in [{lo}, {hi}] whatever "
                          f"the order among equal coordinates{tail}")
    mon.check(vals["orig"] == vals["revalued"], f"numSwaps:{rk}-latency:payload-dependence",
              f"{what}: {vals['orig']} with the original payloads, {vals['revalued']} after re-drawing the (non-zero) payload values")
    mon.check(vals["orig"] == vals["defaults"], f"numSwaps:{rk}-latency:payload-dependence"
              + (":list-of-default-valued-elements" if all_dfl else ":default-valued-payloads"),
              f"{what}: {vals['orig']} with the original payloads, {vals['defaults']} with the same stored coordinates after "
              f"some payloads were replaced by default-valued ones (a stored 0, an empty or all-default sub-fiber): {dfl_tree}")
    if any(len(g) >= 2 for g in groups):
        mon.nontrivial()
    mon.state(("swaps", lo, hi, depth, str(radix), str(lat)))
