"""C08 - splitting partitions a fiber losslessly at exactly the specified boundaries.

Monitor: for every fiber the split targets (the root at depth 0, every fiber of the named rank at
depth 1-2, every partition in a nested re-split) the partitioning is recomputed from the *raw* element
list of the original (non-empty elements, their values, the reported active range) by a ~40-line
reference model per split kind, and compared with the raw tree of the result: upper coordinates, per
partition the member coordinates, relative offsets, values (sub-trees for interior ranks) and active
range.  On top of the model comparison, model-independent clause checks are evaluated on every result:
partitions' active ranges ascending, pairwise disjoint and inside the parent's; every active non-empty
element in exactly one partition's active range and stored there; every member inside its partition's
active range widened by the halos; position-space chunks of the stated sizes (remainder last).
"""
from fibertree import Fiber, Payload, Tensor

from fvmon import gen
from fvmon.observe import content, unbox, spec_of

SPEC = {
    "anchors": ["fibertree.core.fiber:Fiber.splitUniform", "fibertree.core.fiber:Fiber.splitNonUniform", "fibertree.core.fiber:Fiber._splitNonUniform_iter", "fibertree.core.fiber:Fiber.splitEqual", "fibertree.core.fiber:Fiber.splitUnEqual", "fibertree.core.fiber:Fiber._splitGeneric", "fibertree.core.fiber:Fiber._splitFiber", "fibertree.core.fiber:Fiber.__truediv__", "fibertree.core.fiber:Fiber.__floordiv__", "fibertree.core.tensor:Tensor._splitGeneric"],
    "rule": ("case = one tree (depth 1-3; 3-state occupancy vector over 5 (quick) / 7 (thorough) coordinates or random; "
             "explicit default payloads, empty sub-fibers; leaf default 0 or 7; declared shapes; explicit active ranges "
             "not aligned to any step, set on the fibers of the split rank) x one entry point (free Fiber method, "
             "Tensor method / method of a tensor's root fiber with the split rank named by depth=, by rankid=, or by rankid= "
             "together with a depth= that names another rank (rankid is documented to override depth); the in-place "
             "split*Below closures) x a "
             "list of splits (splitUniform steps 1..9, splitNonUniform lists with/without leading 0 and with boundaries at "
             "/ beyond the end of the active range, splitEqual, splitUnEqual with sum of sizes below/equal/above the "
             "occupancy, f / n, f // n; halos 0..3 on both sides; relativeCoords; depth 0..2), or a nested re-split "
             "(second split applied to every partition of the first, through depth+1 or on the extracted partition). "
             "Non-trivial = some split of the case produced at least 2 partitions from a fiber holding at least 2 "
             "active non-empty elements; distinct = distinct case."),
    "shards": {"quick": 16, "thorough": 16},
    "min_counts": {"quick": {"evaluations": 800, "oracle_evals": 200000, "splits_checked": 20000, "targets_checked": 25000,
                             "partitions_checked": 40000, "halo_splits": 8000, "relative_splits": 3000,
                             "position_space_splits": 5000, "div_splits": 1000, "deep_splits": 1500,
                             "tensor_splits": 800, "nested_resplits": 300, "elements_located": 50000, "boundary_fiber_splits": 1500,
                             "tensor_level_lookups": 8000, "both_named_splits": 600, "depth_rankid_disagree_splits": 300},
                   "thorough": {"evaluations": 10000, "oracle_evals": 4000000, "splits_checked": 400000,
                                "deep_splits": 30000, "tensor_splits": 15000, "nested_resplits": 6000,
                                "tensor_level_lookups": 100000, "both_named_splits": 12000, "depth_rankid_disagree_splits": 6000}},
    "assumptions": [
        "integer coordinates >= 0, ordered/unique fibers, rank format C (the library documents that U-format iteration does not work with halos)",
        "step >= 1, n >= 1 for / and //, halos integers >= 0, split lists non-empty and strictly increasing, size lists non-empty with sizes >= 1",
        "declared active ranges are non-empty (lo < hi); the parent's active range is what getActive() reports before the split (its derivation from shapes is C14's)",
        "splitNonUniform: elements below the first boundary belong to no partition (the repository's tests fix this reading) and are not required to appear",
        "position-space 'element' = non-empty element inside the active range; chunks have the stated sizes and the remainder forms one further, last chunk; "
        "f // n is splitEqual(ceil(len/n)) with len counting stored positions; f / n is splitUniform(ceil(shape/n)) with the shape getShape() reports",
        "with halos, a partition shows the elements inside its active range (interval clipped to the parent's) widened by the halos on both sides",
        "a fiber of the split rank that holds no non-empty element has no non-empty partition: its split is an upper level without coordinates "
        "(except through the in-place split*Below closures, which are updatePayloads() applications and visit non-empty payloads only)",
        "nested re-splits take a first split with absolute coordinates (with relativeCoords the partition's active range stays absolute, as the statement says, while its coordinates are offsets)",
        "when a call gives both rankid= and depth=, the rank being split is the one rankid names (every split method documents "
        "'rankid ... overrides the depth argument'); the depth= value given alongside always names an existing rank",
        "the upper level / lower fibers of a split of rank R of a Tensor are the levels the result tensor lists as R.1 / R.0 (documented "
        "naming): each must be listed once, at the tree levels where the split rank was; nothing else about the rank-id list is used here",
        "payloads are compared by value (public entry points deep-copy first; aliasing is C10's); rank ids / shapes / the upper fiber's own active range are C14's",
    ],
}

INF = float("inf")
KINDS = ["splitUniform", "splitNonUniform", "splitEqual", "splitUnEqual"]
SPLIT_LISTS = [[0], [2], [0, 3], [1, 4], [3], [0, 2, 4], [2, 9], [5], [4, 5], [0, 1, 2, 3], [6, 8], [1], [7], [3, 4, 7]]
SIZE_LISTS = [[1], [2], [1, 1], [2, 1], [1, 2], [3, 1], [2, 2], [1, 1, 1], [4], [2, 3], [1, 3, 1], [5, 2]]


# ------------------------------------------------------------------------------------------
# generation
# ------------------------------------------------------------------------------------------
def _op(name, arg, rel=False, pre=0, post=0, depth=0, by="depth"):
    """`depth` is always the rank the split is *meant* for (the oracle's target).  by = how the call names it:
    "depth" (depth=), "rankid" (rankid=) or "both" (rankid= naming the target together with a depth= naming the
    rank op["decoy"]; rankid is documented to override depth)."""
    return {"op": name, "arg": arg, "rel": bool(rel), "pre": pre, "post": post, "depth": depth, "by": by}


def _rand_by(rng, entry):
    if entry not in ("tensor", "root"):
        return "depth"
    return rng.choice(["depth", "depth", "rankid", "rankid", "both", "both"])


def _set_decoy(rng, op, nlevels):
    """For a by="both" call: the depth= argument names any rank of the tree, preferably not the target."""
    if op["by"] == "both":
        others = [k for k in range(nlevels) if k != op["depth"]]
        op["decoy"] = rng.choice(others) if others and rng.random() < 0.9 else op["depth"]
    return op


def _sys_ops(n, hmax, thorough, salt):
    """Systematic split list for a leaf fiber over {0..n-1}."""
    ops = []
    k = salt
    halos = [(a, b) for a in range(hmax + 1) for b in range(hmax + 1)]
    for step in range(1, n + 2):
        for pre, post in halos:
            if step > 4 and max(pre, post) > 2:
                continue
            k += 1
            ops.append(_op("splitUniform", step, k % 3 == 0, pre, post))
    few = [(0, 0), (1, 0), (0, 1), (2, 2), (3, 3), (0, 3), (3, 0)] if thorough else [(0, 0), (1, 0), (0, 1), (2, 2), (3, 3)]
    for sl in SPLIT_LISTS if thorough else SPLIT_LISTS[:10]:
        for pre, post in few:
            k += 1
            ops.append(dict(_op("splitNonUniform", sl, k % 3 == 0, pre, post), argform=["list", "fiber", "fiber-zeros"][k % 3 if k % 2 else 0]))
    for st in range(1, (6 if thorough else 5)):
        for pre, post in few:
            k += 1
            ops.append(_op("splitEqual", st, k % 3 == 0, pre, post))
    for sz in SIZE_LISTS if thorough else SIZE_LISTS[:8]:
        for pre, post in few[:(5 if thorough else 3)]:
            k += 1
            ops.append(_op("splitUnEqual", sz, k % 3 == 0, pre, post))
    for m in range(1, 5):
        ops.append(_op("truediv", m))
        ops.append(_op("floordiv", m))
    return ops


def generate(rng, tier, shard, nshards, mon):
    thorough = tier != "quick"
    n = 7 if thorough else 5
    hmax = 3 if thorough else 2
    actives = [None, [1, n - 1], [2, n + 2]]
    idx = 0
    for vec in gen.all_state_vectors(n):
        for ai, act in enumerate(actives):
            if idx % nshards == shard:
                default = 7 if (idx // nshards) % 5 == 4 else 0
                shape = None if (idx // nshards) % 3 else [n + (idx % 3)]
                yield {"kind": "ops", "sys": True, "tree": gen.states_to_leaf_spec(vec, default=default), "levels": 1,
                       "default": default, "shape": shape, "entry": "fiber" if (idx // nshards) % 4 else "tensor",
                       "actives": {"0": [act]} if act else {}, "ops": _sys_ops(n, hmax, thorough, idx)}
            idx += 1
    mon.exhaustive[f"leaf-3state-n{n}-x-actives-x-all-steps-halos<={hmax}"] = True
    nrand = (2600 if not thorough else 60000) // nshards
    for _ in range(nrand):
        yield _random_case(rng)


def _rand_active(rng, ext):
    lo = rng.randint(0, max(0, ext - 1))
    return [lo, lo + rng.randint(1, ext + 2)]


def _rand_op(rng, ext, depth, by="depth", allow_div=False):
    r = rng.random()
    pre, post = rng.choice([0, 0, 1, 2, 3]), rng.choice([0, 0, 1, 2, 3])
    rel = rng.random() < 0.3
    if allow_div and r < 0.10:
        return _op(rng.choice(["truediv", "floordiv"]), rng.randint(1, 5))
    if r < 0.35:
        return _op("splitUniform", rng.randint(1, 9), rel, pre, post, depth, by)
    if r < 0.60:
        k = rng.randint(1, 4)
        pts = sorted(rng.sample(range(0, ext + 5), min(k, ext + 5)))
        if rng.random() < 0.35 and pts[0] != 0:
            pts = [0] + pts
        # the boundaries may come as a fiber (its coordinates are the boundaries, whatever its payloads are)
        return dict(_op("splitNonUniform", pts, rel, pre, post, depth, by), argform=rng.choice(["list", "list", "fiber", "fiber-zeros"]))
    if r < 0.80:
        return _op("splitEqual", rng.randint(1, 5), rel, pre, post, depth, by)
    return _op("splitUnEqual", [rng.randint(1, 4) for _ in range(rng.randint(1, 4))], rel, pre, post, depth, by)


def _random_case(rng):
    levels = rng.choice([1, 1, 2, 2, 3])
    default = rng.choice([0, 0, 0, 7])
    ext = [rng.randint(1, 12 if levels == 1 else 7) for _ in range(levels)]
    tree = gen.rand_tree_spec(rng, ext, rng.choice([0.4, 0.6, 0.9]), rng.choice([0.0, 0.4, 0.6]), default)
    entry = rng.choice(["fiber", "fiber", "tensor", "tensor", "root", "below"])
    if levels == 1 and entry == "below":
        entry = "fiber"
    shape = None
    if entry in ("tensor", "root") or rng.random() < 0.4:
        shape = [e + rng.choice([0, 0, 1, 3]) for e in ext]
    if entry in ("tensor", "root") and rng.random() < 0.3:
        shape = None
    actives = {}
    for d in range(levels):
        if rng.random() < 0.45:
            actives[str(d)] = [(_rand_active(rng, ext[d]) if rng.random() < 0.8 else None) for _ in range(rng.randint(1, 3))]
    case = {"tree": tree, "levels": levels, "default": default, "shape": shape, "entry": entry, "actives": actives}
    maxd = levels - 1
    if rng.random() < 0.25:
        # nested re-split
        d = rng.randint(0, maxd) if entry != "below" else rng.randint(1, maxd)
        by = _rand_by(rng, entry)
        first = _set_decoy(rng, _rand_op(rng, ext[d], d, by), levels)
        first["rel"] = False
        second = _set_decoy(rng, _rand_op(rng, ext[d], d + 1, by), levels + 1)
        mode = "lower"
        if entry == "fiber" and d == 0 and rng.random() < 0.5:
            mode = "partition"
            second["depth"] = 0
        if entry == "root":
            case["entry"] = "tensor"
        case.update({"kind": "nested", "first": first, "second": second, "mode": mode})
        return case
    ops = []
    for _ in range(rng.randint(4, 10)):
        d = rng.randint(0, maxd)
        if entry == "below":
            d = rng.randint(1, maxd)
        by = _rand_by(rng, entry)
        ops.append(_set_decoy(rng, _rand_op(rng, ext[d], d, by, allow_div=(d == 0 and entry != "below")), levels))
        if ops[-1]["op"] in ("truediv", "floordiv"):
            ops[-1]["depth"] = 0
    case.update({"kind": "ops", "ops": ops})
    return case


# ------------------------------------------------------------------------------------------
# reference model (independent of the implementation; works on raw element lists)
# ------------------------------------------------------------------------------------------
def candidate_partitions(op, arg, active_coords, a0, a1):
    """Half-open intervals (s, e) of the partitions that intersect the active range, ascending."""
    if a1 <= a0:
        return []
    if op == "splitUniform":
        out = []
        s = (a0 // arg) * arg
        while s < a1:
            out.append((s, s + arg))
            s += arg
        return out
    if op == "splitNonUniform":
        b = list(arg)
    elif op == "splitEqual":
        b = [a0] + [active_coords[i] for i in range(arg, len(active_coords), arg)] if active_coords else []
    elif op == "splitUnEqual":
        b = []
        if active_coords:
            b = [a0]
            at = 0
            for size in arg:
                at += size
                if at >= len(active_coords):
                    break
                b.append(active_coords[at])
    else:
        raise ValueError(op)
    parts = [(b[i], b[i + 1] if i + 1 < len(b) else INF) for i in range(len(b))]
    return [(s, e) for s, e in parts if e > a0 and s < a1]


def model_split(op, arg, elems, a0, a1, pre, post):
    """elems: [(coord, value image)] non-empty elements, ascending.
    -> (candidates, [(start, [(coord, value)], (lo, hi))] for the partitions that have members)"""
    act = [c for c, _ in elems if a0 <= c < a1]
    cands = candidate_partitions(op, arg, act, a0, a1)
    out = []
    for s, e in cands:
        lo, hi = max(s, a0), min(e, a1)
        members = [(c, v) for c, v in elems if lo - pre <= c < hi + post]
        if members:
            out.append((s, members, (lo, hi)))
    return cands, out


# ------------------------------------------------------------------------------------------
# building and raw observation
# ------------------------------------------------------------------------------------------
def _is_empty(p, d):
    if isinstance(p, Fiber):
        return content(p, d) == {}
    return unbox(p) == d


def _image(p):
    """Value image of a payload: unboxed leaf value or the raw nested spec of a sub-tree."""
    if isinstance(p, Fiber):
        return ["F", spec_of(p)]
    v = unbox(p)
    if isinstance(v, (Payload, Fiber)):
        return ["BOXED", repr(v)]
    return v


def _fibers_at(root, depth):
    """[(path, fiber-or-other)] of the nodes `depth` levels below root, raw walk in stored order."""
    level = [((), root)]
    for _ in range(depth):
        nxt = []
        for path, f in level:
            if not isinstance(f, Fiber):
                continue
            for c, p in zip(f.coords, f.payloads):
                nxt.append((path + (c,), p))
        level = nxt
    return level


def _build(case):
    """-> (object the split is called on, root fiber, rank ids)"""
    d = case["default"]
    levels = case["levels"]
    ids = gen.rank_ids_for(levels)
    if case["entry"] in ("tensor", "root"):
        t = gen.tensor_from_spec(case["tree"], ids, shape=case["shape"], default=d)
        root = t.getRoot()
        obj = t if case["entry"] == "tensor" else root
    else:
        root = gen.fiber_from_spec(case["tree"], d, shape=case["shape"])
        obj = root
    for ds, ranges in (case.get("actives") or {}).items():
        for i, (_, f) in enumerate(_fibers_at(root, int(ds))):
            r = ranges[i % len(ranges)]
            if r is not None and isinstance(f, Fiber):
                f.setActive((r[0], r[1]))
    return obj, root, ids


def _invoke(obj, op, entry, ids):
    """Call the public entry point; returns the result's root fiber (raw)."""
    name, arg = op["op"], op["arg"]
    if name == "truediv":
        res = obj / arg
    elif name == "floordiv":
        res = obj // arg
    else:
        kw = {}
        if op["rel"]:
            kw["relativeCoords"] = True
        if op["pre"]:
            kw["pre_halo"] = op["pre"]
        if op["post"]:
            kw["post_halo"] = op["post"]
        a = list(arg) if isinstance(arg, list) else arg
        if name == "splitNonUniform" and op.get("argform", "list") != "list":
            zeros = op["argform"] == "fiber-zeros"
            a = Fiber(list(arg), [(0 if (zeros and i % 2 == 0) else i + 1) for i in range(len(arg))])
        if entry == "below":
            getattr(obj, name + "Below")(a, depth=op["depth"] - 1, **kw)
            res = obj
        else:
            if op["by"] == "rankid":
                kw["rankid"] = ids[op["depth"]]
            elif op["by"] == "both":
                # rankid names the rank to split; depth names another one and is documented to be overridden
                kw["rankid"] = ids[op["depth"]]
                kw["depth"] = op.get("decoy", op["depth"])
            elif op["depth"] or entry == "tensor":
                kw["depth"] = op["depth"]
            res = getattr(obj, name)(a, **kw)
    if isinstance(res, Tensor):
        return res, res.__dict__.get("_root")
    return res, res


def _observe_targets(root, depth, d):
    """Raw description of the fibers a split at `depth` targets, taken before the call."""
    out = []
    for path, f in _fibers_at(root, depth):
        if not isinstance(f, Fiber):
            out.append({"path": path, "fiber": False})
            continue
        elems = [(c, _image(p)) for c, p in zip(f.coords, f.payloads) if not _is_empty(p, d)]
        a0, a1 = f.getActive()
        out.append({"path": path, "fiber": True, "elems": elems, "a0": a0, "a1": a1, "stored": len(f.coords), "spec": spec_of(f),
                    "shape": f.getShape(all_ranks=False) if depth == 0 else None})
    return out


def _upper_skeleton(root, depth):
    """Coordinates of every level above the split rank (they must come through unchanged)."""
    return [[(path, list(f.coords)) for path, f in _fibers_at(root, k) if isinstance(f, Fiber)] for k in range(depth)]


# ------------------------------------------------------------------------------------------
# the oracle for one split call
# ------------------------------------------------------------------------------------------
def _effective(op, tgt):
    """(kind, argument) of the split the shorthand operators stand for."""
    name, arg = op["op"], op["arg"]
    if name == "truediv":
        shape = tgt["shape"]
        return "splitUniform", (shape + arg - 1) // arg
    if name == "floordiv":
        return "splitEqual", (tgt["stored"] + arg - 1) // arg
    return name, arg


def _check_result(mon, op, targets, skeleton, res_root, d, entry="fiber"):
    """Compare the raw result tree with the model, target by target.  Returns per-target observations
    [(target, [(start, lower fiber, (lo, hi))])] for the targets that were split."""
    name = op["op"]
    depth = op["depth"]
    pre, post, rel = op["pre"], op["post"], op["rel"]
    seen = []
    if not mon.check(isinstance(res_root, Fiber), f"{name}:result-not-a-fiber", f"{name}: result root is {type(res_root).__name__}"):
        return seen, False
    got_skel = _upper_skeleton(res_root, depth)
    if not mon.check(got_skel == skeleton, f"{name}:levels-above-changed",
                     f"{name} depth={depth}: coordinates above the split rank changed: {got_skel} != {skeleton}"):
        return seen, False      # the split happened somewhere else: target paths mean nothing
    nodes = dict(_fibers_at(res_root, depth))
    big = False
    for tgt in targets:
        if not tgt["fiber"]:
            continue
        mon.count("targets_checked")
        node = nodes.get(tgt["path"])
        what = f"{name}({op['arg']}, rel={rel}, pre={pre}, post={post}, depth={depth}) of elements " \
               f"{[c for c, _ in tgt['elems']]} active=({tgt['a0']},{tgt['a1']})"
        if not mon.check(isinstance(node, Fiber), f"{name}:target-missing", f"{what}: no fiber at {tgt['path']} in the result"):
            continue
        elems, a0, a1 = tgt["elems"], tgt["a0"], tgt["a1"]
        if not elems:
            # no non-empty partition: the upper level has no coordinates
            got = list(node.coords)
            if entry == "below":
                # the split*Below closures are updatePayloads() applications: it visits non-empty payloads only
                mon.check(spec_of(node) == tgt["spec"] or not got, f"{name}:upper-coords",
                          f"{what}: upper coordinates {got}, no partition has members")
            elif got and depth > 0 and spec_of(node) == tgt["spec"]:
                mon.violation("deep-split:all-default-fiber-left-unsplit",
                              f"{what}: the fiber at {tgt['path']} holds only explicit defaults / empty sub-fibers and was left "
                              f"unsplit ({tgt['spec']}); expected an upper level without coordinates (leaf depth is now uneven)")
            else:
                mon.check(not got, f"{name}:upper-coords", f"{what}: upper coordinates {got}, no partition has members")
            mon.check(content(node, d) == {}, f"{name}:empty-target-gained-content", f"{what}: result holds {spec_of(node)}")
            continue
        if depth > 0 and spec_of(node) == tgt["spec"]:
            mon.violation("deep-split:fiber-left-unsplit",
                          f"{what}: the fiber at {tgt['path']} came through unsplit although it holds non-empty elements")
            continue
        kind, arg = _effective(op, tgt)
        if kind == "splitUniform" and arg < 1 or kind == "splitEqual" and arg < 1:
            continue
        cands, exp = model_split(kind, arg, elems, a0, a1, pre, post)
        # ---- shape of the result: an upper fiber whose payloads are fibers
        lowers = list(zip(node.coords, node.payloads))
        if not mon.check(all(isinstance(p, Fiber) for _, p in lowers) and len(node.coords) == len(node.payloads),
                         f"{name}:upper-payload-not-fiber", f"{what}: upper level holds {[type(p).__name__ for _, p in lowers]}"):
            continue
        mon.count("partitions_checked", len(lowers))
        got_upper = [c for c, _ in lowers]
        exp_upper = [s for s, _, _ in exp]
        ok_upper = mon.check(got_upper == exp_upper, f"{name}:upper-coords",
                             f"{what}: upper coordinates {got_upper}, partitions with members start at {exp_upper}")
        mon.check(all(got_upper[i] < got_upper[i + 1] for i in range(len(got_upper) - 1)), f"{name}:upper-order",
                  f"{what}: upper coordinates not strictly ascending: {got_upper}")
        obs = []
        rel_broken = False
        for s, low in lowers:
            if len(low.coords) != len(low.payloads):
                mon.violation(f"{name}:lower-length", f"{what}: partition {s} has {len(low.coords)} coords, {len(low.payloads)} payloads")
                continue
            obs.append((s, low, low.getActive()))
        if ok_upper and len(obs) == len(exp):
            for (s, low, ar), (_, members, ear) in zip(obs, exp):
                raw = list(low.coords)
                want = [c - s if rel else c for c, _ in members]
                if raw != want:
                    offs = {b - a for a, b in zip(want, raw)}
                    if rel and len(raw) == len(want) and len(offs) == 1:
                        key = "relative-coords"         # right members, wrong offset
                        rel_broken = True
                    else:
                        key = "halo-members" if (pre or post) else "members"
                    mon.violation(f"{name}:{key}", f"{what}: partition {s} stores coordinates {raw}, expected {want} "
                                                   f"(members {[c for c, _ in members]})")
                else:
                    mon.count("oracle_evals")
                    vals = [_image(p) for p in low.payloads]
                    mon.check(vals == [v for _, v in members], f"{name}:payload-values",
                              f"{what}: partition {s} payloads {vals}, original values {[v for _, v in members]}")
                    mon.check(all(isinstance(p, (Payload, Fiber)) for p in low.payloads), f"{name}:payload-unboxed",
                              f"{what}: partition {s} stores bare values")
                mon.check(tuple(ar) == tuple(ear), f"{name}:active-range",
                          f"{what}: partition {s} active range {ar}, its interval clipped to the parent's is {ear}")
        # ---- model-independent clause checks on what was observed
        if not rel_broken:      # (with wrong offsets the absolute positions of the members are unknown)
            _clause_checks(mon, name, kind, arg, what, elems, a0, a1, pre, post, rel, obs)
        if len(obs) >= 2 and sum(1 for c, _ in elems if a0 <= c < a1) >= 2:
            big = True
        seen.append((tgt, obs))
        mon.state((kind, got_upper, [list(low.coords) for _, low, _ in obs], [list(ar) for _, _, ar in obs]))
    return seen, big


def _check_named_levels(mon, op, res, ids):
    """A split of rank R of a *tensor*: the upper level and the lower fibers are levels of the result tensor, and a
    tensor addresses its levels by rank.  The documented names of the two levels are `R.1` and `R.0`; the result
    tensor must list them (once each) at the tree levels where the split rank was, i.e. where _check_result looks
    for - and finds - the upper coordinates and the partitions.  Only the position of these two names is used."""
    name, depth = op["op"], op["depth"]
    rid = ids[depth]
    mon.count("tensor_level_lookups")
    try:
        got = list(res.getRankIds())
    except Exception as e:      # noqa
        mon.violation(f"{name}:tensor-levels:raised:{type(e).__name__}", f"{name} of rank {rid}: getRankIds() of the result raised {e}")
        return
    up = [i for i, r in enumerate(got) if r == f"{rid}.1"]
    low = [i for i, r in enumerate(got) if r == f"{rid}.0"]
    mon.check(up == [depth] and low == [depth + 1], f"{name}:split-levels-not-at-named-rank",
              f"{name}({op['arg']}) of rank {rid!r} (tree level {depth}; called by={op['by']}"
              f"{', depth=' + str(op.get('decoy')) if op['by'] == 'both' else ''}) of a tensor with ranks {ids}: the result lists the upper "
              f"level {rid + '.1'!r} at levels {up} and the lower fibers {rid + '.0'!r} at levels {low} of {got}; "
              f"the split rank's levels are {depth} and {depth + 1}")


def _clause_checks(mon, name, kind, arg, what, elems, a0, a1, pre, post, rel, obs):
    ranges = [tuple(ar) for _, _, ar in obs]
    ok = all(lo < hi and a0 <= lo and hi <= a1 for lo, hi in ranges) and \
        all(ranges[i][1] <= ranges[i + 1][0] for i in range(len(ranges) - 1))
    mon.check(ok, f"{name}:tiling", f"{what}: partition active ranges {ranges} are not ascending, disjoint, non-empty "
                                    f"sub-ranges of the parent's ({a0},{a1})")
    absolute = []
    for s, low, (lo, hi) in obs:
        cs = [c + s for c in low.coords] if rel else list(low.coords)
        absolute.append(cs)
        mon.check(all(lo - pre <= c < hi + post for c in cs), f"{name}:member-outside-window",
                  f"{what}: partition {s} with active range ({lo},{hi}) holds coordinates {cs} outside its range widened by the halos")
        mon.check(all(cs[i] < cs[i + 1] for i in range(len(cs) - 1)), f"{name}:member-order",
                  f"{what}: partition {s} coordinates not strictly ascending: {cs}")
        if not (pre or post):
            mon.check(s <= lo and all(s <= c for c in cs), f"{name}:start-boundary",
                      f"{what}: partition starting at {s} holds {cs} / active range ({lo},{hi})")
    first = arg[0] if kind == "splitNonUniform" else None
    stored = {c for c, _ in elems}
    for cs in absolute:
        mon.check(all(c in stored for c in cs), f"{name}:invented-element", f"{what}: partition holds {cs}, not all are non-empty elements of the original")
    for c, _ in elems:
        if not (a0 <= c < a1) or (first is not None and c < first):
            continue
        mon.count("elements_located")
        homes = [i for i, (lo, hi) in enumerate(ranges) if lo <= c < hi]
        inside = [i for i in homes if c in absolute[i]]
        mon.check(len(homes) == 1 and len(inside) == 1, f"{name}:lossless",
                  f"{what}: active element {c} lies in the active range of {len(homes)} partitions and is stored in {len(inside)} of them")
        if not (pre or post):
            n = sum(1 for cs in absolute if c in cs)
            mon.check(n == 1, f"{name}:not-exactly-once", f"{what}: element {c} stored {n} times without halos")
    if kind in ("splitEqual", "splitUnEqual"):
        # chunk sizes counted over the elements inside each partition's own active range
        sizes = [sum(1 for c in cs if lo <= c < hi) for cs, (lo, hi) in zip(absolute, ranges)]
        total = sum(1 for c, _ in elems if a0 <= c < a1)
        want, left = [], total
        stated = [arg] * (total // arg + 1) if kind == "splitEqual" else list(arg)
        for sz in stated:
            if left <= 0:
                break
            want.append(min(sz, left))
            left -= min(sz, left)
        if left > 0:
            want.append(left)
        mon.check(sizes == want, f"{name}:chunk-sizes", f"{what}: chunk sizes {sizes}, stated sizes give {want} (remainder last)")


def _run_split(mon, case, op, obj, root, ids, d, entry):
    """One split call under the oracle.  Returns (result object, result root, seen) or None."""
    name = op["op"]
    depth = op["depth"]
    targets = _observe_targets(root, depth, d)
    skeleton = _upper_skeleton(root, depth)
    try:
        res, res_root = _invoke(obj, op, entry, ids)
    except BaseException as e:      # noqa
        if isinstance(e, KeyboardInterrupt):
            raise
        suffix = ""
        if isinstance(e, ValueError) and name in KINDS:
            # classify: no partition of some target intersects its active range (nothing to put an element in)
            for tgt in targets:
                if tgt["fiber"] and tgt["elems"]:
                    act = [c for c, _ in tgt["elems"] if tgt["a0"] <= c < tgt["a1"]]
                    if not candidate_partitions(name, op["arg"], act, tgt["a0"], tgt["a1"]):
                        suffix = ":no-active-partition"
        mon.violation(f"{name}:raised:{type(e).__name__}{suffix}",
                      f"{name}({op['arg']}, rel={op['rel']}, pre={op['pre']}, post={op['post']}, depth={depth}, by={op['by']}"
                      f"{', depth= names level ' + str(op.get('decoy')) if op['by'] == 'both' else ''}) via {entry} "
                      f"raised {type(e).__name__}: {e}; targets "
                      f"{[([c for c, _ in t['elems']], (t['a0'], t['a1'])) for t in targets if t['fiber']][:4]}")
        return None
    mon.count("splits_checked")
    if op.get("argform", "list") != "list":
        mon.count("boundary_fiber_splits")
    if op["pre"] or op["post"]:
        mon.count("halo_splits")
    if op["rel"]:
        mon.count("relative_splits")
    if name in ("splitEqual", "splitUnEqual", "floordiv"):
        mon.count("position_space_splits")
    if name in ("truediv", "floordiv"):
        mon.count("div_splits")
    if depth > 0:
        mon.count("deep_splits")
    if entry in ("tensor", "root"):
        mon.count("tensor_splits")
    if entry == "below":
        mon.count("below_splits")
    if op["by"] == "both":
        mon.count("both_named_splits")
        if op.get("decoy", depth) != depth:
            mon.count("depth_rankid_disagree_splits")
    if isinstance(res, Tensor):
        _check_named_levels(mon, op, res, ids)
    seen, big = _check_result(mon, op, targets, skeleton, res_root, d, entry)
    return res, res_root, seen, big


# ------------------------------------------------------------------------------------------
# run
# ------------------------------------------------------------------------------------------
def run_case(case, mon):
    d = case["default"]
    entry = case["entry"]
    big = False
    if case["kind"] == "ops":
        for op in case["ops"]:
            obj, root, ids = _build(case)
            r = _run_split(mon, case, op, obj, root, ids, d, entry)
            big = big or bool(r and r[3])
    else:
        big = _run_nested(case, mon)
    if big:
        mon.nontrivial()


def _run_nested(case, mon):
    d = case["default"]
    entry = case["entry"]
    first, second = case["first"], case["second"]
    obj, root, ids = _build(case)
    orig_targets = _observe_targets(root, first["depth"], d)
    raw_before = mon.counters["violations_raw"]
    r = _run_split(mon, case, first, obj, root, ids, d, entry)
    if r is None:
        return False
    res, res_root, seen1, big = r
    if mon.counters["violations_raw"] != raw_before:
        return big          # first split already wrong: the second would be judged on a wrong parent
    ids2 = list(ids)
    k = first["depth"]
    if k < len(ids2):
        ids2[k:k + 1] = [f"{ids[k]}.1", f"{ids[k]}.0"]
    leaves = []             # (grand-parent target, partition active range, absolute coords)
    if case["mode"] == "partition":
        for tgt, obs in seen1:
            for s, low, ar in obs:
                mon.count("nested_resplits")
                r2 = _run_split(mon, case, second, low, low, ["P"], d, "fiber")
                if r2 is None:
                    return big
                for t2, obs2 in r2[2]:
                    leaves.append((tgt, obs2))
                big = big or r2[3]
    else:
        obj2 = res if entry in ("tensor",) else res_root
        e2 = entry
        if entry == "below":
            e2 = "below"
        mon.count("nested_resplits")
        r2 = _run_split(mon, case, second, obj2, res_root, ids2, d, e2)
        if r2 is None:
            return big
        big = big or r2[3]
        by_path = {t["path"]: t for t in orig_targets if t["fiber"]}
        for t2, obs2 in r2[2]:
            parent = by_path.get(t2["path"][:-1])
            if parent is not None:
                leaves.append((parent, obs2))
    # ---- partitions of partitions still tile the original
    rel2 = second["rel"]
    groups = {}
    for parent, obs2 in leaves:
        groups.setdefault(parent["path"], (parent, []))[1].extend(obs2)
    for parent, obs2 in groups.values():
        a0, a1 = parent["a0"], parent["a1"]
        ranges = [tuple(ar) for _, _, ar in obs2]
        ok = all(lo < hi and a0 <= lo and hi <= a1 for lo, hi in ranges) and \
            all(ranges[i][1] <= ranges[i + 1][0] for i in range(len(ranges) - 1))
        mon.check(ok, "nested:tiling", f"{first['op']} then {second['op']}: leaf partition active ranges {ranges} are not ascending "
                                       f"disjoint sub-ranges of the original's ({a0},{a1})")
        for c, _ in parent["elems"]:
            if not a0 <= c < a1:
                continue
            n = 0
            for (s, low, (lo, hi)) in obs2:
                if lo <= c < hi and (c - s if rel2 else c) in low.coords:
                    n += 1
            mon.check(n <= 1, "nested:element-in-two-leaf-ranges",
                      f"{first['op']} then {second['op']}: original element {c} is an active member of {n} leaf partitions")
            if first["op"] != "splitNonUniform" and second["op"] != "splitNonUniform":
                mon.check(n == 1, "nested:lossless", f"{first['op']}({first['arg']}) then {second['op']}({second['arg']}): original active "
                                                     f"element {c} is an active member of {n} leaf partitions; leaf ranges {ranges}")
    return big
