"""C01 - fibertrees stay well-formed under every history of public mutations.

Monitor: the WF invariant (observe.WF: coordinates strictly increasing and paired one-to-one with
payloads, leaves singly boxed, interior payloads fibers, all leaves at one depth) evaluated on the raw
lists at every quiescent point of a random history of public mutators (after each step, at each yield
of a populate / dense-reference loop to the body, after an aborted loop), plus atomicity: an operation
rejected for violating coordinate order must leave the raw snapshot (structure, values, box identities)
exactly as it was.
"""
from fvmon import history, gen
from fvmon.observe import WF, wf_kind, snap

SPEC = {
    "anchors": ["fibertree.core.fiber:Fiber._checkOrdered", "fibertree.core.fiber:Fiber._checkUnique", "fibertree.core.fiber:Fiber._coord2pos", "fibertree.core.fiber:Fiber._create_payload", "fibertree.core.fiber:Fiber.append", "fibertree.core.fiber:Fiber.extend", "fibertree.core.fiber:Fiber.__setitem__", "fibertree.core.fiber:Fiber.updateCoords", "fibertree.core.fiber:Fiber.updatePayloads", "fibertree.core.iterators:__lshift__", "fibertree.core.fiber:Fiber.__ilshift__", "fibertree.core.fiber:Fiber.clear", "fibertree.core.fiber:Fiber.__iadd__", "fibertree.core.fiber:Fiber.__imul__", "fibertree.core.iterators:iterRangeShapeRef"],
    "rule": ("case = initial tree (every public constructor; free depth-1 fibers and tensors of depth 1-3; canonical "
             "or holding explicit defaults / empty sub-fibers; default 0 or 7) + a random history of 5-40 (quick) / "
             "5-120 (thorough) public mutators over a 24-operation alphabet with boundary-biased arguments (legal "
             "and order-violating coordinates, negative / out-of-range positions, stale references, CoordPayload "
             "operands, populate bodies that assign / accumulate / leave / write the default / recurse / break / "
             "raise).  Non-trivial = at least 3 steps executed (not skipped) and the tree held an element at some "
             "quiescent point; distinct = distinct case."),
    "shards": {"quick": 16, "thorough": 16},
    "min_counts": {"quick": {"evaluations": 300, "wf_evals": 10000, "steps_executed": 3000, "rejections_checked": 100,
                             "populate_yields": 300, "histories_on_fibers_without_default": 20, "histories_on_free_multilevel_trees": 100, "constructions_from_bad_coordinate_lists": 60, "unexpected_exceptions": 200}},
    "assumptions": [
        "ordered/unique fibers only; the deprecated insertOrLookup is in the alphabet, the deprecated insert/setDefault are not",
        "multi-level trees are tensors; free fibers are one level deep (the default of an interior level of a free fiber is not defined), "
        "some of them built with default=None so that insertions of absent coordinates are rejected half-way through an operation",
        "updateCoords is given injective functions only (uniqueness is the caller's obligation per its docstring)",
        "free (unowned) trees of 2-3 levels hold no empty sub-fibers and are driven by full-depth reference insertions, reads and leaf-level "
        "dense reference iteration only (without ranks an empty interior fiber has no way to know its payload type); all other histories "
        "on free fibers are one level deep",
        "raw sub-fibers are not appended/assigned into tensor-owned interior fibers (that bypasses the tensor's ranks)",
    ],
}


FREE_DEEP_OPS = ["ref", "ref", "ref", "get", "iterref", "stale"]


def generate(rng, tier, shard, nshards, mon):
    n = (2000 if tier == "quick" else 16000) // nshards
    lo, hi = (5, 40) if tier == "quick" else (5, 120)
    for i in range(n):
        if i % 16 == 11:
            # construction from coordinate lists that are not strictly increasing (repeated or out-of-order coordinates): the
            # public constructors either refuse them or deliver a well-formed fiber
            k = rng.randint(2, 6)
            cs = sorted(rng.sample(range(12), k))
            j = rng.randrange(k - 1)
            how = rng.choice(["repeat", "repeat", "swap", "repeat-last"])
            if how == "repeat":
                cs[j + 1] = cs[j]
            elif how == "repeat-last":
                cs[-1] = cs[-2]
            else:
                cs[j], cs[j + 1] = cs[j + 1], cs[j]
            yield {"kind": "ctor", "coords": cs, "via": rng.choice(["Fiber", "fromCoordPayloadList", "nested", "concat", "concat"]),
                   "cut": rng.randint(1, k - 1), "default": rng.choice([0, 7])}
            continue
        if i % 8 == 5:
            # a free (unowned) tree of 2-3 levels without empty sub-fibers, driven by full-depth reference insertions and
            # leaf-level dense reference iteration only: each new fiber learns its payload type from its siblings
            depth = rng.choice([2, 3])
            ext = [rng.randint(2, 4) for _ in range(depth)]
            spec = []
            while not spec:
                spec = gen.rand_tree_spec(rng, ext, rng.choice([0.7, 1.0]), 0.0, 0)
            init = {"depth": depth, "ext": ext, "default": 0, "spec": spec, "own": "free", "shape": None, "ctor": "Fiber",
                    "seed": rng.randrange(1 << 30), "free_deep": True}
            ops = history.gen_ops(rng, init, rng.randint(3, 15), FREE_DEEP_OPS)
            for op in ops:
                if op["op"] == "iterref":
                    op["path"] = [rng.randrange(8) for _ in range(depth - 1)]       # a leaf-level fiber
                if op["op"] == "ref":
                    op["cp"] = False
            yield {"init": init, "ops": ops}
            continue
        init = history.gen_init(rng, max_depth=3, ctors=["fromFiber", "fromFiber", "fromUncompressed", "empty", "fromRandom",
                                                         "deepcopy", "fromYAMLfile", "makePopulated"])
        ops = history.gen_ops(rng, init, rng.randint(lo, hi), history.C01_OPS)
        yield {"init": init, "ops": ops}


class _Hooks(history.Hooks):
    def __init__(self, mon):
        self.mon = mon
        self.before = None
        self.step_label = None
        self.executed = 0
        self.nonempty = False

    def quiescent(self, label, ctx):
        mon = self.mon
        mon.count("wf_evals")
        if label.startswith("populate"):
            mon.count("populate_yields")
        target = ctx.tensor if ctx.tensor is not None else ctx.root
        probs = WF(target)
        if ctx.root.coords:
            self.nonempty = True
        if probs:
            kinds = sorted({wf_kind(p) for p in probs})
            mon.violation(f"wf:{'+'.join(kinds)}:after:{label.split(':')[0]}",
                          f"tree not well-formed at quiescent point '{label}' (step {self.step_label}): " + "; ".join(probs[:3]))
            raise history.StopHistory()
        else:
            mon.count("oracle_evals")

    def before_step(self, i, op, ctx):
        self.step_label = f"#{i} {op['op']}"
        target = ctx.tensor if ctx.tensor is not None else ctx.root
        self.before = snap(target, ids=True, attrs=False)

    def rejected(self, label, ctx, exc):
        mon = self.mon
        mon.count("rejections_checked")
        self.executed += 1
        target = ctx.tensor if ctx.tensor is not None else ctx.root
        after = snap(target, ids=True, attrs=False)
        if not mon.check(after == self.before, f"atomicity:{label}:{type(exc).__name__}",
                         f"{self.step_label} was rejected with {type(exc).__name__} but changed the tree"):
            raise history.StopHistory()

    def unexpected(self, label, ctx, exc):
        self.mon.count("unexpected_exceptions")
        self.mon.count(f"unexpected:{label}:{type(exc).__name__}")
        self.executed += 1

    def skipped(self, label):
        self.mon.count("steps_skipped")


def _run_ctor(case, mon):
    from fibertree import Fiber
    cs, via, d = case["coords"], case["via"], case["default"]
    ps = [i + 1 for i in range(len(cs))]
    mon.count("constructions_from_bad_coordinate_lists")
    try:
        if via == "Fiber":
            f = Fiber(list(cs), list(ps), default=d)
        elif via == "fromCoordPayloadList":
            f = Fiber.fromCoordPayloadList(list(zip(cs, ps)), default=d)
        elif via == "nested":
            f = Fiber([0, 3], [Fiber([1], [1], default=d), Fiber(list(cs), list(ps), default=d)])
        else:
            # two well-formed fibers whose concatenation would not be: the second starts at or below the first's last coordinate
            a_cs, b_cs = sorted(set(cs[:case["cut"]])), sorted(set(cs[case["cut"]:]))
            if not a_cs or not b_cs or b_cs[0] > a_cs[-1]:
                mon.count("steps_skipped")
                return
            a = Fiber(a_cs, [1] * len(a_cs), default=d)
            f = a.concat(Fiber(b_cs, [2] * len(b_cs), default=d))
    except BaseException as e:      # noqa
        if isinstance(e, KeyboardInterrupt):
            raise
        mon.count("bad_coordinate_lists_refused")
        mon.count("oracle_evals")
        mon.nontrivial()
        mon.state(("ctor", via, "refused"))
        return
    probs = WF(f)
    mon.count("oracle_evals")
    if probs:
        kinds = sorted({wf_kind(p) for p in probs})
        mon.violation(f"wf:{'+'.join(kinds)}:after:ctor", f"{via} accepted coordinates {cs} and delivered a fiber that is not well-formed: " + "; ".join(probs[:2]))
    mon.state(("ctor", via, "accepted"))


def run_case(case, mon):
    if case.get("kind") == "ctor":
        _run_ctor(case, mon)
        return
    h = _Hooks(mon)
    n_ops = len(case["ops"])
    if case["init"].get("free_deep"):
        mon.count("histories_on_free_multilevel_trees")
    if case["init"]["default"] is None:
        mon.count("histories_on_fibers_without_default")
    history.run_history(case["init"], case["ops"], h)
    skipped = mon.counters.get("steps_skipped", 0)
    mon.count("steps_executed", n_ops)
    if n_ops >= 3 and h.nonempty:
        mon.nontrivial()
    mon.state((case["init"]["ctor"], case["init"]["depth"], tuple(sorted({o["op"] for o in case["ops"]}))))
