"""C12 - equality, emptiness and counting depend on content only.

Monitor: content oracle (point -> non-default leaf value, extracted from the raw lists) on families of
*representations of the same content* (differing by explicit defaults, empty / all-default sub-fibers,
shapes, ownership, the Python type of the stored numbers, the leaf default) and their one-leaf neighbours;
every ordered pair and sampled triples are compared; operands may be LAZY fibers (given by an iterator over raw elements, or produced
by project()), whose content is read from the element list they were built from.  Every tree is judged against ITS OWN leaf default; a leaf is
default-valued when it is numerically equal to that default (0, 0.0 and False are the same value).
Two further producers of representations: tensors whose ranks are in the UNCOMPRESSED format with a declared shape
(their fibers are walked densely by the library; a fiber may store every coordinate of the shape, explicit defaults
included), and tensors FILLED after construction through the public point API (payload references updated in place).
The content of a tensor is always read from its raw root fiber against the default the tensor was DECLARED with
(never the default the library reports).
"""
import copy
import itertools
import random

from fibertree import CoordPayload, Fiber, Payload, Tensor

from fvmon import gen
from fvmon.observe import content, unbox, snap

SPEC = {
    "anchors": ["fibertree.core.fiber:Fiber.__eq__", "fibertree.core.tensor:Tensor.__eq__", "fibertree.core.payload:Payload.isEmpty", "fibertree.core.fiber:Fiber.isEmpty", "fibertree.core.fiber:Fiber.countValues", "fibertree.core.fiber:Fiber.nonEmpty"],
    "rule": ("cases = (i) grid sweep: every depth-2 tree over a 2x2 grid with cell states {absent, explicit default, "
             "v1, v2} and row states {absent, empty/all-default, present} compared (==, both orders) with every other "
             "such tree, free and tensor-owned, defaults 0 and 7; the same sweep with the stored numbers written in "
             "other Python types (explicit defaults 0.0 / False under the int default 0, 1 against 1.0) and with the "
             "two sides under different leaf defaults (the same cell alphabet {7, 0, 2} read under default 7 and "
             "under default 0); (ii) random families of depth 1-3: several representations of one content map "
             "(leaf numbers freely typed int / float / bool, some under another leaf default that no stored value "
             "equals) + one-leaf neighbours + trees with the SAME storage as a member but another leaf default "
             "(usually one of the stored values); all ordered pairs, triples, deepcopy, "
             "isEmpty, countValues, nonEmpty; (iii) LAZY operands of ==: in (ii) some members, and in (i) side a of a third "
             "sweep (against every free eager tree, both orders), are lazy fibers whose top level is given by "
             "Fiber.fromIterator over the raw elements (explicit defaults and empty sub-fibers included), or produced "
             "by project() with a coordinate-reversing / an increasing trans_fn from the mirrored / shifted tree; "
             "their content is read from the element list (spec), and each must also equal the eager fiber built from "
             "the same elements; (iv) UNCOMPRESSED ranks: a fourth grid sweep and a share of the families hold tensors "
             "with a declared shape (the 2x2 grid / the family's extents, so that fibers storing EVERY coordinate "
             "of the shape - explicit defaults included - occur next to sparse fibers of equal content) and at "
             "least one rank in the 'U' format; (v) FILLED tensors: family members created empty and written leaf "
             "by leaf in a shuffled order through getPayloadRef() and an in-place update of the reference (<<=, .v=, "
             "+= from a zero default; a default-valued leaf may be left as the reference created it; empty "
             "sub-fibers are created by a reference to the prefix), leaf defaults int and float.  "
             "Non-trivial = the family holds at least two structurally different "
             "trees with equal non-empty content, or a pair differing in exactly one leaf; distinct = distinct case."),
    "shards": {"quick": 16, "thorough": 16},
    "min_counts": {"quick": {"evaluations": 300, "eq_checked": 20000, "isempty_checked": 1000,
                             "count_checked": 1000, "nonempty_checked": 1000, "triples_checked": 300, "copy_checked": 1000, "cleared_checked": 300,
                             "mixed_default_pairs": 5000, "same_storage_other_default_pairs": 200,
                             "retyped_default_trees": 300, "lazy_trees": 300,
                             "lazy_trees_with_explicit_default": 100, "lazy_operand_pairs": 10000,
                             "lazy_explicit_default_pairs": 4000, "lazy_lazy_pairs": 300,
                             "uformat_trees": 300, "uformat_pairs": 5000,
                             "uformat_full_fiber_with_explicit_default_pairs": 300,
                             "filled_trees": 300, "filled_float_default_trees": 50,
                             "float_default_trees": 300}},
    "assumptions": [
        "both sides of a comparison have the same depth; their leaf defaults may differ (each tree's content is taken "
        "against its own default: the owning rank's for an owned tree, the construction default for a free one)",
        "leaf values and defaults are Python numbers (int, float, bool) compared by numeric value, so 0.0 / False are "
        "default-valued under default 0 and 1.0 is the same leaf value as 1",
        "tensors compared have identical rank ids (the statement is conditional on that)",
        "ordered/unique fibers",
        "a lazy operand is lazy at its top level only (its sub-trees are eager, as for every lazy fiber the library "
        "produces), carries a declared active range, and yields its elements in ascending coordinate order; isEmpty / "
        "countValues / nonEmpty / deepcopy are not offered for lazy fibers (asserted by the library) and are not "
        "judged on them; the content of a project() result is that of its source under the coordinate map",
        "uncompressed ('U') ranks: restriction lifted (GUARD_UFORMAT is off since the repository fix f02740e): "
        "both sides of a comparison carry the same per-rank formats, the same declared shape and the same leaf "
        "default, and the pruned copy / the cleared tensor of such a tree are compared by raw content (and with an "
        "empty tensor of the same formats and shape) instead of by == with a compressed tree",
        "a filled tensor is judged at a quiescent point (after all writes), against the default it was declared with",
    ],
}


# grid configurations: (name, default of side a, cell alphabet of side a, default of side b, cell alphabet of b).
# A cell alphabet is [absent, s1, s2, s3]; whether a stored number is an explicit default or a real value follows
# from the side's default alone.
GRIDS = [
    ("d0", 0, [None, 0, 1, 2], 0, [None, 0, 1, 2]),
    ("d7", 7, [None, 7, 0, 2], 7, [None, 7, 0, 2]),
    # the same numbers written in other Python types: explicit defaults 0.0 / False, 1 against 1.0
    ("typed", 0, [None, 0.0, 1, 2], 0, [None, False, 1.0, 2]),
    # the same storage alphabet read under two different leaf defaults
    ("cross", 7, [None, 7, 0, 2], 0, [None, 7, 0, 2]),
]


# (guard, now off; repaired by repository fix f02740e) before the repair an operand of == that sits in an uncompressed rank is
# walked densely (iterRangeShape), and Fiber.__eq__ takes the default payloads synthesised for absent coordinates
# as content: equal content compares UNEQUAL when the two sides differ in the format of a rank, in the declared
# shape of an uncompressed rank (or one has none), so also x.nonEmpty() != x and a cleared tensor != an empty
# compressed one; and with different leaf defaults on the two sides different content can compare equal.  With
# the guard on, uncompressed trees are only compared with trees of the same formats, shape and default, and the
# clauses "pruned copy == original" / "cleared == empty" are judged on raw content / against an empty tensor of
# the same formats and shape.  With the guard off the full class is generated (keys ...:formats-differ,
# nonEmpty:not-equal:tensor-U, cleared:not-equal-to-empty:tensor-U).
GUARD_UFORMAT = False     # (the == defect on uncompressed-format trees was repaired in the repository, see known_findings)

# per-rank formats of the uncompressed grid / family members (at least one 'U')
UFMTS2 = (("C", "U"), ("U", "U"), ("U", "C"))


def _ufmts(rng, depth):
    while True:
        f = [rng.choice("CU") for _ in range(depth)]
        if "U" in f:
            return f


def _grid_trees(cells):
    """All depth-2 trees over a 2x2 grid (rows: absent / empty / all-default leaves / present with cells)."""
    rows = [("absent", None), ("empty", [])]
    for c0, c1 in itertools.product(cells, repeat=2):
        leaf = [[i, v] for i, v in enumerate((c0, c1)) if v is not None]
        if leaf:
            rows.append(("present", leaf))
    trees = []
    for (k0, r0), (k1, r1) in itertools.product(rows, repeat=2):
        t = []
        if k0 != "absent":
            t.append([0, r0])
        if k1 != "absent":
            t.append([1, r1])
        trees.append(t)
    return trees


def generate(rng, tier, shard, nshards, mon):
    idx = 0     # round-robin over the selected cases, one kind of case after the other, so that every shard gets its share of each
    for g, (name, da, cells_a, db, cells_b) in enumerate(GRIDS):
        ntrees = len(_grid_trees(cells_a))
        for own in ("free", "tensor", "lazy", "tensor-U"):
            if own == "tensor-U" and GUARD_UFORMAT and da != db:
                continue    # (guard, off: see GUARD_UFORMAT)
            for i in range(ntrees):
                if tier == "quick" and ((own == "tensor" and i % 3) or (own == "lazy" and (i // 2) % 5 != g % 5)
                                        or (own == "tensor-U" and (i // 3) % 4 != g % 4)
                                        or (g >= 2 and (i + g) % 2)):
                    continue
                if idx % nshards == shard:
                    yield {"kind": "grid", "grid": g, "default": da, "i": i, "own": own}
                idx += 1
    mon.exhaustive["grid-2x2-all-pairs"] = True
    n = (1800 if tier == "quick" else 40000) // nshards
    for _ in range(n):
        yield _family(rng)


def _retype(rng, spec, p):
    """The same numbers, some written in another Python type (int -> float; 0/1 also -> bool)."""
    out = []
    for c, v in spec:
        if isinstance(v, list):
            v = _retype(rng, v, p)
        elif type(v) is int and rng.random() < p:
            v = rng.choice([float(v)] + ([bool(v)] if v in (0, 1) else []))
        out.append([c, v])
    return out


def _leaf_values(spec):
    for _, v in spec:
        if isinstance(v, list):
            yield from _leaf_values(v)
        else:
            yield v


def _family(rng):
    depth = rng.choice([1, 2, 2, 3, 3])
    default = rng.choice([0, 0, 7, -1, 0.0, 0.5])
    # a family of tensors with UNCOMPRESSED ranks and a declared shape
    ufam = rng.random() < 0.2
    fixed = ufam and GUARD_UFORMAT      # (guard, off) one format / shape / default per family
    ext = [rng.randint(1, 4) for _ in range(depth)]
    vals = [1, 2, 3, -2, 5] + ([0] if default != 0 else [])
    cont = {}
    for pt in itertools.product(*[range(e) for e in ext]):
        if rng.random() < rng.choice([0.0, 0.3, 0.6]):
            v = rng.choice(vals)
            if v != default:
                cont[pt] = v
    trees, defs = [], []
    # how freely this family's numbers are written as float / bool instead of int
    ptype = rng.choice([0.0, 0.0, 0.3, 1.0])

    def add(c, d, dirty):
        # (in an uncompressed family some members store EVERY point of the extents, explicit defaults included)
        t = _variant(rng, c, ext, d, dirty, rng.choice([0.25, 1.0]) if ufam else 0.25)
        trees.append(_retype(rng, t, rng.choice([0.0, ptype])))
        defs.append(d)

    for _ in range(rng.randint(2, 4)):
        add(cont, default, rng.random() < 0.8)
    # the same content under another leaf default (no stored value equals it), or under the same default written
    # as a float
    if rng.random() < 0.5 and not fixed:
        other = [d for d in (0, 7, -1, 4, 1) if d != default and d not in cont.values()] + [float(default)]
        add(cont, rng.choice(other), rng.random() < 0.8)
    # neighbours: one leaf changed / added / removed
    for _ in range(rng.randint(1, 2)):
        c2 = dict(cont)
        pt = tuple(rng.randrange(e) for e in ext)
        if pt in c2 and rng.random() < 0.5:
            del c2[pt]
        else:
            nv = rng.choice([v for v in vals + [11] if v != default and v != c2.get(pt)])
            c2[pt] = nv
        add(c2, default, rng.random() < 0.6)
    # neighbours whose one leaf differs by a few ulps / a relative 6e-10 only (still a different value)
    if cont and rng.random() < 0.35:
        for factor in (1 + 6e-10, 1 + 12e-10):
            c3 = dict(cont)
            pt = sorted(cont)[rng.randrange(len(cont))]
            base = float(cont[pt]) if cont[pt] != 0 else 0.3
            c3[pt] = base * factor if rng.random() < 0.7 else 0.1 + 0.2
            c4 = dict(cont)
            c4[pt] = base if rng.random() < 0.7 else 0.3
            add(c3, default, False)
            add(c4, default, False)
    # the SAME storage as a member of the family, under another leaf default: usually one of the stored values
    # (those points stop being content, stored explicit defaults of the member become content)
    for _ in range(0 if fixed else rng.choice([0, 1, 1, 2])):
        k = rng.randrange(len(trees))
        stored = sorted({v for v in _leaf_values(trees[k]) if v != defs[k] and type(v) is not bool}, key=repr)
        pool = stored if (stored and rng.random() < 0.8) else [d for d in (0, 7, -1, 4) if d != defs[k]]
        trees.append(trees[k])
        defs.append(rng.choice(pool))
    own = [rng.choice(["free", "tensor", "tensor-shape", "tensor-filled"]) for _ in trees]
    # some members are LAZY fibers (top level given by an iterator / produced by project())
    if rng.random() < 0.5:
        for k in range(len(own)):
            if rng.random() < 0.4:
                own[k] = rng.choice(LAZY_KINDS)
    case = {"kind": "family", "default": default, "defaults": defs, "depth": depth, "ext": ext, "trees": trees, "own": own}
    if ufam:
        fm, grow = _ufmts(rng, depth), rng.choice([0, 0, 1])
        fmts, shapes = [], []
        for k in range(len(trees)):
            if fixed or rng.random() < 0.6:
                own[k] = "tensor-U"
            if not fixed and rng.random() < 0.5:
                fm, grow = _ufmts(rng, depth), rng.choice([0, 0, 1])
            fmts.append(list(fm) if own[k] == "tensor-U" else None)
            shapes.append([e + grow for e in ext] if own[k] == "tensor-U" else None)
        case["fmts"], case["shapes"] = fmts, shapes
    return case


def _variant(rng, cont, ext, default, dirty, pexp=0.25):
    depth = len(ext)
    explicit, empties = [], []
    if dirty:
        for pt in itertools.product(*[range(e) for e in ext]):
            if pt not in cont and rng.random() < pexp:
                explicit.append(pt)
        for d in range(1, depth):
            for pre in itertools.product(*[range(e) for e in ext[:d]]):
                if rng.random() < 0.2:
                    empties.append(pre)
    return gen.spec_from_content({tuple(k): v for k, v in cont.items()}, depth, explicit, empties, default)


LAZY_KINDS = ("lazy", "lazy-project-dec", "lazy-project-inc")


def _lazy_kind(spec, own, default, depth):
    """The lazy producer actually used for this tree."""
    # (a coordinate-reversing project() of a leaf fiber with a non-zero default dropped its stored 0 leaves until
    # repository fix 9593640: key eq:lazy-differs-from-eager-with-same-elements:lazy-project-dec)
    return own


def _lazy(spec, kind, default, salt=0):
    """A LAZY fiber whose top level holds exactly the elements of `spec` (sub-trees are eager).

    lazy              Fiber.fromIterator over the raw (coord, payload) elements - explicit defaults and empty
                      sub-fibers included - of a fiber built by the public constructor
    lazy-project-dec  src.project(c -> K - c) of the mirrored tree (the library walks the raw elements backwards)
    lazy-project-inc  src.project(c -> c - s) of the shifted tree (the library walks its occupancy iterator)
    """
    top = max([c for c, _ in spec], default=0)
    if kind == "lazy":
        src = gen.fiber_from_spec(spec, default)
        els = list(zip(src.coords, src.payloads))
        if salt % 2:
            els = [CoordPayload(c, p) for c, p in els]

        class elements:
            def __iter__(self):
                return iter(els)

        return Fiber.fromIterator(elements, default=default, active_range=(0, top + 1 + salt % 3))
    if kind == "lazy-project-dec":
        k = top + salt % 3
        src = gen.fiber_from_spec([[k - c, p] for c, p in reversed(spec)], default)
        return src.project(trans_fn=lambda c: k - c)
    s = 1 + salt % 3
    src = gen.fiber_from_spec([[c + s, p] for c, p in spec], default)
    return src.project(trans_fn=lambda c: c - s)


def _lazy_carries_empty(spec, kind, default):
    """Does the lazy fiber's producer walk a raw top-level element that is empty under its default?"""
    if kind == "lazy-project-inc":
        return False
    return any((gen.content_of_spec(p, default) == {}) if isinstance(p, list) else (p == default) for _, p in spec)


_SUBFIBER = object()


def _filled(spec, ids, default, shape, salt):
    """A tensor created empty and FILLED through the public point API: every stored leaf of `spec` is written, in a
    shuffled order, through the payload reference getPayloadRef(*point) returns (<<=, .v =, or += from a zero
    default); a default-valued leaf is sometimes left exactly as the reference created it; an empty sub-fiber is
    created by a reference to its prefix."""
    t = Tensor(rank_ids=list(ids), shape=list(shape) if shape else None, default=default)
    writes = []

    def walk(s, pre):
        for c, p in s:
            if isinstance(p, list):
                if not p:
                    writes.append((pre + (c,), _SUBFIBER))
                walk(p, pre + (c,))
            else:
                writes.append((pre + (c,), p))

    walk(spec, ())
    random.Random(salt).shuffle(writes)
    for k, (pt, v) in enumerate(writes):
        ref = t.getPayloadRef(*pt)
        if v is _SUBFIBER:
            continue
        how = (k + salt) % 4
        if how == 3 and v == default and type(v) is type(default):
            continue            # the default-valued payload the reference created stays as it is
        if how == 0 or (how == 3 and default != 0):
            ref <<= v
        elif how == 1:
            ref.v = v
        elif default == 0:
            ref += v            # accumulation starting from the (zero) default
        else:
            ref <<= v
    return t


def _build(spec, own, default, depth, ext=None, salt=0, fmts=None, shape=None):
    if own == "free":
        return gen.fiber_from_spec(spec, default)
    if own in LAZY_KINDS:
        return _lazy(spec, _lazy_kind(spec, own, default, depth), default, salt)
    ids = gen.rank_ids_for(depth)
    if own == "tensor-U":
        return gen.tensor_from_spec(spec, ids, shape=shape, default=default, fmts=fmts)
    if own == "tensor-filled":
        return _filled(spec, ids, default, [e + 1 for e in ext] if (ext and salt % 3 == 0) else None, salt)
    shape = None
    if own == "tensor-shape" and ext:
        shape = [e + 1 + (salt % 2) for e in ext]
    # the free fibers are sometimes built with a leaf default other than the tensor's: once owned, only the
    # rank's default counts (also for detached copies made later)
    fd = None if salt % 2 == 0 else (0 if default != 0 else 3)
    return gen.tensor_from_spec(spec, ids, shape=shape, default=default, fiber_default=fd)


def _root(x):
    return x.getRoot() if isinstance(x, Tensor) else x


def _explicit_or_empty(f, default):
    """Does the raw tree hold an explicit default leaf or an empty sub-fiber?"""
    for p in f.payloads:
        if isinstance(p, Fiber):
            if len(p.coords) == 0 or content(p, default) == {} or _explicit_or_empty(p, default):
                return True
        elif unbox(p) == default:
            return True
    return False


def _full_explicit(spec, fmts, shape, default, level=0):
    """Does the tree hold, in an uncompressed rank, a fiber that stores EVERY coordinate of the declared shape, at
    least one of them with a default-valued payload (explicit default leaf / content-free sub-tree)?"""
    if not spec:
        return False
    if fmts[level] == "U" and [c for c, _ in spec] == list(range(shape[level])):
        if any((gen.content_of_spec(p, default) == {}) if isinstance(p, list) else (p == default) for _, p in spec):
            return True
    return any(isinstance(p, list) and _full_explicit(p, fmts, shape, default, level + 1) for _, p in spec)


def _eq(mon, a, b, what):
    try:
        return bool(a == b)
    except BaseException as e:      # noqa
        mon.violation(f"{what}:raised:{type(e).__name__}", f"{what} raised {type(e).__name__}: {e}")
        return None


def _unary(mon, x, default, tag, fmts=None, shape=None):
    """isEmpty / countValues / nonEmpty / deepcopy against the content oracle."""
    r = _root(x)
    c = content(r, default)     # raw root fiber, DECLARED default
    guarded = tag == "tensor-U" and GUARD_UFORMAT    # (guard, off: see GUARD_UFORMAT)
    if tag == "tensor-U":
        mon.count("uformat_trees")
    if tag == "tensor-filled":
        mon.count("filled_trees")
        if isinstance(default, float):
            mon.count("filled_float_default_trees")
    if isinstance(default, float):
        mon.count("float_default_trees")
    try:
        mon.count("isempty_checked")
        mon.check(r.isEmpty() == (c == {}), f"isEmpty:{tag}", f"isEmpty()={r.isEmpty()} but content has {len(c)} points")
        mon.count("count_checked")
        n = x.countValues()
        mon.check(n == len(c), f"countValues:{tag}", f"countValues()={n} but content has {len(c)} points")
        ne = r.nonEmpty()
        mon.count("nonempty_checked")
        cn = content(ne, default)
        mon.check(cn == c, f"nonEmpty:content:{tag}", f"nonEmpty() content {cn} != original {c}")
        mon.check(not _explicit_or_empty(ne, default), f"nonEmpty:not-pruned:{tag}",
                  "nonEmpty() result still holds an explicit default or an empty sub-fiber")
        e = None if guarded else _eq(mon, ne, r, "nonEmpty()==orig")
        if e is not None:
            mon.check(e, f"nonEmpty:not-equal:{tag}", "nonEmpty() result does not compare equal to the original")
        dc = copy.deepcopy(x)
        e = _eq(mon, dc, x, "deepcopy==orig")
        if e is not None:
            mon.check(e, f"deepcopy:not-equal:{tag}", "deepcopy(x) != x")
            mon.check(_eq(mon, x, dc, "orig==deepcopy"), f"deepcopy:not-equal:{tag}", "x != deepcopy(x)")
        e = _eq(mon, x, x, "x==x")
        mon.check(e, f"eq:not-reflexive:{tag}", "x != x")
        if isinstance(x, Tensor) and x.ranks:
            # the same tensor after its content was removed through the public clear(): no points left
            y = copy.deepcopy(x)
            y.getRoot().clear()
            mon.count("cleared_checked")
            mon.check(y.countValues() == 0 and y.getRoot().isEmpty(), f"cleared:count:{tag}",
                      f"after clear() of the root: countValues()={y.countValues()} isEmpty()={y.getRoot().isEmpty()}, the tree has no points")
            empty = Tensor(rank_ids=x.getRankIds(), default=default)
            if guarded:
                empty = gen.tensor_from_spec([], x.getRankIds(), shape=shape, default=default, fmts=fmts)
            e = _eq(mon, y, empty, "cleared==empty")
            if e is not None:
                mon.check(e, f"cleared:not-equal-to-empty:{tag}", "a cleared tensor does not compare equal to an empty tensor with the same rank ids")
        # copies with and without the owner (ownership must not matter)
        for keep in (True, False):
            cp = r.copy(preserve_owner=keep)
            mon.count("copy_checked")
            ck = f"copy(preserve_owner={keep})"
            mon.check(content(cp, default) == c, f"copy:content:{tag}:{'owned' if keep else 'detached'}",
                      f"{ck} holds content {content(cp, default)} != original {c}")
            # (guarded: the sub-fibers a DETACHED copy synthesises for absent coordinates are compressed)
            e = None if (guarded and not keep) else _eq(mon, cp, r, ck + "==orig")
            if e is not None:
                mon.check(e and _eq(mon, r, cp, "orig==" + ck), f"copy:not-equal:{tag}:{'owned' if keep else 'detached'}",
                          f"{ck} does not compare equal to its original (default {default})")
            mon.check(cp.countValues() == len(c) and cp.isEmpty() == (c == {}), f"copy:count:{tag}:{'owned' if keep else 'detached'}",
                      f"{ck}: countValues()={cp.countValues()} isEmpty()={cp.isEmpty()} but the content has {len(c)} points")
    except BaseException as ex:     # noqa
        mon.violation(f"unary:raised:{type(ex).__name__}:{tag}", f"query raised {type(ex).__name__}: {ex}")
    return c


def _unary_lazy(mon, x, spec, kind, default):
    """A lazy fiber: its content is that of the element list it was given (read from the spec, never through the
    library's iterators).  isEmpty / countValues / nonEmpty / deepcopy are not offered for lazy fibers; == is."""
    c = gen.content_of_spec(spec, default)
    mon.count("lazy_trees")
    if _lazy_carries_empty(spec, kind, default):
        mon.count("lazy_trees_with_explicit_default")
    e = _eq(mon, x, x, "x==x")
    if e is not None:
        mon.check(e, "eq:not-reflexive:lazy", "x != x for a lazy fiber")
    # the eager fiber built from the very same elements
    same = gen.fiber_from_spec(spec, default)
    for a, b, what in ((x, same, "lazy==eager"), (same, x, "eager==lazy")):
        e = _eq(mon, a, b, what)
        if e is not None:
            mon.count("eq_checked")
            mon.check(e, f"eq:lazy-differs-from-eager-with-same-elements:{kind}",
                      f"{what} is False for the {kind} fiber and the eager fiber holding the same elements {spec} "
                      f"(default {default!r})")
    return c


def _retyped_default(spec, default):
    """Does the spec store a default-valued number whose Python type is not the default's type?"""
    return any(v == default and type(v) is not type(default) for v in _leaf_values(spec))


def _pair_tag(da, db):
    return "" if (da == db and type(da) is type(db)) else ":defaults-differ"


def run_case(case, mon):
    default = case["default"]
    if case["kind"] == "grid":
        name, da, cells_a, db, cells_b = GRIDS[case.get("grid", 0 if default == 0 else 1)]
        two_sided = (da, cells_a) != (db, cells_b) or any(type(x) is not type(y) for x, y in zip(cells_a, cells_b))
        trees_a = _grid_trees(cells_a)
        trees_b = _grid_trees(cells_b)
        own = case["own"]
        i = case["i"]
        if own == "lazy":
            # side a: tree i as a LAZY fiber (the three producers in turn); side b: every tree as a free eager fiber
            lkind = _lazy_kind(trees_a[i], LAZY_KINDS[(i + i // 6) % 3], da, 2)
            a = _build(trees_a[i], lkind, da, 2, salt=i // 3)
            objs_b = [_build(t, "free", db, 2, salt=k) for k, t in enumerate(trees_b)]
            conts_a = {i: _unary_lazy(mon, a, trees_a[i], lkind, da)}
            conts_b = [content(o, db) for o in objs_b]
            carries = _lazy_carries_empty(trees_a[i], lkind, da)
            sfx = ":" + lkind + _pair_tag(da, db)
            for j, b in enumerate(objs_b):
                want = conts_a[i] == conts_b[j]
                for x, y, d in ((a, b, "ab"), (b, a, "ba")):
                    got = _eq(mon, x, y, "==")
                    if got is None:
                        continue
                    mon.count("eq_checked")
                    mon.count("lazy_operand_pairs")
                    if carries:
                        mon.count("lazy_explicit_default_pairs")
                    kind = "equal-content-compares-unequal" if want else "different-content-compares-equal"
                    mon.check(got == want, f"eq:{kind}{sfx}",
                              f"{'lazy==eager' if d == 'ab' else 'eager==lazy'} is {got} but content equality is {want}: "
                              f"lazy ({lkind}) elements {trees_a[i]} (default {da!r}), eager {trees_b[j]} (default {db!r})")
            if conts_a[i]:
                mon.nontrivial()
            mon.state(("grid", name, i, own))
            return
        # uncompressed sweep: shape = the 2x2 grid itself (a row holding both cells is a fully stored fiber), at
        # least one rank in the 'U' format
        ushape = [2, 2]
        if own != "tensor-U":
            fm_a = fm_b = [None] * len(trees_a)
        elif GUARD_UFORMAT:     # (guard, off) one format assignment per case
            fm_a = fm_b = [list(UFMTS2[i % 3])] * len(trees_a)
        else:
            fm_a = [list(UFMTS2[i % 3])] * len(trees_a)
            fm_b = [list(UFMTS2[k % 3]) for k in range(len(trees_b))]
            two_sided = True
        objs_a = [_build(t, own, da, 2, salt=k, fmts=fm_a[k], shape=ushape) for k, t in enumerate(trees_a)]
        objs_b = [_build(t, own, db, 2, salt=k, fmts=fm_b[k], shape=ushape) for k, t in enumerate(trees_b)] if two_sided else objs_a
        conts_a = [content(_root(o), da) for o in objs_a]
        conts_b = [content(_root(o), db) for o in objs_b] if two_sided else conts_a
        a = objs_a[i]
        _unary(mon, a, da, own, fm_a[i], ushape)
        if _retyped_default(trees_a[i], da):
            mon.count("retyped_default_trees")
        if two_sided:
            _unary(mon, objs_b[i], db, own, fm_b[i], ushape)
            if _retyped_default(trees_b[i], db):
                mon.count("retyped_default_trees")
        before = snap(a)
        sfx = _pair_tag(da, db)
        full_a = own == "tensor-U" and _full_explicit(trees_a[i], fm_a[i], ushape, da)
        for j, b in enumerate(objs_b):
            want = conts_a[i] == conts_b[j]
            if own == "tensor-U":
                sfx = _pair_tag(da, db) + ("" if fm_a[i] == fm_b[j] else ":formats-differ")
                mon.count("uformat_pairs", 2)
                if want and trees_a[i] != trees_b[j] and (full_a or _full_explicit(trees_b[j], fm_b[j], ushape, db)):
                    mon.count("uformat_full_fiber_with_explicit_default_pairs", 2)
            for x, y, d in ((a, b, "ab"), (b, a, "ba")):
                got = _eq(mon, x, y, "==")
                if got is None:
                    continue
                mon.count("eq_checked")
                if _pair_tag(da, db):
                    mon.count("mixed_default_pairs")
                    if trees_a[i] == trees_b[j] and not want:
                        mon.count("same_storage_other_default_pairs")
                kind = "equal-content-compares-unequal" if want else "different-content-compares-equal"
                mon.check(got == want, f"eq:{kind}:{own}{sfx}",
                          f"{'a==b' if d == 'ab' else 'b==a'} is {got} but content equality is {want}: "
                          f"a={trees_a[i]} (default {da!r}) b={trees_b[j]} (default {db!r})")
        mon.check(snap(a) == before, f"eq:operand-modified:{own}", "== changed its operand")
        if conts_a[i]:
            mon.nontrivial()
        mon.state(("grid", name, i, own))
        return
    depth = case["depth"]
    trees = case["trees"]
    defs = case.get("defaults") or [default] * len(trees)
    lkinds = [_lazy_kind(t, o, d, depth) if o in LAZY_KINDS else None for t, o, d in zip(trees, case["own"], defs)]
    fmts = case.get("fmts") or [None] * len(trees)
    shapes = case.get("shapes") or [None] * len(trees)
    owns = case["own"]
    objs = [_build(t, o, d, depth, case.get("ext"), k, fmts[k], shapes[k]) for k, (t, o, d) in enumerate(zip(trees, owns, defs))]
    tags = [o if o in ("tensor-U", "tensor-filled") else ("tensor" if isinstance(x, Tensor) else "free") for o, x in zip(owns, objs)]
    conts = [_unary_lazy(mon, o, t, lk, d) if lk else _unary(mon, o, d, tg, fm, sh)
             for o, t, lk, d, tg, fm, sh in zip(objs, trees, lkinds, defs, tags, fmts, shapes)]
    full = [bool(fm) and _full_explicit(t, fm, sh, d) for t, fm, sh, d in zip(trees, fmts, shapes, defs)]
    carries = [bool(lk) and _lazy_carries_empty(t, lk, d) for t, lk, d in zip(trees, lkinds, defs)]
    for t, d in zip(trees, defs):
        if _retyped_default(t, d):
            mon.count("retyped_default_trees")
    n = len(objs)
    res = {}
    for i in range(n):
        for j in range(n):
            a, b = objs[i], objs[j]
            if isinstance(a, Tensor) != isinstance(b, Tensor):
                a, b = _root(a), _root(b)
            got = _eq(mon, a, b, "==")
            if got is None:
                continue
            res[(i, j)] = got
            want = conts[i] == conts[j]
            mon.count("eq_checked")
            sfx = _pair_tag(defs[i], defs[j])
            if sfx:
                mon.count("mixed_default_pairs")
                if trees[i] == trees[j] and not want:
                    mon.count("same_storage_other_default_pairs")
            how = ""
            if lkinds[i] or lkinds[j]:
                mon.count("lazy_operand_pairs")
                if lkinds[i] and lkinds[j]:
                    mon.count("lazy_lazy_pairs")
                if carries[i] or carries[j]:
                    mon.count("lazy_explicit_default_pairs")
                sfx = ":lazy" + sfx
                how = f" [{lkinds[i] or 'eager'} == {lkinds[j] or 'eager'}]"
            if fmts[i] or fmts[j]:
                mon.count("uformat_pairs")
                if want and trees[i] != trees[j] and (full[i] or full[j]):
                    mon.count("uformat_full_fiber_with_explicit_default_pairs")
                sfx = ":uformat" + sfx + ("" if (fmts[i], shapes[i]) == (fmts[j], shapes[j]) else ":formats-differ")
                how += f" [formats {fmts[i]} shape {shapes[i]} == formats {fmts[j]} shape {shapes[j]}]"
            kind = "equal-content-compares-unequal" if want else "different-content-compares-equal"
            mon.check(got == want, f"eq:{kind}:depth{depth if depth < 3 else 3}{sfx}",
                      f"trees {trees[i]} (default {defs[i]!r}) and {trees[j]} (default {defs[j]!r}){how}: "
                      f"== gives {got}, content equality {want}")
    for i in range(n):
        for j in range(n):
            if (i, j) in res and (j, i) in res:
                mon.check(res[(i, j)] == res[(j, i)], "eq:not-symmetric", f"a==b is {res[(i, j)]} but b==a is {res[(j, i)]}")
            for k in range(n):
                if res.get((i, j)) and res.get((j, k)) and (i, k) in res:
                    mon.count("triples_checked")
                    mon.check(res[(i, k)], "eq:not-transitive", "a==b and b==c but not a==c")
    same = any(conts[i] == conts[j] and conts[i] and trees[i] != trees[j]
               for i in range(n) for j in range(i + 1, n))
    near = any(len(set(conts[i].items()) ^ set(conts[j].items())) in (1, 2) for i in range(n) for j in range(i + 1, n))
    if same or near:
        mon.nontrivial()
    mon.state(("fam", depth, default, sorted(str(c) for c in conts)))
