"""C14 - rank ids, shapes, defaults, formats and active ranges follow the data.

Monitor: an *attribute algebra* - a pure function from the operand's attributes (rank ids, authoritative
shape, leaf default, per-rank formats, mutability hint) and the transform's parameters to the attributes
the result must report - compared with the getters of the real result (`getRankIds`,
`getShape(authoritative=True)`, `getDefault`, `getFormat(rank_id)`, `isMutable`, `Fiber.getActive`,
`getRankAttrs().getId()`).  The operand attributes are the ones handed to the constructor (never read
back from the library), and in a chain of transforms the expected attributes of step n+1 are computed
from the algebra's own output of step n.  On every result the raw tree is walked: each stored coordinate
must lie inside the reported shape and inside its fiber's active range, and `iterActive` must enumerate
exactly what `iterOccupancy` does.  Lazily produced fibers (& | ^ - intersection union prune << project,
dense co-iterators) are compared with the rank id / active range the operation defines, computed from the
operands' declared attributes.  Free fibers with their own shape / default / rank id are joined to tensors
with different ones and must answer with the rank's afterwards; fibers that already belong to a tensor are
given to a second tensor (or copied without their owner), after which the donor's fibers must still answer
with the donor's ranks' attributes.  Nests of lists given to fromUncompressed may be ragged (lists under
different parents of different lengths); the expected shape is the per-rank longest list of the raw nest.
The sub-fiber a tensor hands out for a
row it does not store (also while the tensor is empty) is an operand like any other member of its rank; an operand is read again
after the transform made from it.  Tensors may also receive their content after construction (built empty - also dumped to YAML and loaded back while
empty - or from a fibertree, then filled / grown point by point through getPayloadRef): the tensors transforms make
from them are judged like any other.  The fibers of one level of a free fibertree may each declare their own extent.
"""
import itertools
import os
import tempfile

from fibertree import Fiber, Payload, Tensor

from fvmon import gen
from fvmon.observe import unbox

SPEC = {
    "anchors": ["fibertree.core.tensor:Tensor._splitGeneric", "fibertree.core.tensor:Tensor.swizzleRanks", "fibertree.core.tensor:Tensor.swapRanks", "fibertree.core.tensor:Tensor.flattenRanks", "fibertree.core.tensor:Tensor.unflattenRanks", "fibertree.core.tensor:Tensor._flattenRankIdsShape", "fibertree.core.tensor:Tensor._unflattenRankIdsShape", "fibertree.core.rank:Rank.getShape", "fibertree.core.rank:Rank.append", "fibertree.core.fiber:Fiber.getShape", "fibertree.core.fiber:Fiber.getActive", "fibertree.core.fiber:Fiber.getDefault", "fibertree.core.fiber:Fiber.project", "fibertree.core.fiber:Fiber.prune", "fibertree.core.iterators:__and__", "fibertree.core.iterators:__or__", "fibertree.core.iterators:__xor__", "fibertree.core.iterators:__sub__", "fibertree.core.iterators:__lshift__", "fibertree.core.iterators:intersection", "fibertree.core.iterators:union", "fibertree.core.iterators:coiterRangeShape", "fibertree.core.tensor:Tensor._calc_shape", "fibertree.core.tensor:Tensor.setRoot", "fibertree.core.fiber:Fiber.copy"],
    "rule": ("cases = (xform) a tensor built by fromFiber / fromUncompressed / fromRandom / makePopulated with "
             "explicit (different extent per rank) or estimated shape (fromUncompressed also on ragged nests of "
             "depth >= 3 - lists under one parent equally long, lists under different parents not - with and "
             "without shape=: the calculated shape is the per-rank longest list), leaf default 0 or non-zero, a per-rank C/U "
             "format assignment and a mutability hint - or built EMPTY by Tensor(rank_ids[, shape]), optionally dumped to "
             "YAML and loaded back while empty, and then filled point by point through getPayloadRef in arbitrary "
             "order (the way a kernel fills its output), or built by fromFiber and then grown the same way, where the "
             "shape is estimated also beyond the extent recorded so far -, followed by a chain of 1-3 transforms (four "
             "split kinds x depth / rankid / both (naming the same or different ranks: rankid overrides depth) x relative/halo, swizzle permutations incl. 3-cycles, swap at every depth, "
             "flatten/merge in five coordinate styles x depth x levels incl. flatten of an already flattened rank, "
             "mergeRanks with absolute coordinates over any run of integer ranks incl. the run from above the two halves "
             "of a split down to the lower half, unflatten), between which the holder may RE-DECLARE attributes of the "
             "intermediate tensor (setFormat on any rank - a fresh flattened / merged rank, whose id is a list, included "
             "-, setMutable): these are the operand's attributes for the next transform, which must carry them over "
             "like those given at construction (systematically: flatten two of four ranks, declare the new rank U, then "
             "flatten / merge / swap / split ranks elsewhere, or flatten and unflatten them again), "
             "every intermediate result compared with the attribute algebra and walked for coordinate containment, and every "
             "operand re-read after the transform made from it (it must still answer with the attributes the algebra "
             "holds for it; snapshots are deep, never aliases of lists the library handed out); "
             "(lazy) two or more fibers with different declared shapes / active ranges / rank ids (free, tensor "
             "root, interior fiber, split partition, or the empty default sub-fiber a two-rank tensor - still EMPTY, its lower "
             "rank holding no fiber yet, or storing another row - hands out for a row it lacks, through getPayload of the "
             "missing coordinate or as its operand of a union with a populated tensor: it belongs to the lower rank and "
             "answers with that rank's id / shape / range) under & | ^ - intersection union prune << project and the six "
             "dense co-iterators; (join) a free fibertree with its own shapes (one per level, or one per FIBER: the "
             "fibers of a level were built separately and declare different extents, in any order), default and rank id "
             "joined to a tensor with different ones, then the tensor's attributes changed; (rejoin) a fiber that "
             "already belongs to a 2-4 rank tensor (its root or an interior fiber) given to a second tensor by "
             "Tensor.fromFiber / setRoot or copied with copy(preserve_owner=False), after which every fiber of the "
             "donor must still answer with the donor's ranks' attributes and every fiber of the new tensor with the new "
             "ranks', also after one tensor's default / rank ids / shape / formats are changed; (fiber) free fibers "
             "from Fiber.fromUncompressed (rectangular and ragged nests) / fromRandom and their splits / flattenings / "
             "split-then-absolute-merge walked for containment. "
             "Non-trivial = xform: the tensor stores >= 2 leaves and at least one step returned and was judged; "
             "lazy: the first operand "
             "is non-empty and the operands' active ranges differ; join: the fiber is non-empty and at least one "
             "own attribute differs from the rank's; rejoin: the donated fiber is non-empty; fiber: non-empty. "
             "distinct = distinct case."),
    "shards": {"quick": 16, "thorough": 16},
    "min_counts": {"quick": {"evaluations": 1500, "oracle_evals": 40000, "xform_steps": 1500, "lazy_results": 3000,
                             "joined_fibers": 500, "fibers_walked": 8000, "iter_active_compared": 8000,
                             "shape_authoritative_checked": 800, "format_checked": 2000,
                             "ragged_nests_shape_calculated": 30, "ragged_nests_free_fiber": 4,
                             "rejoined_fibers": 3000, "rejoin_three_or_more_levels": 100,
                             "tensors_filled_after_construction": 200, "points_inserted": 600,
                             "filled_from_empty": 50, "filled_from_empty_after_yaml": 50,
                             "grown_beyond_recorded_estimate": 25, "join_sibling_shapes_differ": 40,
                             "merge_absolute_from_above_split_halves": 100, "fiber_split_merge_absolute": 10,
                             "attributes_redeclared": 300, "flattened_rank_format_declared": 150,
                             "declared_format_of_flattened_rank_carried": 150,
                             "split_rankid_and_depth_disagree": 60, "operand_rechecked_after_transform": 1500,
                             "operand_with_flattened_rank_rechecked": 150, "default_subfibers": 150,
                             "default_subfibers_of_empty_tensor": 80},
                   "thorough": {"evaluations": 30000, "oracle_evals": 800000, "xform_steps": 30000,
                                "lazy_results": 60000, "ragged_nests_shape_calculated": 600,
                                "rejoined_fibers": 60000, "rejoin_three_or_more_levels": 2000,
                                "tensors_filled_after_construction": 4000, "filled_from_empty_after_yaml": 1000,
                                "grown_beyond_recorded_estimate": 500, "join_sibling_shapes_differ": 800,
                                "merge_absolute_from_above_split_halves": 150, "attributes_redeclared": 3000,
                                "flattened_rank_format_declared": 1000,
                                "declared_format_of_flattened_rank_carried": 300}},
    "assumptions": [
        "shape equality is required only when the operand's shape was authoritative (handed to the constructor, "
        "or derived by the algebra from such a shape); estimated shapes: only coordinate containment is judged",
        "the format of a newly merged (flattened) rank and of the ranks re-created by unflatten is not specified "
        "and not compared; tensor names/colours are not part of the property",
        "coordinate-inside-active-range (iterActive == iterOccupancy) is judged for splits with zero halos and "
        "absolute coordinates: halo elements lie outside their partition by definition, and C08 fixes a "
        "partition's active range as the partition interval clipped to the parent's (absolute) range, so "
        "relative coordinates cannot lie in it; once such a split is in a chain the active-range clause is "
        "skipped for the rest of the chain (containment in the shape is still judged)",
        "`absolute` / `relative` FLATTENING is generated only for the documented use, the two ranks produced by "
        "a split (absolute / relative coordinates respectively) without halos; `linear` only with an "
        "authoritative shape (the API requires the lower extent); mergeRanks with `absolute` coordinates ('the "
        "coordinate of the lowest rank', points that differ only above it are merged) over any run of integer "
        "ranks with string ids - the merged coordinate is the lowest rank's own coordinate, so it must lie in that "
        "rank's shape and in the merged fiber's active range; such a result (payloads added up, possibly to the "
        "default) is judged but not transformed further.  When the run does not end at the leaf rank the merged "
        "points hold sub-fibers that are united, and a union has its first operand's active range (this property's "
        "own rule for lazy merges): such runs are generated only above ranks whose fibers all share one range "
        "(no split halves below, a recorded extent)",
        "a tensor that is filled or grown through getPayloadRef after its construction is itself NOT judged (like a "
        "populate destination: the clause speaks of freshly built or transformed fibers, and an estimated extent "
        "recorded when the fibers joined is not refreshed by an insertion); every tensor a transform makes from it "
        "is.  Its shape is authoritative only when one was given to the constructor (insertions then stay inside "
        "it); a YAML file carries no leaf default, so the round trip is made with default 0",
        "three guards, now all switched off (D1, D2 repaired in the repository, D3 a recorded known finding; see the header of "
        "the guards), described the inputs: D1 for an empty shape-less tensor loaded back from YAML (ranks "
        "record the extent 0 = unknown) containment in the shape is judged against the shape each fiber reports, "
        "not Tensor.getShape() (which answers [0, ...]); D2 no insertion beyond a recorded estimate in a rank whose "
        "recorded extent the first transform reuses (U-format ranks, the split rank, ranks outside the pair of a swap "
        "below the root, flattened / merged ranks and - for a merge - those below, all ranks for a swizzle to the "
        "present order), and only that one transform is then judged; D3 the fibers of one level all declare a shape "
        "or none does",
        "attributes re-declared between two transforms are formats and the mutability hint (a new leaf default would "
        "turn stored values into explicit defaults: content, C09's); the re-declared tensor must answer with them and "
        "so must the next result for every rank the transform does not re-create.  A rank iterated by format U is "
        "walked over the integers of its active range: no rank is declared U after a relative-coordinate or halo split "
        "(coordinates outside their partitions' ranges, see above), and a flattened / merged rank declared U (tuple coordinates; "
        "for `linear` the library gives the merged fibers the range (0, inf)) is never a lower rank of a flatten / merge "
        "nor below an absolute merge, whose united sub-fibers are iterated by format (the only transforms that would "
        "iterate it by format)",
        "swizzle, split and swap are applied to ranks with string ids and integer coordinates (documented "
        "argument types); unflatten to ranks flattened in `tuple` style (documented restriction); swizzle (which "
        "re-derives every fiber's active range from the ranges that contained its coordinates) is not applied "
        "after a relative-coordinate or halo split, whose coordinates lie outside their partitions' ranges; after "
        "such a split only flatten/merge steps are generated",
        "a chain stops after a step whose result is not a canonical tree with private payloads: a split / "
        "flatten / swap that traverses a U-format rank materialises its absent coordinates, halo copies share "
        "payload objects between partitions; such results are still judged, but not transformed further",
        "trees are canonical (no explicit default leaves, no empty sub-fibers) except the all-empty tensor; "
        "content of transforms on dirty trees is C09's",
        "project is judged on operands with a non-empty active range and affine maps c -> k*c+d, k != 0; the "
        "rank id of a projection is judged only when rank_id is given",
        "a populate destination's stored coordinates are not required to lie in its source-derived active range",
        "the shape Tensor.fromUncompressed works out from a nest when no shape= is given is authoritative and equals "
        "the per-rank longest list of the nest (docstring: 'calculated from shape of root'); a free fiber made by "
        "Fiber.fromUncompressed answers with the length of its own list",
        "a fiber handed to a second tensor while it belongs to one stays the first tensor's (the second tensor works "
        "on a copy); the attributes the owner-less copy of copy(preserve_owner=False) answers with are not specified "
        "(only: no owner at any level, coordinates inside its own reported shape / active range); the shape a "
        "second tensor reports when none is given is not specified (its fibers must agree with whatever it reports)",
        "lazy results are not consumed (their content is C04/C05/C07's), except populate which is driven to the end "
        "and the union of two tensor roots that is iterated to obtain the default sub-fiber of the empty one",
        "a split given both depth= and rankid= is performed at the rank rankid names (Fiber.split*: rankid 'overrides "
        "depth'); ids, shape and formats of the result must describe that split",
        "the sub-fiber handed out for a missing row of a tensor with a given shape is a member of the next rank (the "
        "library sets that rank as its owner): it answers with the rank's id, shape and active range (0, shape) "
        "whether or not the rank holds other fibers",
    ],
}

# Decided (all three guards are off): each of these inputs made the library, as it was when round 6 ran,
# break the statement; D1 and D2 were repaired in the repository, D3 is a known finding; each surfaces under its own
# key (tag in brackets) should it return.
#  D1 [shape-recorded-as-0]: an empty tensor made without a shape and round-tripped through YAML records the
#     "unknown" marker 0 as its (authoritative) shape; once filled, Tensor.getShape() - and that of every
#     transform of it - answers [0, ...] although coordinates are stored.  Guard: for such tensors containment is
#     judged against the shape each FIBER reports (Fiber.getShape estimates when the recorded extent is 0).
#  D2 [operand-grown-beyond-estimate]: an insertion beyond a recorded ESTIMATED extent leaves the estimate stale;
#     swapRanks keeps the stale extent of the ranks above the swap, flatten / merge derive the merged rank's active
#     range from the stale ones.  Guard: no insertion beyond the recorded estimate in such a rank.
#  D3 [some-fibers-undeclared]: the first fiber of a level that declares a shape makes the rank's shape
#     authoritative; a later sibling WITHOUT a declared shape is no longer taken into account.  Guard: the fibers
#     of one level all declare a shape or none does.
_GUARD_SHAPE0 = False            # D1 repaired in the repository (15c87b2)
_GUARD_STALE_ESTIMATE = False    # D2 repaired in the repository (8b0c9cb)
_GUARD_SOME_UNDECLARED = False   # D3 is a recorded known finding (known_findings.json)

SPLITS = ["splitUniform", "splitNonUniform", "splitEqual", "splitUnEqual"]
LAZY_OPS = ["&", "|", "^", "-", "intersection", "leader-follower", "union", "prune", "<<", "<<lazy", "project",
            "coiterShape", "coiterShapeRef", "coiterActiveShape", "coiterActiveShapeRef", "coiterRangeShape",
            "coiterRangeShapeRef"]


# ------------------------------------------------------------------------------------------
# the attribute algebra (pure; never touches the library)
# ------------------------------------------------------------------------------------------
def tup(x):
    if isinstance(x, (list, tuple)):
        return tuple(tup(e) for e in x)
    return x


def st_new(ids, shape, default, fmts, mutable, unknown0=False, norecord=False):
    """unknown0: the ranks record the extent 0, the library's marker for "not known" (see _run_xform); norecord:
    the ranks record no extent at all (None or that marker), so every fiber's active range is its own estimate.
    kinds[i]: ('int',1) plain rank; ('tuple',n) / ('pair',n) flattened from n original ranks;
    ('merged',n) linear/absolute/relative.  origin[i]: None or (X, '1'|'0', relative?) for split halves."""
    n = len(ids)
    return {"ids": list(ids), "shape": [tup(s) for s in shape] if shape is not None else None, "default": default,
            "fmts": list(fmts), "mutable": mutable, "kinds": [("int", 1)] * n, "origin": [None] * n,
            "active_ok": True, "canonical": True, "unknown0": unknown0, "norecord": norecord}


def st_copy(st):
    return {k: (list(v) if isinstance(v, list) else v) for k, v in st.items()}


def alg_split(st, depth, relative=False, halo=False):
    st = st_copy(st)
    x = st["ids"][depth]
    if st["fmts"][depth] == "U":
        st["canonical"] = False     # a U rank is traversed over its whole range: absent coordinates materialise
    st["ids"][depth:depth + 1] = [f"{x}.1", f"{x}.0"]
    if st["shape"] is not None:
        st["shape"][depth:depth + 1] = [st["shape"][depth], st["shape"][depth]]
    st["fmts"][depth:depth + 1] = [st["fmts"][depth], st["fmts"][depth]]
    st["kinds"][depth:depth + 1] = [("int", 1), ("int", 1)]
    tag = None if halo else (x, bool(relative))
    st["origin"][depth:depth + 1] = [tag and tag + ("1",), tag and tag + ("0",)]
    if relative or halo:
        st["active_ok"] = False
    if halo:
        st["canonical"] = False     # halo copies share their payload objects between partitions
    return st


def _permute(st, order):
    st = st_copy(st)
    for k in ("ids", "fmts", "kinds", "origin"):
        st[k] = [st[k][i] for i in order]
    if st["shape"] is not None:
        st["shape"] = [st["shape"][i] for i in order]
    return st


def alg_swizzle(st, new_ids):
    order = [st["ids"].index(r) for r in new_ids]
    return _permute(st, order)


def alg_swap(st, depth):
    order = list(range(len(st["ids"])))
    order[depth], order[depth + 1] = order[depth + 1], order[depth]
    st = _permute(st, order)
    if st["fmts"][depth] == "U":    # the former lower rank is traversed by format
        st["canonical"] = False
    return st


def _flat(x):
    return tuple(x) if isinstance(x, (list, tuple)) else (x,)


def _split_pair(st, i):
    """ranks i, i+1 are the X.1 / X.0 halves of one halo-free split -> relative? (else None)"""
    o1, o0 = st["origin"][i], st["origin"][i + 1]
    if o1 and o0 and o1[0] == o0[0] and o1[2] == "1" and o0[2] == "0" and o1[1] == o0[1]:
        return o1[1]
    return None


def alg_flatten(st, depth, levels, style):
    st = st_copy(st)
    hi = depth + levels + 1
    if style == "absolute" and not (levels == 1 and _split_pair(st, depth) is False):
        # the coordinate of the lowest rank alone: points that differ only above it are merged (payloads added,
        # possibly to the default)
        st["canonical"] = False
    ids = []
    for r in st["ids"][depth:hi]:
        ids += list(r) if isinstance(r, list) else [r]
    ncomp = sum(k[1] for k in st["kinds"][depth:hi])
    if "U" in st["fmts"][depth + 1:hi]:
        st["canonical"] = False
    if st["shape"] is not None:
        comps = st["shape"][depth:hi]
        if style == "tuple":
            s = ()
            for c in comps:
                s += _flat(c)
        elif style == "pair":
            s = comps[-1]
            for c in reversed(comps[:-1]):
                s = (c, s)
        elif style == "linear":
            s = 1
            for c in comps:
                s *= c
        elif style == "absolute":
            s = comps[-1]
        elif style == "relative":
            s = comps[0]
        else:
            raise ValueError(style)
        st["shape"][depth:hi] = [s]
    st["ids"][depth:hi] = [ids]
    st["fmts"][depth:hi] = [None]
    if style == "tuple" or (style == "pair" and levels == 1 and all(k[0] == "int" for k in st["kinds"][depth:hi])):
        kind = ("tuple", ncomp)
    elif style == "pair":
        kind = ("pair", ncomp)
    else:
        kind = ("merged", ncomp)
    st["kinds"][depth:hi] = [kind]
    st["origin"][depth:hi] = [None]
    return st


def alg_unflatten(st, depth, levels):
    st = st_copy(st)
    for d in range(levels):
        i = depth + d
        rid = st["ids"][i]
        n = len(rid)
        rest_id = rid[1] if n == 2 else list(rid[1:])
        st["ids"][i:i + 1] = [rid[0], rest_id]
        if st["shape"] is not None:
            s = st["shape"][i]
            rest = s[1] if len(s) == 2 else tuple(s[1:])
            st["shape"][i:i + 1] = [s[0], rest]
        st["fmts"][i:i + 1] = [None, None]
        st["kinds"][i:i + 1] = [("int", 1), ("int", 1) if n == 2 else ("tuple", n - 1)]
        st["origin"][i:i + 1] = [None, None]
    return st


def alg_declare(st, p):
    """The user re-declares attributes of a tensor he holds (setFormat on any of its ranks - whatever their ids -,
    setMutable): from then on these are the operand's attributes."""
    st = st_copy(st)
    for i, fm in enumerate(p["fmts"]):
        if fm is not None:
            st["fmts"][i] = fm
    if p.get("mutable") is not None:
        st["mutable"] = p["mutable"]
    return st


def alg_apply(st, op, p):
    if op == "declare":
        return alg_declare(st, p)
    if op in SPLITS:
        return alg_split(st, _split_depth(st, p), p.get("relative", False), bool(p.get("pre", 0) or p.get("post", 0)))
    if op == "swizzleRanks":
        return alg_swizzle(st, p["ids"])
    if op == "swapRanks":
        return alg_swap(st, p["depth"])
    if op in ("flattenRanks", "mergeRanks"):
        return alg_flatten(st, p["depth"], p["levels"], p["style"])
    if op == "unflattenRanks":
        return alg_unflatten(st, p["depth"], p["levels"])
    raise ValueError(op)


def _split_depth(st, p):
    if "rankid" in p:
        return st["ids"].index(p["rankid"])
    return p.get("depth", 0)


def affine_range(lo, hi, k, d):
    """image of the half-open integer range [lo, hi) under c -> k*c + d, as a half-open range"""
    first, last = k * lo + d, k * (hi - 1) + d
    return (min(first, last), max(first, last) + 1)


# ------------------------------------------------------------------------------------------
# generation
# ------------------------------------------------------------------------------------------
def _legal_steps(rng, st, first):
    """All transform families applicable to algebra state `st`, one random parameter choice each."""
    out = []
    n = len(st["ids"])
    plain = [i for i in range(n) if st["kinds"][i] == ("int", 1) and isinstance(st["ids"][i], str)]
    # after a relative-coordinate split only re-flattening is generated: split / swizzle work from the active
    # ranges, which such coordinates are (by C08's definition of a partition's range) not inside
    for i in (plain if st["active_ok"] else []):
        kind = rng.choice(SPLITS)
        p = _split_params(rng, kind, i, st["ids"], st["shape"][i] if st["shape"] is not None else 6)
        r = rng.random()
        if r < 0.2:
            p["relative"] = True
        elif r < 0.3 and first:
            p["pre"], p["post"] = rng.choice([(1, 0), (0, 1), (1, 2)])
        out.append([kind, p])
    if n >= 2 and len(plain) == n and st["active_ok"]:
        perm = list(st["ids"])
        rng.shuffle(perm)
        out.append(["swizzleRanks", {"ids": perm}])
    for i in range(n - 1):
        if i in plain and i + 1 in plain and st["active_ok"]:
            out.append(["swapRanks", {"depth": i}])
    for i in range(n - 1):
        levels = rng.randint(1, n - 1 - i)
        ks = st["kinds"][i:i + levels + 1]
        styles = []
        if all(k[0] in ("int", "tuple") for k in ks):
            styles.append("tuple")
        if all(k[0] in ("int", "pair") or k == ("tuple", 2) for k in ks):
            styles.append("pair")
        if all(k == ("int", 1) for k in ks) and st["shape"] is not None:
            styles.append("linear")
        if levels == 1 and _split_pair(st, i) is not None:
            styles += ["relative"] * 3 if _split_pair(st, i) else ["absolute"] * 3
        if any(st["fmts"][j] == "U" and st["kinds"][j][0] != "int" for j in range(i + 1, i + levels + 1)):
            styles = []     # a U rank is iterated over the integers of its range: not a flattened one (tuples)
        if styles:
            op = "mergeRanks" if rng.random() < 0.25 else "flattenRanks"
            out.append([op, {"depth": i, "levels": levels, "style": rng.choice(styles)}])
        # mergeRanks(coord_style='absolute') keeps "the coordinate of the lowest rank" whatever lies above it
        # (points that differ only above are merged), so it applies to any run of integer ranks - among them the
        # run that starts above the two halves of a split, whose lowest fibers have different active ranges
        # (merged points that hold sub-fibers are united, and a union has the first operand's active range: below
        # the run only ranks whose fibers share one range - no split halves, whose data-dependent partitions may
        # share a coordinate but not a range, and a recorded extent)
        run = list(range(i, i + levels + 1))
        if st["active_ok"] and all(r in plain for r in run) and not (levels == 1 and _split_pair(st, i) is not None) \
                and (i + levels == n - 1 or (all(o is None for o in st["origin"][i + levels + 1:])
                                             and not st["norecord"])) \
                and not any(st["fmts"][j] == "U" and st["kinds"][j][0] != "int"
                            for j in range(i + levels + 1, n)):      # (the sub-fibers united below are iterated by format)
            out.append(["mergeRanks", {"depth": i, "levels": levels, "style": "absolute"}])
    for i in range(n):
        if st["kinds"][i][0] == "tuple" and st["active_ok"]:
            out.append(["unflattenRanks", {"depth": i, "levels": rng.randint(1, st["kinds"][i][1] - 1)}])
    return out


def _ragged_nest(rng, ext, density, default, vals, lvl=0, n=None):
    """A nest of lists in which the lists under ONE parent have equal lengths (all that Fiber.fromUncompressed
    asks for) while lists under different parents need not: every list draws the common length of its own
    children afresh, around ext[lvl + 1].  (The children of the root are all siblings: rank 1 is never ragged.)"""
    n = ext[0] if n is None else n
    if lvl == len(ext) - 1:
        return [(rng.choice(vals) if rng.random() < density else default) for _ in range(n)]
    w = max(1, ext[lvl + 1] + rng.choice([-2, -1, 0, 0, 1, 2]))
    return [_ragged_nest(rng, ext, density, default, vals, lvl + 1, w) for _ in range(n)]


def _nest_extents(nest):
    """Per-level extent of a nest of lists = the longest list of that level (raw data only)."""
    out, level = [], [nest]
    while level and isinstance(level[0], list):
        out.append(max(len(x) for x in level))
        level = [y for x in level for y in x]
    return out


def _nest_ragged(nest):
    level = [nest]
    while level and isinstance(level[0], list):
        if len({len(x) for x in level}) > 1:
            return True
        level = [y for x in level for y in x]
    return False


def _tensor_cfg(rng, depth=None, ctor=None, explicit=None, empty=False, default=None):
    depth = depth or rng.choice([2, 3, 3, 3, 4])
    ext = rng.sample([2, 3, 4, 5, 6], depth)
    ids = gen.rank_ids_for(depth, rng.choice(["MKNP", "ABCD", "QRST"]))
    default = rng.choice([0, 0, 7, -3]) if default is None else default
    ctor = ctor or rng.choice(["fromFiber", "fromFiber", "fromUncompressed", "fromRandom", "makePopulated"])
    explicit = rng.random() < 0.7 if explicit is None else explicit
    cfg = {"ctor": ctor, "ids": ids, "default": default, "fmts": [rng.choice("CCU") for _ in ids],
           "mutable": rng.random() < 0.5, "shape": None}
    if ctor == "fromFiber":
        vals = [v for v in gen.VALUES if v != default]
        cfg["spec"] = [] if empty else gen.rand_tree_spec(rng, ext, 0.75, 0.0, default, vals)
        if explicit:
            cfg["shape"] = [e + rng.choice([0, 0, 1, 3]) for e in ext]
    elif ctor == "fromUncompressed":
        vals = [v for v in gen.VALUES if v != default]
        if depth >= 3 and rng.random() < 0.5:
            # lists under different parents of different lengths: the shape "calculated from the shape of root"
            # is the per-rank longest list, whichever branch holds it
            cfg["nest"] = _ragged_nest(rng, ext, 0.0 if empty else 0.6, default, vals)
            cfg["ragged"] = True
            ext = _nest_extents(cfg["nest"])
        else:
            cfg["nest"] = gen.rand_nest(rng, ext, 0.0 if empty else 0.6, default, vals)
        cfg["shape_given"] = bool(explicit and rng.random() < 0.5)
        cfg["shape"] = [e + (rng.choice([0, 2]) if cfg["shape_given"] else 0) for e in ext]
    elif ctor == "fromRandom":
        cfg["shape"] = list(ext)
        cfg["density"] = [1.0] * (depth - 1) + [rng.choice([0.4, 0.7, 1.0])] if default else \
            [rng.choice([0.6, 0.9, 1.0]) for _ in ext]
        cfg["seed"] = rng.randint(0, 10 ** 6)
    else:
        ext = [min(e, 4) for e in ext]
        if len(set(ext)) < len(ext):
            ext = list(range(2, 2 + depth))
        cfg["shape"] = ext
        cfg["initial"] = rng.choice([1, 5])
    return cfg


def _declare_step(rng, st, p_rank=0.5, p_mut=0.3):
    """Between two transforms the holder of a tensor re-declares some of its attributes: the format of any rank
    (a fresh flattened / merged rank - whose id is a list - included) and the mutability hint."""
    fmts = [rng.choice("CU") if rng.random() < p_rank else None for _ in st["ids"]]
    for i, r in enumerate(st["ids"]):
        if isinstance(r, list) and st["fmts"][i] is None and rng.random() < 0.5:
            fmts[i] = "U"       # a fresh rank is made compressed: only U tells a kept declaration from a reset
    if not st["active_ok"]:
        # a U rank is iterated over its fibers' active ranges, which the coordinates of a relative-coordinate or halo
        # split do not lie in (see SPEC assumptions): no rank is declared uncompressed after such a split
        fmts = [fm and "C" for fm in fmts]
    return ["declare", {"fmts": fmts, "mutable": (not st["mutable"]) if rng.random() < p_mut else None}]


def _xform_case(rng, cfg, steps=None, nsteps=None):
    st = st_new(cfg["ids"], cfg["shape"], cfg["default"], cfg["fmts"], cfg["mutable"])
    out = []
    if steps is None:
        nsteps = nsteps or rng.choice([1, 1, 2, 2, 3])
        for k in range(nsteps):
            cands = _legal_steps(rng, st, first=(k == 0))
            if not cands:
                break
            step = rng.choice(cands)
            out.append(step)
            st = alg_apply(st, step[0], step[1])
            if k < nsteps - 1 and rng.random() < 0.5:
                out.append(_declare_step(rng, st))
                st = alg_apply(st, "declare", out[-1][1])
    else:
        out = steps
    return {"kind": "xform", "tensor": cfg, "steps": out}


def _stale_sensitive(op, p, st):
    """Ranks of the operand (algebra state st) whose RECORDED extent the transform works from or carries into its
    result without looking at the data (D2): a U-format rank (traversed densely up to the recorded extent), the rank
    that is split (its partitions and halos are cut out of the recorded range), every rank outside the pair
    exchanged by a swap below the root, the ranks that are flattened / merged (the merged active range is put
    together from the recorded ones) and, for a merge, the ranks below them."""
    n = len(st["ids"])
    out = {i for i in range(n) if st["fmts"][i] == "U"}
    if op in SPLITS:
        out.add(_split_depth(st, p))
    elif op == "swapRanks" and p["depth"] > 0:
        out |= set(range(n)) - {p["depth"], p["depth"] + 1}
    elif op == "flattenRanks":
        out |= set(range(p["depth"], p["depth"] + p["levels"] + 1))
    elif op == "mergeRanks":        # ... and the sub-fibers united below them take the first one's recorded range
        out |= set(range(p["depth"], n))
    elif op == "swizzleRanks" and p["ids"] == st["ids"]:
        out |= set(range(n))        # the requested order is the present one: a plain copy
    return out


def _grown_case(rng):
    """A tensor whose content arrives after construction, the way a kernel fills its output: built empty by
    Tensor(rank_ids[, shape]) - possibly dumped to YAML and loaded back while still empty - or from a fibertree,
    then points inserted through getPayloadRef (where the shape is estimated also beyond the extent recorded so
    far), then transformed."""
    route = rng.choice(["empty", "empty", "empty-yaml", "empty-yaml", "fromFiber", "fromFiber", "fromFiber"])
    depth = rng.choice([2, 3, 3, 4])
    ext = rng.sample([2, 3, 4, 5, 6], depth)
    ids = gen.rank_ids_for(depth, rng.choice(["MKNP", "ABCD", "QRST"]))
    default = 0 if route == "empty-yaml" else rng.choice([0, 0, 7, -3])   # a YAML file carries no leaf default
    vals = [v for v in gen.VALUES if v != default]
    explicit = rng.random() < 0.3
    shape = [e + rng.choice([0, 1, 3]) for e in ext] if explicit else None
    cfg = {"ctor": "fromFiber" if route == "fromFiber" else "populated", "ids": ids, "default": default,
           "fmts": [rng.choice("CCU") for _ in ids], "mutable": rng.random() < 0.5, "shape": shape}
    spec = []
    if route == "fromFiber":
        spec = gen.rand_tree_spec(rng, ext, 0.75, 0.0, default, vals)
        if not spec:
            route, cfg["ctor"] = "empty", "populated"
    if route == "fromFiber":
        cfg["spec"] = spec
    else:
        cfg["yaml"] = route == "empty-yaml"
    st = st_new(ids, shape, default, cfg["fmts"], cfg["mutable"], norecord=route != "fromFiber" and not explicit)
    steps = []
    for k in range(rng.choice([1, 1, 2])):
        cands = _legal_steps(rng, st, first=(k == 0))
        if not cands:
            break
        steps.append(rng.choice(cands))
        st = alg_apply(st, steps[-1][0], steps[-1][1])
    have = gen.content_of_spec(spec, default)
    tops = [max((pt[r] for pt in have), default=-1) + 1 for r in range(depth)]
    recorded = route == "fromFiber" and not explicit       # the ranks recorded an estimate when the fibers joined
    # guard (off) for former defect D2, see _GUARD_STALE_ESTIMATE: ranks in which no
    # insertion goes beyond the recorded estimate
    st0 = st_new(ids, shape, default, cfg["fmts"], cfg["mutable"])
    frozen =_stale_sensitive(steps[0][0], steps[0][1], st0) if (steps and recorded and _GUARD_STALE_ESTIMATE) else set()
    pts = {}
    for _ in range(rng.randint(1, 4) if spec else rng.randint(2, 8)):
        pt = tuple(rng.randrange(shape[r] if explicit else (tops[r] if r in frozen else ext[r] + 3))
                   for r in range(depth))
        if pt not in have:
            pts[pt] = rng.choice(vals)
    cfg["grow"] = [[list(pt), v] for pt, v in pts.items()]       # in insertion order (not sorted)
    cfg["beyond"] = [r for r in range(depth) if recorded and any(pt[r] >= tops[r] for pt in pts)]
    if cfg["beyond"] and _GUARD_STALE_ESTIMATE:
        # (D2, continued) the result of the first step mixes fibers whose range was copied from a stale one with
        # fibers that follow the re-estimated extent; a later step that unites such fibers is not judged
        steps = steps[:1]
    return {"kind": "xform", "tensor": cfg, "steps": steps}


def _sys_xform(rng):
    """Systematic part: every transform family x attribute configuration on 3- and 4-rank tensors."""
    attr_cfgs = []
    for explicit in (True, False):
        for default in (0, 7):
            for fmts in ("CCCC", "UCUC", "CUCU", "UUUU"):
                for mutable in (True, False):
                    attr_cfgs.append((explicit, default, fmts, mutable))
    families = []
    for perm in itertools.permutations(range(3)):
        families.append((3, ("swizzle", perm)))
    for perm in [(1, 2, 3, 0), (3, 0, 1, 2), (2, 3, 0, 1), (1, 0, 3, 2), (0, 2, 3, 1), (3, 2, 1, 0), (2, 0, 3, 1),
                 (1, 2, 0, 3), (1, 0, 2, 3)]:
        families.append((4, ("swizzle", perm)))
    for d in range(3):
        families.append((4, ("swap", d)))
    for d in range(2):
        families.append((3, ("swap", d)))
    for kind in SPLITS:
        for d in range(3):
            families.append((3, ("split", kind, d)))
    for style in ("tuple", "pair", "linear"):
        for (d, lv) in ((0, 1), (1, 1), (0, 2), (2, 1), (1, 2), (0, 3)):
            families.append((4, ("flatten", style, d, lv)))
    for (d, lv) in ((0, 1), (1, 1), (0, 2), (1, 2)):
        for ul in range(1, lv + 1):
            families.append((4, ("unflatten", d, lv, ul)))
    for kind in SPLITS:
        for rel in (False, True):
            families.append((3, ("split-flatten", kind, rel, 1)))
    for style in ("tuple", "pair"):
        families.append((3, ("flatten-flatten", style, 1)))     # [M, [K, N]] then [[M, K, N]]
        families.append((3, ("flatten-flatten", style, 0)))     # [[M, K], N] then [[M, K, N]]
    # a split below the top rank, then an absolute merge from above the two halves down to the lower half (the
    # column sums of a tiled matrix): the rows' merged fibers have different, un-nested active ranges
    for kind in SPLITS:
        for (sd, md, lv) in ((1, 0, 2), (2, 1, 2), (2, 0, 3)):
            families.append((3, ("split-merge", kind, sd, md, lv)))
    # a longer history: two ranks flattened, the new rank (its id is a list) declared uncompressed - other ranks and
    # the mutability hint possibly re-declared too -, then a transform that does not touch that rank
    for style in ("tuple", "pair"):
        for (d, then) in ((0, ("flatten", 1)), (2, ("flatten", 0)), (0, ("merge", 1)), (2, ("merge", 0)),
                          (0, ("swap", 1)), (2, ("swap", 0)), (0, ("split", 1)), (0, ("split", 2)),
                          (2, ("split", 0)), (2, ("split", 1)), (1, ("split", 0)), (1, ("split", 2)),
                          (0, ("flatten-unflatten", 1)), (2, ("flatten-unflatten", 0))):
            families.append((4, ("flatten-declare", style, d, then)))
    for fam_i, (depth, fam) in enumerate(families):
        for a_i, (explicit, default, fmts, mutable) in enumerate(attr_cfgs):
            yield fam_i * len(attr_cfgs) + a_i, depth, fam, explicit, default, fmts, mutable


def _sys_case(rng, depth, fam, explicit, default, fmts, mutable):
    cfg = _tensor_cfg(rng, depth=depth, ctor="fromFiber", explicit=explicit, default=default)
    cfg["fmts"] = list(fmts[:depth])
    cfg["mutable"] = mutable
    ids = cfg["ids"]
    what = fam[0]
    if what == "swizzle":
        steps = [["swizzleRanks", {"ids": [ids[i] for i in fam[1]]}]]
    elif what == "swap":
        steps = [["swapRanks", {"depth": fam[1]}]]
    elif what == "split":
        steps = [[fam[1], _split_params(rng, fam[1], fam[2], ids)]]
    elif what == "flatten":
        _, style, d, lv = fam
        if style == "linear" and not explicit:
            style = "tuple"
        steps = [["flattenRanks", {"depth": d, "levels": lv, "style": style}]]
    elif what == "unflatten":
        _, d, lv, ul = fam
        steps = [["flattenRanks", {"depth": d, "levels": lv, "style": "tuple"}],
                 ["unflattenRanks", {"depth": d, "levels": ul}]]
    elif what == "split-flatten":
        _, kind, rel, d = fam
        p = _split_params(rng, kind, d, ids)
        p.pop("pre", None), p.pop("post", None)
        p["relative"] = rel
        steps = [[kind, p], ["flattenRanks", {"depth": d, "levels": 1, "style": "relative" if rel else "absolute"}]]
    elif what == "split-merge":
        _, kind, sd, md, lv = fam
        p = _split_params(rng, kind, sd, ids)
        steps = [[kind, p], ["mergeRanks", {"depth": md, "levels": lv, "style": "absolute"}]]
    elif what == "flatten-declare":
        _, style, d, (then, d2) = fam
        steps = [["flattenRanks", {"depth": d, "levels": 1, "style": style}]]
        st = alg_apply(st_new(ids, cfg["shape"], default, cfg["fmts"], mutable), *steps[0])
        dec = _declare_step(rng, st, p_rank=0.3, p_mut=0.5)
        dec[1]["fmts"][d] = "U"
        steps.append(dec)
        st = alg_apply(st, *dec)
        if then in ("flatten", "merge", "flatten-unflatten"):
            steps.append(["mergeRanks" if then == "merge" else "flattenRanks", {"depth": d2, "levels": 1, "style": style}])
            if then == "flatten-unflatten":
                steps.append(["unflattenRanks", {"depth": d2, "levels": 1}])
        elif then == "swap":
            steps.append(["swapRanks", {"depth": d2}])
        else:
            kind = rng.choice(SPLITS)
            steps.append([kind, _split_params(rng, kind, d2, st["ids"])])
    else:
        steps = [["flattenRanks", {"depth": fam[2], "levels": 1, "style": fam[1]}],
                 ["flattenRanks", {"depth": 0, "levels": 1, "style": fam[1]}]]
    return {"kind": "xform", "tensor": cfg, "steps": steps, "sys": True}


def _split_params(rng, kind, d, ids, ext=5):
    """Parameters of one split at depth d: by `depth=`, by `rankid=` (when ids are known) or by both - `rankid`
    overrides `depth` (Fiber.split*: "rankid ... overrides depth"), e.g. a wrapper that forwards its default
    depth=0 next to the rank id the caller named.  Boundaries from 0."""
    p = {"rankid": ids[d]} if ids is not None and rng.random() < 0.4 else {"depth": d}
    if "rankid" in p and len(ids) > 1 and rng.random() < 0.5:
        p["depth"] = rng.choice([0, rng.randrange(len(ids))])       # any rank, the named one or another
    if kind == "splitUniform":
        p["arg"] = rng.randint(1, 4)
    elif kind == "splitNonUniform":
        p["arg"] = [0] + sorted(rng.sample(range(1, max(2, ext) + 1), rng.randint(0, 2)))
    elif kind == "splitEqual":
        p["arg"] = rng.randint(1, 3)
    else:
        p["arg"] = [rng.randint(1, 2) for _ in range(rng.randint(1, 3))]
    return p


def _fiber_cfg(rng, default):
    ext = rng.randint(3, 10)
    vals = [v for v in gen.VALUES if v != default]
    spec = gen.rand_leaf_spec(rng, ext, rng.choice([0.4, 0.7, 1.0]), 0.1, default, vals)
    if rng.random() < 0.06:
        spec = []
    own = rng.choice(["free", "free", "tensor", "interior", "partition", "default"])
    cfg = {"spec": spec, "default": default, "own": own, "rid": rng.choice("KMNJHW"), "shape": None, "active": None}
    top = (spec[-1][0] + 1) if spec else 0
    if own == "free":
        if rng.random() < 0.6:
            cfg["shape"] = max(1, top) + rng.choice([0, 1, 4])
        if rng.random() < 0.5:
            lo = rng.randint(0, 4)
            cfg["active"] = [lo, lo + rng.randint(1, 8)]
        if rng.random() < 0.2:
            cfg["rid"] = None
    else:
        if rng.random() < 0.7 or own == "partition":
            cfg["shape"] = max(1, top) + rng.choice([0, 1, 4])
        if own == "partition":
            cfg["step"] = rng.randint(2, 4)
            cfg["part"] = rng.randint(0, 3)
        if own == "default":
            # the (empty) sub-fiber a tensor hands out for a row it does not store: the tensor is still EMPTY (built
            # by Tensor(rank_ids, shape), its lower rank holds no fiber yet) or stores one other row; handed out by
            # getPayload of the missing coordinate or as the tensor's operand of a union with a populated tensor
            cfg["row"] = spec if rng.random() < 0.35 else None
            cfg["spec"] = []
            cfg["shape"] = max(1, top) + rng.choice([0, 1, 4])
            cfg["via"] = rng.choice(["getPayload", "union"])
    return cfg


def _lazy_case(rng):
    default = rng.choice([0, 0, 0, 5])
    n = rng.choice([2, 2, 3, 4])
    fibers = [_fiber_cfg(rng, default) for _ in range(n)]
    ops = []
    for op in LAZY_OPS:
        p = {}
        if op == "project":
            p["k"] = rng.choice([1, 1, 2, 3, -1, -1, -2])
            p["d"] = rng.randint(-3, 6)
            if rng.random() < 0.4:
                a = rng.randint(-8, 10)
                p["interval"] = [a, a + rng.randint(1, 8)]
            p["rank_id"] = rng.choice([None, "P", "Q"])
        elif op.startswith("coiterRange"):
            s = rng.randint(0, 5)
            p.update({"s": s, "e": s + rng.randint(0, 6), "step": rng.choice([1, 1, 2])})
        elif op == "prune":
            p["pred"] = rng.choice(["all", "none", "even-pos", "odd-coord"])
        elif op.startswith("<<"):
            z = _fiber_cfg(rng, default)
            z["own"] = rng.choice(["free", "tensor", "interior"])
            z["rid"] = rng.choice("ZYX")
            if rng.random() < 0.5:
                z["spec"] = []
            p["z"] = z
        ops.append([op, p])
    return {"kind": "lazy", "fibers": fibers, "ops": ops}


def _join_case(rng):
    depth = rng.choice([1, 2, 2, 3])
    ext = [rng.randint(2, 5) for _ in range(depth)]
    own_default = rng.choice([0, 3, 9])
    vals = [v for v in gen.VALUES if v != own_default]
    spec = gen.rand_tree_spec(rng, ext, 0.75, 0.0, own_default, vals)
    own_shape = [rng.choice([None, e, e + 2, e + 5]) for e in ext]
    case = {"kind": "join", "spec": spec, "own_default": own_default, "own_shape": own_shape,
            "own_rid": rng.choice([None, "X", "OLD"]), "ids": gen.rank_ids_for(depth, rng.choice(["MKN", "ABC"])),
            "shape": [e + rng.choice([0, 1, 3]) for e in ext] if rng.random() < 0.6 else None,
            "default": rng.choice([0, 8, own_default]), "via": rng.choice(["fromFiber", "fromFiber", "setRoot"]),
            "then": rng.choice([None, "setDefault", "setRankIds", "setShape"])}
    if depth >= 2 and spec and rng.random() < 0.5:
        # the fibers of one level were built separately and each declares its own extent (its last coordinate + 1
        # or more), e.g. rows made from lists of different lengths: `decl` mirrors the tree, [own shape, children]
        per_fiber = [False] + [rng.random() < 0.7 for _ in range(depth - 1)]
        if any(per_fiber):
            # guard (off) for known finding D3, see _GUARD_SOME_UNDECLARED
            some_none = (not _GUARD_SOME_UNDECLARED) and rng.random() < 0.3
            case["decl"] = _decl_tree(rng, spec, own_shape, per_fiber, some_none)
            case["own_shape"] = ["per-fiber" if pf else s for pf, s in zip(per_fiber, own_shape)]
    return case


def _decl_tree(rng, spec, own_shape, per_fiber, some_none, lvl=0):
    kids = [_decl_tree(rng, p, own_shape, per_fiber, some_none, lvl + 1) for _, p in spec if isinstance(p, list)]
    own = (spec[-1][0] + 1 + rng.choice([0, 0, 1, 3])) if per_fiber[lvl] else own_shape[lvl]
    if per_fiber[lvl] and some_none and rng.random() < 0.4:
        own = None
    return [own, kids]


def _fiber_from_decl(spec, default, decl):
    """A free fibertree in which every fiber is constructed with its own declared shape (decl = [shape, children])."""
    kids = iter(decl[1])
    payloads = [_fiber_from_decl(p, default, next(kids)) if isinstance(p, list) else p for _, p in spec]
    kw = {"shape": decl[0]} if decl[0] is not None else {}
    return Fiber([c for c, _ in spec], payloads, default=default, **kw)


def _decl_levels(decl, lvl=0, out=None):
    """per level: the set of shapes the fibers of that level declare"""
    out = {} if out is None else out
    out.setdefault(lvl, set()).add(decl[0])
    for k in decl[1]:
        _decl_levels(k, lvl + 1, out)
    return out


def _rejoin_case(rng):
    """A fiber that ALREADY belongs to a tensor (its root or an interior fiber) handed to a second tensor
    (Tensor.fromFiber / setRoot) or copied without its owner: the donor's fibers stay members of the donor."""
    depth = rng.choice([2, 3, 3, 4, 4])
    ext = [rng.randint(2, 4) for _ in range(depth)]
    own_default = rng.choice([0, 3])
    default = rng.choice([0, 8, own_default])
    vals = [v for v in gen.VALUES if v not in (own_default, default)]
    level = min(rng.choice([0, 0, 0, 1, 1, 2]), depth - 1)
    sub = depth - level
    return {"kind": "rejoin", "spec": gen.rand_tree_spec(rng, ext, 0.8, 0.0, own_default, vals),
            "own_default": own_default, "ids": gen.rank_ids_for(depth, "MKNP"),
            "shape": [e + rng.choice([0, 1, 3]) for e in ext] if rng.random() < 0.6 else None, "default": default,
            "fmts": [rng.choice("CCU") for _ in range(depth)], "level": level, "pick": rng.randint(0, 5),
            "via": rng.choice(["fromFiber", "setRoot", "copy"]), "ids2": gen.rank_ids_for(sub, "ABCD"),
            "shape2": [e + rng.choice([0, 2, 6]) for e in ext[level:]] if rng.random() < 0.5 else None,
            "default2": rng.choice([0, 8, 11]), "fmts2": [rng.choice("CU") for _ in range(sub)],
            "then": rng.choice([None, "setDefault", "setRankIds", "setShape", "setFormat", "new.setDefault"])}


def _fiber_case(rng):
    depth = rng.choice([1, 2, 2, 3])
    ext = [rng.randint(2, 6) for _ in range(depth)]
    default = rng.choice([0, 0, 4])
    ctor = rng.choice(["fromUncompressed", "fromRandom", "ctor-shape", "ctor"])
    case = {"kind": "fiber", "ctor": ctor, "default": default, "ext": ext}
    vals = [v for v in gen.VALUES if v != default]
    if ctor == "fromUncompressed":
        if depth >= 3 and rng.random() < 0.8:
            case["nest"] = _ragged_nest(rng, ext, rng.choice([0.5, 0.8]), default, vals)
            case["ragged"] = True
        else:
            case["nest"] = gen.rand_nest(rng, ext, rng.choice([0.0, 0.5, 0.8]), default, vals)
    elif ctor == "fromRandom":
        case["density"] = [1.0] * (depth - 1) + [rng.choice([0.4, 0.8])] if default else [rng.choice([0.5, 0.9]) for _ in ext]
        case["seed"] = rng.randint(0, 10 ** 6)
    else:
        case["spec"] = gen.rand_tree_spec(rng, ext, 0.7, 0.0, default, vals)
        case["shape"] = [e + rng.choice([0, 2]) for e in ext] if ctor == "ctor-shape" else None
    ops = [None]
    for kind in SPLITS:
        ops.append([kind, _split_params(rng, kind, rng.randint(0, depth - 1), None)])
    if depth >= 2:
        ops += [["flattenRanks", {"depth": 0, "levels": 1, "style": s}] for s in ("tuple", "pair")]
        ops.append(["flatten-unflatten", {}])
        ops.append(["swapRanks", {}])
    if depth == 2:
        # the lower rank tiled, then all three ranks merged on the coordinate of the lowest one
        for kind in SPLITS[:2]:
            ops.append(["split-merge", dict(_split_params(rng, kind, 1, None, ext[1]), kind=kind)])
    case["op"] = rng.choice(ops)
    return case


def generate(rng, tier, shard, nshards, mon):
    for idx, depth, fam, explicit, default, fmts, mutable in _sys_xform(rng):
        if idx % nshards == shard:
            yield _sys_case(rng, depth, fam, explicit, default, fmts, mutable)
    mon.exhaustive["transform-family-x-attribute-config"] = True
    scale = 1 if tier == "quick" else 20
    for _ in range(2000 * scale // nshards):
        empty = rng.random() < 0.03
        cfg = _tensor_cfg(rng, empty=empty, ctor="fromFiber" if empty else None)
        yield _xform_case(rng, cfg)
    for _ in range(700 * scale // nshards):
        yield _grown_case(rng)
    for _ in range(1200 * scale // nshards):
        yield _lazy_case(rng)
    for _ in range(800 * scale // nshards):
        yield _join_case(rng)
    for _ in range(800 * scale // nshards):
        yield _fiber_case(rng)
    for _ in range(600 * scale // nshards):
        yield _rejoin_case(rng)


# ------------------------------------------------------------------------------------------
# helpers
# ------------------------------------------------------------------------------------------
class _Raised(Exception):
    pass


def _call(mon, key, fn, *a, **kw):
    """Run a library call; an exception on a legal input is a violation `<key>:raised:<Type>`."""
    try:
        return fn(*a, **kw)
    except BaseException as e:      # noqa  (the library calls sys.exit() on some paths)
        if isinstance(e, KeyboardInterrupt):
            raise
        mon.violation(f"{key}:raised:{type(e).__name__}", f"{key} raised {type(e).__name__}: {e}")
        raise _Raised()


def _inside(c, s):
    """coordinate c inside shape s: ints 0 <= c < s; tuples component-wise with the same structure.
    -> True / False / None (structure mismatch)"""
    if isinstance(c, tuple) or isinstance(s, tuple):
        if not (isinstance(c, tuple) and isinstance(s, tuple)) or len(c) != len(s):
            return None
        res = [_inside(ce, se) for ce, se in zip(c, s)]
        if None in res:
            return None
        return all(res)
    if not isinstance(s, (int, float)) or isinstance(s, bool):
        return None
    return 0 <= c < s


def _in_range(c, rng_):
    lo, hi = rng_
    return lo <= c < hi


def _walk(root):
    """(level, fiber) for every fiber of the raw tree."""
    stack = [(0, root)]
    while stack:
        lvl, f = stack.pop()
        yield lvl, f
        for p in f.payloads:
            if isinstance(p, Fiber):
                stack.append((lvl + 1, p))


def _check_containment(mon, key, root, shapes, active_ok, estimated=False, roles=None):
    """Clause 4 on every fiber below `root`.  shapes: per-level reported shape, or None to use each fiber's own.
    roles: {level: tag} refines the key for the levels a split created."""
    est = ":estimated-shape" if estimated else ""
    for lvl, f in _walk(root):
        mon.count("fibers_walked")
        k = key + (f":{roles[lvl]}" if roles and lvl in roles else "")
        s = shapes[lvl] if shapes is not None else _call(mon, f"{key}:fiber.getShape", f.getShape, all_ranks=False)
        verdicts = [(c, _inside(c, tup(s))) for c in f.coords]
        bad = [c for c, v in verdicts if v is not True]
        struct = any(v is None for _, v in verdicts)
        if bad and estimated and not struct and isinstance(bad[0], tuple):
            # one mechanism whatever the operation: the estimate of a tuple-coordinate rank is the
            # lexicographic maximum + 1, not the component-wise extent
            mon.check(False, "estimated-shape[tuple-coords]:coord-outside-shape",
                      f"{key}: level {lvl} stores coordinates {bad[:4]} outside the estimated shape {s!r}")
        else:
            mon.check(not bad, f"{k}:coord-outside-shape{est}" + (":structure" if struct else ""),
                      f"{key}: level {lvl} stores coordinates {bad[:4]} outside the reported shape {s!r}")
        if not active_ok:
            continue
        ar = _call(mon, f"{key}:getActive", f.getActive)
        # the range is derived from the (estimated) shape only when the fiber carries no range of its own
        aest = est if f.__dict__.get("_active_range") is None else ""
        try:
            out = [c for c in f.coords if not _in_range(c, ar)]
        except TypeError:
            mon.violation(f"{k}:active-range-incomparable",
                          f"{key}: level {lvl}: active range {ar!r} cannot be compared with stored coordinates like "
                          f"{f.coords[:1]!r} (iterActive raises TypeError)")
            continue
        mon.check(not out, f"{k}:coord-outside-active-range{aest}",
                  f"{key}: level {lvl} stores coordinates {out[:4]} outside the fiber's active range {ar!r} "
                  f"(so iterActive != iterOccupancy)")
        try:
            ia = [(c, id(p)) for c, p in f.iterActive(tick=False)]
            io = [(c, id(p)) for c, p in f.iterOccupancy(tick=False)]
        except BaseException as e:      # noqa
            mon.violation(f"{k}:iterActive:raised:{type(e).__name__}",
                          f"{key}: level {lvl}: iterActive/iterOccupancy raised {type(e).__name__}: {e} "
                          f"(active range {ar!r}, coords {f.coords[:3]!r})")
            continue
        mon.count("iter_active_compared")
        if not out:
            mon.check(ia == io, f"{k}:iterActive!=iterOccupancy{aest}",
                      f"{key}: level {lvl}: iterActive yields {[c for c, _ in ia][:6]} but iterOccupancy "
                      f"{[c for c, _ in io][:6]} (active range {ar!r})")
        else:
            mon.check(ia != io, f"{k}:iterActive-ignores-active-range",
                      f"{key}: level {lvl}: coordinates {out[:4]} lie outside {ar!r} yet iterActive yields them")


def _leaves(root):
    n = 0
    for _, f in _walk(root):
        n += sum(1 for p in f.payloads if not isinstance(p, Fiber))
    return n


# ------------------------------------------------------------------------------------------
# xform cases
# ------------------------------------------------------------------------------------------
def _build_tensor(mon, cfg):
    ctor, ids, d = cfg["ctor"], cfg["ids"], cfg["default"]
    if ctor == "fromFiber":
        t = _call(mon, "Tensor.fromFiber", gen.tensor_from_spec, cfg["spec"], ids, shape=cfg["shape"], default=d)
    elif ctor == "fromUncompressed":
        kw = {"shape": list(cfg["shape"])} if cfg.get("shape_given") else {}
        t = _call(mon, "Tensor.fromUncompressed", Tensor.fromUncompressed, rank_ids=list(ids), root=cfg["nest"],
                  default=d, **kw)
    elif ctor == "fromRandom":
        t = _call(mon, "Tensor.fromRandom", Tensor.fromRandom, rank_ids=list(ids), shape=list(cfg["shape"]),
                  density=list(cfg["density"]), seed=cfg["seed"], default=d)
    elif ctor == "populated":
        t = _call(mon, "Tensor", Tensor, rank_ids=list(ids), shape=list(cfg["shape"]) if cfg["shape"] else None,
                  default=d)
        if cfg.get("yaml"):
            t = _call(mon, "Tensor.fromYAMLfile[empty]", _yaml_roundtrip, t)
    else:
        t = _call(mon, "Tensor.makePopulated", Tensor.makePopulated, list(ids), list(cfg["shape"]),
                  initial=cfg["initial"], default=d)
    for r, fm in zip(ids, cfg["fmts"]):
        if fm != "C":
            t.setFormat(r, fm)
    t.setMutable(cfg["mutable"])
    return t


def _yaml_roundtrip(t):
    fd, path = tempfile.mkstemp(suffix=".yaml", prefix="c14-")
    os.close(fd)
    try:
        t.dump(path)
        return Tensor.fromYAMLfile(path)
    finally:
        os.unlink(path)


def _insert_points(t, grow, default):
    """The way a kernel fills an output: a reference to the (created) leaf, updated in place."""
    for pt, v in grow:
        ref = t.getPayloadRef(*pt)
        ref += v - default


def _opkey(op, p, st):
    """Mechanism-level name of a step (no input-dependent numbers)."""
    if op in SPLITS:
        k = op
        if p.get("relative"):
            k += "[relative]"
        if p.get("pre") or p.get("post"):
            k += "[halo]"
        return k
    if op in ("flattenRanks", "mergeRanks"):
        hi = p["depth"] + p["levels"] + 1
        n = sum(k[1] for k in st["kinds"][p["depth"]:hi])
        return f"{op}[{p['style']}{',3+ranks' if n > 2 else ''}]"
    return op


def _check_attrs(mon, key, t, st, skey=None):
    """Compare the getters of the real tensor with the algebra state. -> all held
    key: operation (carry-over clauses); skey: operation + coordinate style (shape clause)."""
    ok = True
    skey = skey or key
    ids = _call(mon, f"{key}:getRankIds", t.getRankIds)
    ok &= mon.check(ids == st["ids"], f"{key}:rank-ids", f"{key}: rank ids {ids!r}, expected {st['ids']!r}")
    if not ok:
        return False
    if st["shape"] is not None:
        mon.count("shape_authoritative_checked")
        got = _call(mon, f"{key}:getShape", t.getShape, authoritative=True)
        if got is None:
            ok &= mon.check(False, f"{key}:authoritative-shape-lost",
                            f"{skey}: operand shape was authoritative, result reports no authoritative shape "
                            f"(estimated {t.getShape()!r}, expected {st['shape']!r})")
        else:
            ok &= mon.check([tup(s) for s in got] == st["shape"], f"{skey}:shape",
                            f"{skey}: authoritative shape {got!r}, expected {st['shape']!r} for ranks {st['ids']!r}")
    got = unbox(_call(mon, f"{key}:getDefault", t.getDefault))
    ok &= mon.check(got == st["default"] and not isinstance(got, Payload), f"{key}:leaf-default",
                    f"{key}: leaf default {got!r}, expected {st['default']!r}")
    for rid, fm in zip(st["ids"], st["fmts"]):
        if fm is None:
            continue
        mon.count("format_checked")
        got = _call(mon, f"{key}:getFormat", t.getFormat, rid)
        ok &= mon.check(got == fm, f"{key}:format", f"{key}: rank {rid!r} has format {got!r}, expected {fm!r}")
    got = t.isMutable()
    ok &= mon.check(got == st["mutable"], f"{key}:mutable", f"{key}: isMutable() {got!r}, expected {st['mutable']!r}")
    return bool(ok)


def _check_tensor_fibers(mon, key, t, st, roles=None):
    """Every fiber answers with its rank's id; coordinates inside shape / active range."""
    root = t.getRoot()
    shapes = _call(mon, f"{key}:getShape", t.getShape)
    if st.get("unknown0") and root.coords:
        if not _GUARD_SHAPE0:
            _check_containment(mon, "transform[shape-recorded-as-0]", root, shapes, False, estimated=True)
        if _GUARD_SHAPE0:
            shapes = None       # (guard for former defect D1: judge against the shape each fiber reports)
    ok = True
    for lvl, f in _walk(root):
        if lvl >= len(st["ids"]):
            mon.violation(f"{key}:tree-deeper-than-ranks", f"{key}: fiber at level {lvl} but {len(st['ids'])} ranks")
            return False
        rid = f.getRankAttrs().getId()
        ok &= mon.check(rid == st["ids"][lvl], f"{key}:fiber-rank-id",
                        f"{key}: fiber at level {lvl} answers rank id {rid!r}, expected {st['ids'][lvl]!r}")
    _check_containment(mon, key, root, shapes, st["active_ok"], estimated=st["shape"] is None, roles=roles)
    return ok


def _apply(t, op, p):
    if op in SPLITS:
        kw = {k: p[k] for k in ("depth", "rankid") if k in p}
        if p.get("relative"):
            kw["relativeCoords"] = True
        if p.get("pre"):
            kw["pre_halo"] = p["pre"]
        if p.get("post"):
            kw["post_halo"] = p["post"]
        return getattr(t, op)(p["arg"], **kw)
    if op == "swizzleRanks":
        return t.swizzleRanks(list(p["ids"]))
    if op == "swapRanks":
        return t.swapRanks(depth=p["depth"])
    if op == "flattenRanks":
        return t.flattenRanks(depth=p["depth"], levels=p["levels"], coord_style=p["style"])
    if op == "mergeRanks":
        return t.mergeRanks(depth=p["depth"], levels=p["levels"], coord_style=p["style"])
    if op == "unflattenRanks":
        return t.unflattenRanks(depth=p["depth"], levels=p["levels"])
    raise ValueError(op)


def _declare(t, st, p):
    for rid, fm in zip(st["ids"], p["fmts"]):
        if fm is not None:
            t.setFormat(rid, fm)
    if p.get("mutable") is not None:
        t.setMutable(p["mutable"])


def _run_xform(case, mon):
    cfg = case["tensor"]
    try:
        t = _build_tensor(mon, cfg)
    except _Raised:
        return
    st = st_new(cfg["ids"], cfg["shape"], cfg["default"], cfg["fmts"], cfg["mutable"],
                unknown0=bool(cfg.get("yaml")) and cfg["shape"] is None,
                norecord=cfg["ctor"] == "populated" and cfg["shape"] is None)
    key = f"Tensor.{cfg['ctor']}" + ("+fromYAMLfile" if cfg.get("yaml") else "")
    if cfg.get("ragged") and _nest_ragged(cfg["nest"]):
        key += "[ragged-nest]"
        mon.count("ragged_nests" if cfg.get("shape_given") else "ragged_nests_shape_calculated")
    good = _check_attrs(mon, key, t, st)
    try:
        good &= _check_tensor_fibers(mon, key, t, st)
    except _Raised:
        good = False
    stale = set()
    if good and cfg.get("grow"):
        # content that arrives after construction; the filled tensor itself is not judged (SPEC assumptions), the
        # tensors made from it are
        try:
            _call(mon, "getPayloadRef", _insert_points, t, cfg["grow"], cfg["default"])
        except _Raised:
            return
        mon.count("points_inserted", len(cfg["grow"]))
        mon.count("tensors_filled_after_construction")
        if cfg["ctor"] == "populated":
            mon.count("filled_from_empty_after_yaml" if cfg.get("yaml") else "filled_from_empty")
        stale = set(cfg.get("beyond", ()))
        if stale:
            mon.count("grown_beyond_recorded_estimate")
    nleaves = _leaves(t.getRoot())
    done = 0
    for idx, (op, p) in enumerate(case["steps"]):
        if not good:
            break
        if op == "declare":
            # the holder of the tensor re-declares attributes; they are the operand's from now on
            try:
                _call(mon, "redeclare", _declare, t, st, p)
                st = alg_declare(st, p)
                mon.count("attributes_redeclared")
                if any(fm is not None and isinstance(r, list) for r, fm in zip(st["ids"], p["fmts"])):
                    mon.count("flattened_rank_format_declared")
                good = _check_attrs(mon, "redeclare", t, st)
            except _Raised:
                good = False
            continue
        key = _opkey(op, p, st)
        st2 = alg_apply(st, op, p)
        roles = None
        if op in SPLITS:
            sd = _split_depth(st, p)
            roles = {sd: "upper", sd + 1: "partition"}
        if op == "mergeRanks" and p["style"] == "absolute" and p["levels"] >= 2 \
                and _split_pair(st, p["depth"] + p["levels"] - 1) is False:
            mon.count("merge_absolute_from_above_split_halves")
        if done == 0 and stale & _stale_sensitive(op, p, st):
            key, roles = "transform[operand-grown-beyond-estimate]", None    # one mechanism whatever the transform
        # the snapshot is turned into tuples: a list the library hands out may be (part of) its own state
        before = tup((t.getRankIds(), t.getShape(authoritative=True), unbox(t.getDefault()), t.isMutable()))
        raw0 = mon.counters["violations_raw"]
        try:
            t2 = _call(mon, key + ("[empty-tensor]" if nleaves == 0 else ""), _apply, t, op, p)
            mon.count("xform_steps")
            akey = op
            if op in SPLITS and "rankid" in p and "depth" in p and p["depth"] != _split_depth(st, p):
                akey = f"{op}[rankid-and-depth]"        # both given, naming different ranks: rankid overrides
                mon.count("split_rankid_and_depth_disagree")
            good = _check_attrs(mon, akey, t2, st2, skey=key if op in ("flattenRanks", "mergeRanks") else akey)
            if good:                # containment is judged against a shape already known to be right
                good = _check_tensor_fibers(mon, key, t2, st2, roles)
            after = tup((t.getRankIds(), t.getShape(authoritative=True), unbox(t.getDefault()), t.isMutable()))
            mon.check(before == after, f"{op}:operand-attributes-changed",
                      f"{key}: operand attributes were {before!r}, now {after!r}")
            # ... and the operand (an intermediate result the holder may look at or use again) still answers with
            # the attributes the algebra worked out for it, whatever was made from it since
            mon.count("operand_rechecked_after_transform")
            if any(isinstance(r, list) for r in st["ids"]):
                mon.count("operand_with_flattened_rank_rechecked")
            mon.check(tup(t.getRankIds()) == tup(st["ids"]), f"{op}:operand-attributes-changed",
                      f"{key}: the operand had rank ids {st['ids']!r}, after the transform it answers {t.getRankIds()!r}")
        except _Raised:
            good = False
            break
        mon.state((key, str(st2["ids"]), str(st2["shape"]), st2["default"], str(st2["fmts"]), st2["mutable"]))
        t, st = t2, st2
        done += 1
        if mon.counters["violations_raw"] != raw0:
            good = False            # never judge a later step on top of a result already found wrong
        kept = sum(1 for r, fm in zip(st["ids"], st["fmts"]) if fm is not None and isinstance(r, list))
        if kept and good:
            mon.count("declared_format_of_flattened_rank_carried", kept)
        if not st["canonical"] and idx < len(case["steps"]) - 1:
            mon.count("chains_cut_noncanonical")
            break
    if nleaves >= 2 and done > 0:
        mon.nontrivial()


# ------------------------------------------------------------------------------------------
# lazy cases
# ------------------------------------------------------------------------------------------
def _build_fiber(mon, cfg):
    """-> (fiber, declared, keep-alive) where declared = {'id', 'shape', 'active'} is computed from the
    configuration alone (constructor arguments; for a split partition the partition interval clipped to the shape)."""
    d, spec, own, rid = cfg["default"], cfg["spec"], cfg["own"], cfg["rid"]
    present = [c for c, v in spec]
    top = (present[-1] + 1) if present else 0
    keep = []
    if own == "free":
        kw = {}
        if cfg["shape"] is not None:
            kw["shape"] = cfg["shape"]
        if cfg["active"] is not None:
            kw["active_range"] = tuple(cfg["active"])
        f = gen.fiber_from_spec(spec, d, **kw)
        if rid is not None:
            f.getRankAttrs().setId(rid)
        shape = cfg["shape"] if cfg["shape"] is not None else top
        dec = {"id": rid if rid is not None else "Unknown", "shape": shape,
               "active": tuple(cfg["active"]) if cfg["active"] is not None else (0, shape)}
        return f, dec, keep
    shape = cfg["shape"]
    if own == "tensor":
        t = gen.tensor_from_spec(spec, [rid], shape=[shape] if shape else None, default=d)
        keep.append(t)
        s = shape if shape else top
        return t.getRoot(), {"id": rid, "shape": s, "active": (0, s)}, keep
    if own == "interior":
        t = gen.tensor_from_spec([[1, spec]], ["TOP", rid], shape=[3, shape] if shape else None, default=d)
        keep.append(t)
        s = shape if shape else top
        return t.getRoot().payloads[0], {"id": rid, "shape": s, "active": (0, s)}, keep
    if own == "default":
        if cfg["row"]:
            t = gen.tensor_from_spec([[1, cfg["row"]]], ["TOP", rid], shape=[3, shape], default=d)
        else:
            t = Tensor(rank_ids=["TOP", rid], shape=[3, shape], default=d)
            mon.count("default_subfibers_of_empty_tensor")
        keep.append(t)
        if cfg["via"] == "getPayload":
            f = unbox(t.getRoot().getPayload(2))
        else:
            other = gen.tensor_from_spec([[2, [[0, 1 if d != 1 else 2]]]], ["TOP", rid], shape=[3, shape], default=d)
            keep.append(other)
            f = None
            for c, (_, x, _y) in t.getRoot() | other.getRoot():
                if c == 2:
                    f = x
        mon.count("default_subfibers")
        return f, {"id": rid, "shape": shape, "active": (0, shape)}, keep
    # partition of a split tensor
    t = gen.tensor_from_spec(spec, [rid], shape=[shape], default=d)
    step = cfg["step"]
    t2 = t.splitUniform(step)
    keep += [t, t2]
    nonempty = [c for c, v in spec if v != d]
    parts = sorted({c // step * step for c in nonempty})
    if not parts:
        return t.getRoot(), {"id": rid, "shape": shape, "active": (0, shape)}, keep
    i = cfg["part"] % len(parts)
    part = parts[i]
    f = t2.getRoot().payloads[i]
    return f, {"id": f"{rid}.0", "shape": shape, "active": (max(part, 0), min(part + step, shape))}, keep


PRUNES = {"all": lambda i, c, p: True, "none": lambda i, c, p: False, "even-pos": lambda i, c, p: i % 2 == 0,
          "odd-coord": lambda i, c, p: c % 2 == 1}


def _check_lazy(mon, key, res, want_id, want_active, check_id=True):
    mon.count("lazy_results")
    if not mon.check(isinstance(res, Fiber), f"{key}:result-not-a-fiber", f"{key} returned {type(res).__name__}"):
        return
    if check_id:
        got = res.getRankAttrs().getId()
        mon.check(got == want_id, f"{key}:rank-id", f"{key}: result rank id {got!r}, expected {want_id!r}")
    got = _call(mon, f"{key}:getActive", res.getActive)
    mon.check(tuple(got) == tuple(want_active), f"{key}:active-range",
              f"{key}: result active range {got!r}, expected {tuple(want_active)!r}")


def _run_lazy(case, mon):
    built = []
    try:
        for i, cfg in enumerate(case["fibers"]):
            f, dec, keep = _build_fiber(mon, cfg)
            own = cfg["own"]
            # freshly built operands answer with their declared attributes
            rid = f.getRankAttrs().getId()
            mon.check(rid == dec["id"], f"build[{own}]:rank-id", f"{own} fiber answers rank id {rid!r}, declared {dec['id']!r}")
            ar = _call(mon, f"build[{own}]:getActive", f.getActive)
            mon.check(tuple(ar) == tuple(dec["active"]), f"build[{own}]:active-range",
                      f"{own} fiber answers active range {ar!r}, declared {dec['active']!r} ({cfg!r})")
            sh = _call(mon, f"build[{own}]:getShape", f.getShape, all_ranks=False)
            mon.check(sh == dec["shape"], f"build[{own}]:shape", f"{own} fiber answers shape {sh!r}, declared {dec['shape']!r}")
            built.append((f, dec, keep, cfg))
    except _Raised:
        return
    a, da, _, ca = built[0]
    b = built[1][0]
    rest = [x[0] for x in built]
    tag = ""
    for op, p in case["ops"]:
        key = f"lazy:{op}{tag}"
        try:
            if op in ("&", "|", "^", "-"):
                res = _call(mon, key, {"&": a.__and__, "|": a.__or__, "^": a.__xor__, "-": a.__sub__}[op], b)
                _check_lazy(mon, key, res, da["id"], da["active"])
            elif op == "intersection":
                res = _call(mon, key, Fiber.intersection, *rest)
                _check_lazy(mon, key, res, da["id"], da["active"])
            elif op == "leader-follower":
                res = _call(mon, key, Fiber.intersection, *rest, style="leader-follower")
                _check_lazy(mon, key, res, da["id"], da["active"])
            elif op == "union":
                res = _call(mon, key, Fiber.union, *rest)
                _check_lazy(mon, key, res, da["id"], da["active"])
            elif op == "prune":
                res = _call(mon, key, a.prune, PRUNES[p["pred"]])
                _check_lazy(mon, key, res, da["id"], da["active"])
            elif op == "project":
                lo, hi = da["active"]
                if lo >= hi:
                    continue
                k, d = p["k"], p["d"]
                iv = p.get("interval")
                kw = {}
                if iv is not None:
                    kw["interval"] = tuple(iv)
                if p.get("rank_id") is not None:
                    kw["rank_id"] = p["rank_id"]
                key = f"lazy:project[{'decreasing' if k < 0 else 'increasing'}{',interval' if iv else ''}]{tag}"
                res = _call(mon, key, a.project, lambda c, k=k, d=d: k * c + d, **kw)
                want = tuple(iv) if iv is not None else affine_range(lo, hi, k, d)
                _check_lazy(mon, key, res, p.get("rank_id"), want, check_id=p.get("rank_id") is not None)
            elif op.startswith("coiter"):
                fn = getattr(Fiber, op)
                if "Range" in op:
                    res = _call(mon, key, fn, rest, p["s"], p["e"], p["step"])
                    want = (p["s"], p["e"])
                elif "Active" in op:
                    res = _call(mon, key, fn, rest)
                    want = da["active"]
                else:
                    res = _call(mon, key, fn, rest)
                    want = (0, da["shape"])
                _check_lazy(mon, key, res, da["id"], want)
            elif op.startswith("<<"):
                z, dz, keepz = _build_fiber(mon, p["z"])
                src = a if op == "<<" else _call(mon, "lazy:&", a.__and__, b)
                res = _call(mon, key, z.__lshift__, src)
                _check_lazy(mon, key, res, dz["id"], da["active"])
                za = _call(mon, f"{key}:getActive", z.getActive)
                mon.check(tuple(za) == tuple(da["active"]), f"{key}:destination-active-range",
                          f"{key}: destination active range {za!r} after populate, expected the source's {da['active']!r}")

                def drive():
                    n = 0
                    for c, (zr, _) in res:
                        zr += 1
                        n += 1
                        if n > 1000:
                            break
                _call(mon, f"{key}:iterate", drive)
                zid = z.getRankAttrs().getId()
                za = z.getActive()
                mon.check(zid == dz["id"] and tuple(za) == tuple(da["active"]), f"{key}:destination-attributes-after-iteration",
                          f"{key}: destination answers id {zid!r} / active {za!r} after iteration, expected {dz['id']!r} / {da['active']!r}")
        except _Raised:
            continue
    # operands keep their own attributes
    for f, dec, _, cfg in built:
        rid, ar = f.getRankAttrs().getId(), f.getActive()
        mon.check(rid == dec["id"] and tuple(ar) == tuple(dec["active"]), "lazy:operand-attributes-changed",
                  f"operand answers id {rid!r} / active {ar!r} after the operations, declared {dec['id']!r} / {dec['active']!r}")
    db = built[1][1]
    if a.coords and tuple(da["active"]) != tuple(db["active"]):
        mon.nontrivial()
    mon.state(("lazy", da["id"], str(da["active"]), db["id"], str(db["active"])))


# ------------------------------------------------------------------------------------------
# join cases
# ------------------------------------------------------------------------------------------
def _verify_members(mon, key, t, root, ids, shape, d, own_shape=None, own_d=None, fmts=None, counter="joined_fibers"):
    """Every fiber below `root` (the root fiber of tensor `t`) answers with its rank's attributes: owner, rank id,
    shape (the one given to the tensor, else the one the tensor reports), active range (0, shape), default (the
    tensor's at the leaf level, Fiber above), format; coordinates inside shape / active range.
    ids / shape / d / fmts are the values handed to the tensor.  -> some own attribute differed from the rank's"""
    differs = False
    reported = _call(mon, f"{key}:Tensor.getShape", t.getShape)
    if shape:
        mon.check(t.getShape(authoritative=True) == list(shape), f"{key}:tensor-shape",
                  f"{key}: tensor reports {t.getShape(authoritative=True)!r}, given {shape!r}")
    for lvl, fb in _walk(root):
        mon.count(counter)
        if lvl >= len(ids):
            mon.violation(f"{key}:tree-deeper-than-ranks", f"{key}: fiber at level {lvl} but {len(ids)} ranks")
            return differs
        leaf = lvl == len(ids) - 1
        mon.check(fb.getOwner() is t.ranks[lvl], f"{key}:owner", f"{key}: fiber at level {lvl} is not owned by its rank")
        rid = fb.getRankAttrs().getId()
        mon.check(rid == ids[lvl], f"{key}:rank-id", f"{key}: fiber at level {lvl} answers rank id {rid!r}, rank is {ids[lvl]!r}")
        want = shape[lvl] if shape else reported[lvl]
        got = _call(mon, f"{key}:getShape", fb.getShape, all_ranks=False)
        own = own_shape[lvl] if own_shape is not None else None
        mon.check(got == want, f"{key}:shape", f"{key}: fiber at level {lvl} (own shape {own!r}) answers "
                                              f"shape {got!r}, rank's is {want!r}")
        if own not in (None, want):
            differs = True
        ar = _call(mon, f"{key}:getActive", fb.getActive)
        mon.check(tuple(ar) == (0, want), f"{key}:active-range", f"{key}: fiber at level {lvl} answers active range {ar!r}, "
                                                                  f"rank shape is {want!r}")
        gd = _call(mon, f"{key}:getDefault", fb.getDefault)
        if leaf:
            mon.check(isinstance(gd, Payload) and gd.value == d, f"{key}:leaf-default",
                      f"{key}: leaf fiber (own default {own_d!r}) answers default {gd!r}, rank's is {d!r}")
        else:
            mon.check(unbox(gd) is Fiber, f"{key}:interior-default", f"{key}: interior fiber answers default {gd!r}")
        if fmts is not None:
            mon.count("format_checked")
            fm = fb.getRankAttrs().getFormat()
            mon.check(fm == fmts[lvl], f"{key}:format", f"{key}: fiber at level {lvl} answers format {fm!r}, "
                                                        f"rank {ids[lvl]!r} was set to {fmts[lvl]!r}")
    _check_containment(mon, key, root, reported, True, estimated=not shape)
    return differs


def _run_join(case, mon):
    own_d = case["own_default"]
    ids, shape, d = case["ids"], case["shape"], case["default"]
    if case.get("decl"):
        f = _fiber_from_decl(case["spec"], own_d, case["decl"])
        if any(len(v) > 1 for v in _decl_levels(case["decl"]).values()):
            mon.count("join_sibling_shapes_differ")
    else:
        f = gen.fiber_from_spec(case["spec"], own_d, shape=case["own_shape"])
    if case["own_rid"] is not None:
        f.getRankAttrs().setId(case["own_rid"])
    key = f"join[{case['via']}]"
    if case.get("decl") and any(None in v and len(v) > 1 for v in _decl_levels(case["decl"]).values()):
        key = "join[some-fibers-undeclared]"
    try:
        if case["via"] == "fromFiber":
            t = _call(mon, key, Tensor.fromFiber, rank_ids=list(ids), fiber=f, shape=list(shape) if shape else None, default=d)
        else:
            t = _call(mon, key, Tensor, rank_ids=list(ids), shape=list(shape) if shape else None, default=d)
            _call(mon, key, t.setRoot, f)
            if shape:
                t.setShape(list(shape))
    except _Raised:
        return
    differs = own_d != d or case["own_rid"] not in (None, ids[0])

    some_undeclared = key == "join[some-fibers-undeclared]"

    def verify(key, ids, shape, d):
        nonlocal differs
        if some_undeclared:
            key = "join[some-fibers-undeclared]"      # one mechanism, whatever attribute change followed (known finding D3)
        differs |= _verify_members(mon, key, t, f, ids, shape, d, own_shape=case["own_shape"], own_d=own_d)
    try:
        if t.getRoot() is not f:
            mon.violation(f"{key}:root-not-the-fiber", f"{key}: an unowned fiber was copied instead of joined")
            return
        verify(key, ids, shape, d)
        then = case["then"]
        if then == "setDefault":
            t.setDefault(d + 5)
            verify(f"{key}+setDefault", ids, shape, d + 5)
        elif then == "setRankIds":
            ids2 = [r + "2" for r in ids]
            t.setRankIds(ids2)
            verify(f"{key}+setRankIds", ids2, shape, d)
        elif then == "setShape":
            base = shape or t.getShape()
            shape2 = [s + 2 for s in base]
            t.setShape(shape2)
            if shape:
                verify(f"{key}+setShape", ids, shape2, d)
    except _Raised:
        return
    if f.coords and differs:
        mon.nontrivial()
    mon.state(("join", str(case["own_shape"]), str(shape), own_d, d, case["own_rid"], case["then"]))


# ------------------------------------------------------------------------------------------
# free-fiber cases
# ------------------------------------------------------------------------------------------
def _check_all_ranks(mon, f, est):
    """A free fibertree's own `getShape()` (all ranks) must contain every stored coordinate, level by level."""
    key = "Fiber.getShape[all-ranks]"
    shapes = _call(mon, key, f.getShape)
    depth = max(lvl for lvl, _ in _walk(f)) + 1
    if not mon.check(isinstance(shapes, list) and len(shapes) >= depth, f"{key}:fewer-levels-than-the-tree",
                     f"{key} answers {shapes!r} for a tree of depth {depth}"):
        return
    # integer levels only: tuple-coordinate levels are judged fiber by fiber in _check_containment
    for lvl, fb in _walk(f):
        ext = shapes[lvl]
        if isinstance(ext, bool) or not isinstance(ext, int):
            continue
        bad = [c for c in fb.coords if isinstance(c, int) and not 0 <= c < ext]
        mon.check(not bad, f"{key}:coord-outside-shape",
                  f"{key} of a free fibertree answers {shapes!r} but level {lvl} stores coordinates {bad[:4]}")


def _run_fiber(case, mon):
    d = case["default"]
    ctor = case["ctor"]
    key = f"Fiber.{ctor}"
    est = ctor in ("fromRandom", "ctor")        # no declared shape: every answer is an estimate
    if case.get("ragged") and _nest_ragged(case["nest"]):
        key += "[ragged-nest]"
        mon.count("ragged_nests_free_fiber")
    try:
        if ctor == "fromUncompressed":
            f = _call(mon, key, Fiber.fromUncompressed, case["nest"], default=d)
        elif ctor == "fromRandom":
            f = _call(mon, key, Fiber.fromRandom, list(case["ext"]), list(case["density"]), 10, case["seed"], default=d)
        else:
            f = gen.fiber_from_spec(case["spec"], d, shape=case["shape"])
        _check_containment(mon, key, f, None, True, estimated=est)
        _check_all_ranks(mon, f, est)
        if ctor == "fromUncompressed" and f.coords:
            # every fiber answers with the length of the list it was made from (for a ragged nest: its own list's)
            stack = [(0, f, case["nest"])]
            while stack:
                lvl, fb, lst = stack.pop()
                got = fb.getShape(all_ranks=False)
                mon.check(got == len(lst), f"{key}:shape", f"{key}: fiber at level {lvl} answers shape {got!r}, "
                                                          f"its list has {len(lst)!r} entries")
                for c, pl in zip(fb.coords, fb.payloads):
                    if isinstance(pl, Fiber):
                        stack.append((lvl + 1, pl, lst[c]))
        op = case["op"]
        if op and f.coords:
            name, p = op
            if name in SPLITS:
                kw = {"depth": p.get("depth", 0)}
                r = _call(mon, f"Fiber.{name}", getattr(f, name), p["arg"], **kw)
                d0 = p.get("depth", 0)
                _check_containment(mon, f"Fiber.{name}", r, None, True, estimated=est,
                                   roles={d0: "upper", d0 + 1: "partition"})
                _check_all_ranks(mon, r, est)
            elif name == "flattenRanks":
                r = _call(mon, f"Fiber.flattenRanks[{p['style']}]", f.flattenRanks, style=p["style"])
                _check_containment(mon, f"Fiber.flattenRanks[{p['style']}]", r, None, True, estimated=est)
                _check_all_ranks(mon, r, est)
            elif name == "flatten-unflatten":
                r = _call(mon, "Fiber.flattenRanks[tuple]", f.flattenRanks)
                r = _call(mon, "Fiber.unflattenRanks", r.unflattenRanks)
                _check_containment(mon, "Fiber.unflattenRanks", r, None, True, estimated=est)
                _check_all_ranks(mon, r, est)
            elif name == "split-merge":
                r = _call(mon, f"Fiber.{p['kind']}", getattr(f, p["kind"]), p["arg"], depth=1)
                k = "Fiber.mergeRanks[absolute,3+ranks]"
                r = _call(mon, k, r.mergeRanks, levels=2, style="absolute")
                mon.count("fiber_split_merge_absolute")
                _check_containment(mon, k, r, None, True, estimated=est)
                _check_all_ranks(mon, r, est)
            elif name == "swapRanks":
                r = _call(mon, "Fiber.swapRanks", f.swapRanks)
                _check_containment(mon, "Fiber.swapRanks", r, None, True, estimated=est)
                _check_all_ranks(mon, r, est)
    except _Raised:
        return
    if f.coords:
        mon.nontrivial()
    mon.state(("fiber", ctor, str(case["op"] and case["op"][0]), len(f.coords)))


# ------------------------------------------------------------------------------------------
# re-join cases: a fiber that already belongs to a tensor is given to a second one
# ------------------------------------------------------------------------------------------
def _run_rejoin(case, mon):
    ids, shape, d, fmts = list(case["ids"]), case["shape"], case["default"], list(case["fmts"])
    via, level = case["via"], case["level"]
    key = f"rejoin[{via}]"
    try:
        donor = _call(mon, "join[fromFiber]", gen.tensor_from_spec, case["spec"], ids, shape=shape, default=d,
                      fmts=fmts, fiber_default=case["own_default"])
    except _Raised:
        return
    root = donor.getRoot()
    at_level = [fb for lvl, fb in _walk(root) if lvl == level]
    if not at_level:
        return
    src = at_level[case["pick"] % len(at_level)]
    sub = max(lvl for lvl, _ in _walk(src)) + 1
    ids2, shape2, d2, fmts2 = list(case["ids2"]), case["shape2"], case["default2"], list(case["fmts2"])
    new = None
    try:
        _verify_members(mon, "join[fromFiber]", donor, root, ids, shape, d, fmts=fmts)
        if via == "copy":
            cp = _call(mon, key, src.copy, preserve_owner=False)
            if mon.check(isinstance(cp, Fiber) and cp is not src, f"{key}:copy:not-a-new-fiber",
                         f"{key}: copy(preserve_owner=False) returned {type(cp).__name__}"):
                kept = [lvl for lvl, fb in _walk(cp) if fb.getOwner() is not None]
                mon.check(not kept, f"{key}:copy:owner-kept", f"{key}: the copy's fibers at levels {kept[:4]} have an owner")
                _check_containment(mon, f"{key}:copy", cp, None, True, estimated=not shape)
        else:
            if via == "fromFiber":
                new = _call(mon, key, Tensor.fromFiber, rank_ids=list(ids2), fiber=src,
                            shape=list(shape2) if shape2 else None, default=d2)
            else:
                new = _call(mon, key, Tensor, rank_ids=list(ids2), shape=list(shape2) if shape2 else None, default=d2)
                _call(mon, key, new.setRoot, src)
                if shape2:
                    new.setShape(list(shape2))
            for r, fm in zip(ids2, fmts2):
                new.setFormat(r, fm)
            mon.check(new.getRoot() is not src, f"{key}:new:shares-the-donor's-fiber",
                      f"{key}: the fiber is the root of two tensors")

        def both(k, ids, shape, d, fmts, ids2, d2):
            # the donor first: its fibers (the donated ones included) are still its ranks' members
            mon.check(donor.getRoot() is root, f"{k}:donor:root-replaced", f"{k}: the donor's root fiber was replaced")
            _verify_members(mon, f"{k}:donor", donor, root, ids, shape, d, fmts=fmts, counter="rejoined_fibers")
            if new is not None:
                _verify_members(mon, f"{k}:new", new, new.getRoot(), ids2, shape2, d2, fmts=fmts2,
                                counter="rejoined_fibers_new")
        raw0 = mon.counters["violations_raw"]
        both(key, ids, shape, d, fmts, ids2, d2)
        # never judge a later step on top of a state already found wrong
        then = case["then"] if mon.counters["violations_raw"] == raw0 else None
        if then == "setDefault":
            donor.setDefault(d + 5)
            both(f"{key}+setDefault", ids, shape, d + 5, fmts, ids2, d2)
        elif then == "setRankIds":
            ids = [r + "2" for r in ids]
            donor.setRankIds(ids)
            both(f"{key}+setRankIds", ids, shape, d, fmts, ids2, d2)
        elif then == "setShape" and shape:
            shape = [x + 2 for x in shape]
            donor.setShape(shape)
            both(f"{key}+setShape", ids, shape, d, fmts, ids2, d2)
        elif then == "setFormat":
            fmts = ["U" if fm == "C" else "C" for fm in fmts]
            for r, fm in zip(ids, fmts):
                donor.setFormat(r, fm)
            both(f"{key}+setFormat", ids, shape, d, fmts, ids2, d2)
        elif then == "new.setDefault" and new is not None:
            new.setDefault(d2 + 5)
            both(f"{key}+new.setDefault", ids, shape, d, fmts, ids2, d2 + 5)
    except _Raised:
        return
    if src.coords:
        mon.nontrivial()
        if sub >= 3:
            mon.count("rejoin_three_or_more_levels")
    mon.state(("rejoin", via, level, sub, str(shape), str(shape2), d, d2, case["then"]))


def run_case(case, mon):
    kind = case["kind"]
    if kind == "xform":
        _run_xform(case, mon)
    elif kind == "lazy":
        _run_lazy(case, mon)
    elif kind == "join":
        _run_join(case, mon)
    elif kind == "fiber":
        _run_fiber(case, mon)
    elif kind == "rejoin":
        _run_rejoin(case, mon)
