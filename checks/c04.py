"""C04 - co-iteration operators compute exactly their coordinate-set truth tables.

Monitor: definitional oracle over the raw coordinate/payload lists of the operands, evaluated on the
sequence actually yielded by the lazy result (consumed under a logical step cap), plus identity
(`is`) of delivered payloads, freshness of absent-side defaults, union masks, re-iteration, and
snapshots of the operands and of the tensors that own them before/after.
"""
import itertools

from fibertree import Fiber, Payload, Tensor
from fibertree.core.coord_payload import CoordPayload

from fvmon import gen
from fvmon.observe import content, snap, idset, RC, unbox, rc_kind

SPEC = {
    "anchors": ["fibertree.core.iterators:__and__", "fibertree.core.iterators:__or__", "fibertree.core.iterators:__xor__", "fibertree.core.iterators:__sub__", "fibertree.core.iterators:iterRange", "fibertree.core.iterators:iterRangeShape", "fibertree.core.iterators:intersection", "fibertree.core.iterators:union", "fibertree.core.fiber:Fiber._createDefault", "fibertree.core.fiber:Fiber.project"],
    "rule": ("cases = (i) every ordered pair of 3-state occupancy vectors (absent / explicit default / value) "
             "over coordinates {0..n-1} (n=4 quick, n=5 thorough), free and tensor-owned, each under & | ^ -; "
             "(ii) every ordered pair of 3-state interior fibers (absent / empty sub-fiber / non-empty sub-fiber) "
             "over {0..2} owned by 2-rank tensors; (iii) random longer fibers, U-format operands, k-ary "
             "intersection/union (k<=4), leader-follower, tuple coordinates of equal and mixed arity, empty "
             "operands.  Non-trivial = both operands hold at least one stored element and at least one "
             "operator yields at least one element; distinct = distinct case description."),
    "shards": {"quick": 16, "thorough": 16},
    "min_counts": {"quick": {"evaluations": 2000, "oracle_evals": 20000, "yields_checked": 5000,
                             "fresh_defaults_checked": 1000, "identity_checked": 5000, "operands_with_saved_position": 300, "pairs_with_different_defaults": 200,
                             "nary_with_uformat_operands": 150, "uformat_leaders": 30, "nary_interior_cases": 150},
                   "thorough": {"evaluations": 20000, "oracle_evals": 200000}},
    "assumptions": [
        "ordered/unique fibers only; integer or tuple coordinates",
        "for `a - b` the a operand is compressed (the lazy result's own occupancy filter drops default payloads)",
        "rank id / active range of the lazy result are judged by C14, not here",
    ],
}

OPS = ["&", "|", "^", "-"]


def _cl(seq):
    """Coordinate list in a form whose equality cannot be fooled by the library's ANY wildcard
    (ANY == x is True for every x): exact reprs of ints / tuples of ints."""
    return [repr(c) for c in seq]


# ------------------------------------------------------------------------------------------
# generation
# ------------------------------------------------------------------------------------------
def generate(rng, tier, shard, nshards, mon):
    n = 4 if tier == "quick" else 5
    vecs = list(gen.all_state_vectors(n))
    idx = 0
    for va in vecs:
        for vb in vecs:
            if idx % nshards == shard:
                yield {"kind": "pair", "a": gen.states_to_leaf_spec(va), "b": gen.states_to_leaf_spec(vb, values=[4, 6, 9]),
                       "setting": ["free", "tensor"][(idx // nshards) % 2], "default": 0, "sys": True}
            idx += 1
    mon.exhaustive[f"leaf-pairs-3state-n{n}"] = True
    # interior 3-state pairs
    subs = {0: None, 1: "empty", 2: "full"}
    ivecs = list(itertools.product(range(3), repeat=3))
    idx = 0
    for va in ivecs:
        for vb in ivecs:
            if idx % nshards == shard:
                yield {"kind": "pair", "a": _interior_spec(va, idx), "b": _interior_spec(vb, idx + 1),
                       "setting": "interior", "default": 0, "sys": True}
            idx += 1
    mon.exhaustive["interior-pairs-3state-n3"] = True
    nrand = (8000 if tier == "quick" else 80000) // nshards
    for _ in range(nrand):
        yield _random_case(rng)


def _interior_spec(vec, salt):
    out = []
    for c, s in enumerate(vec):
        if s == 0:
            continue
        if s == 1:
            out.append([c, [] if (c + salt) % 2 else [[1, 0]]])
        else:
            out.append([c, [[(c + salt) % 3, 1 + (salt + c) % 4]] + ([[3, 0]] if salt % 3 == 0 else [])])
    return out


def _random_case(rng):
    r = rng.random()
    default = rng.choice([0, 0, 0, 7])
    if r < 0.30:
        ext = rng.randint(1, 12)
        # the two operands may come from ranks with different defaults: each side's emptiness is judged by its own
        db = default if rng.random() < 0.6 else rng.choice([d for d in (0, 7, -1, 2) if d != default])
        return {"kind": "pair", "a": gen.rand_leaf_spec(rng, ext, rng.random(), 0.15, default, values=[1, 2, 3, 0, 7, -1, 5]),
                "b": gen.rand_leaf_spec(rng, ext, rng.random(), 0.15, db, values=[1, 2, 3, 0, 7, -1, 5]),
                "setting": rng.choice(["free", "tensor"]), "default": default, "default_b": db,
                # operands handed over as lazy fibers (an iterator of elements, explicit defaults included)
                "lazy": rng.choice([None, None, "a", "b", "ab"])}
    if r < 0.45:
        e = [rng.randint(1, 5), rng.randint(1, 4)]
        return {"kind": "pair", "a": gen.rand_tree_spec(rng, e, 0.6, 0.5, default),
                "b": gen.rand_tree_spec(rng, e, 0.6, 0.5, default), "setting": "interior", "default": default}
    if r < 0.60:
        ext = rng.randint(1, 7)
        return {"kind": "pair", "a": gen.rand_leaf_spec(rng, ext, 0.5, 0.2, default),
                "b": gen.rand_leaf_spec(rng, ext, 0.5, 0.2, default),
                "setting": "ufmt", "ufmt": rng.choice(["a", "b", "ab"]), "shape": ext + rng.randint(0, 2),
                "default": default}
    if r < 0.80:
        k = rng.randint(2, 4)
        ext = rng.randint(1, 8)
        if rng.random() < 0.25:
            # operands that are upper-level fibers of two-rank tensors: payloads are sub-fibers, absent sides empty fibers
            return {"kind": "nary", "op": rng.choice(["intersection", "union", "union", "leader-follower"]), "interior": True,
                    "specs": [gen.rand_tree_spec(rng, [ext, 3], rng.choice([0.3, 0.6, 0.9]), 0.2, default) for _ in range(k)],
                    "default": default, "setting": "tensor", "saved": None, "ufmt": None, "shape": ext}
        return {"kind": "nary", "op": rng.choice(["intersection", "union", "leader-follower", "leader-follower"]),
                "specs": [gen.rand_leaf_spec(rng, ext, rng.choice([0.3, 0.6, 0.9]), 0.15, default) for _ in range(k)],
                "default": default, "setting": rng.choice(["free", "tensor"]),
                # operands that were used before: a saved search position left by an earlier operation
                "saved": [rng.randint(0, ext) for _ in range(k)] if rng.random() < 0.5 else None,
                # operands whose rank is declared uncompressed present every coordinate of their active range
                "ufmt": [rng.random() < 0.5 for _ in range(k)] if rng.random() < 0.35 else None, "shape": ext + rng.randint(0, 2)}
    # tuple coordinates
    ka, kb = rng.choice([(2, 2), (1, 2), (2, 1), (2, 3), (3, 2), (0, 2), (2, 0), (3, 3)])
    return {"kind": "tuple", "ka": ka, "kb": kb, "a": _tuple_spec(rng, ka, default), "b": _tuple_spec(rng, kb, default),
            "default": default}


def _tuple_spec(rng, k, default):
    """k == 0: plain int coordinates; else k-tuples.  May be empty."""
    if rng.random() < 0.12:
        return []
    pts = set()
    for _ in range(rng.randint(1, 7)):
        if k == 0:
            pts.add(rng.randint(0, 3))
        else:
            pts.add(tuple(rng.randint(0, 2) for _ in range(k)))
    out = []
    for p in sorted(pts):
        v = default if rng.random() < 0.15 else rng.choice([1, 2, 3, 9])
        out.append([list(p) if isinstance(p, tuple) else p, v if v != default or rng.random() < 0.99 else v])
    return out


# ------------------------------------------------------------------------------------------
# helpers
# ------------------------------------------------------------------------------------------
def _is_empty_payload(p, default):
    if isinstance(p, Fiber):
        return content(p, default) == {}
    return unbox(p) == default


def _present(f, default, fmt):
    """[(coord, stored payload object or None)] the operand *presents* by definition."""
    if fmt == "U":
        ar = f.__dict__.get("_active_range")
        if ar is None:
            sh = f.getRankAttrs().getShape()
            ar = (0, sh)
        stored = dict(zip(f.coords, f.payloads))
        return [(c, stored.get(c)) for c in range(ar[0], ar[1])]
    return [(c, p) for c, p in zip(f.coords, f.payloads) if not _is_empty_payload(p, default)]


def _build(case):
    """-> (a, b, owners, fmts)"""
    d = case["default"]
    db = case.get("default_b", d)
    st = case["setting"]
    if st == "free":
        return gen.fiber_from_spec(case["a"], d), gen.fiber_from_spec(case["b"], db), [], ("C", "C")
    if st == "tensor":
        ta = gen.tensor_from_spec(case["a"], ["K"], default=d)
        tb = gen.tensor_from_spec(case["b"], ["K"], default=db)
        return ta.getRoot(), tb.getRoot(), [ta, tb], ("C", "C")
    if st == "interior":
        ta = gen.tensor_from_spec(case["a"], ["M", "K"], default=d)
        tb = gen.tensor_from_spec(case["b"], ["M", "K"], default=d)
        return ta.getRoot(), tb.getRoot(), [ta, tb], ("C", "C")
    if st == "ufmt":
        sh = [case["shape"]]
        fa = "U" if "a" in case["ufmt"] else "C"
        fb = "U" if "b" in case["ufmt"] else "C"
        ta = gen.tensor_from_spec(case["a"], ["K"], shape=sh, default=d, fmts=[fa])
        tb = gen.tensor_from_spec(case["b"], ["K"], shape=sh, default=d, fmts=[fb])
        return ta.getRoot(), tb.getRoot(), [ta, tb], (fa, fb)
    raise ValueError(st)


def _lazy_view(f, default):
    """A lazy fiber (Fiber.fromIterator) whose iterator hands out the stored elements of the eager fiber `f`."""
    elems = list(zip(f.coords, f.payloads))

    class _It:
        def __iter__(self):
            for c, p in elems:
                yield CoordPayload(c, p)

    # (a lazy fiber cannot estimate its shape: like every lazy fiber the library itself produces, it carries an active range)
    return Fiber.fromIterator(_It, default=default, active_range=tuple(f.getActive()))


def _consume(mon, fiber, cap, what):
    out = []
    it = iter(fiber)
    for i, el in enumerate(it):
        if i >= cap:
            mon.violation(f"{what}:runaway", f"{what} yielded more than the logical cap of {cap} elements")
            break
        out.append((el.coord, el.payload))
    return out


class _Fresh:
    """Tracks absent-side defaults: must be new objects, equal to the default, foreign to the operands."""

    def __init__(self, mon, ids, default, what):
        self.mon, self.ids, self.default, self.what, self.seen = mon, ids, default, what, {}

    def check(self, p, side_default_is_fiber, default=None):
        mon = self.mon
        dflt = self.default if default is None else default
        mon.count("fresh_defaults_checked")
        if side_default_is_fiber:
            ok = isinstance(p, Fiber) and len(p.coords) == 0
            mon.check(ok, f"{self.what}:absent-default-not-empty-fiber",
                      f"absent side of {self.what} delivered {type(p).__name__} instead of an empty fiber")
        else:
            ok = isinstance(p, Payload) and not isinstance(p.value, (Payload, Fiber)) and p.value == dflt
            mon.check(ok, f"{self.what}:absent-default-wrong-value",
                      f"absent side of {self.what} delivered {p!r}, expected a box holding the default {dflt!r}")
        mon.check(id(p) not in self.ids, f"{self.what}:absent-default-aliases-operand",
                  f"absent-side default of {self.what} is an object stored in an operand")
        mon.check(id(p) not in self.seen, f"{self.what}:absent-default-shared",
                  f"{self.what} delivered the same default object for two coordinates")
        self.seen[id(p)] = p      # keep alive so ids are not recycled


# ------------------------------------------------------------------------------------------
# oracles
# ------------------------------------------------------------------------------------------
def run_case(case, mon):
    kind = case["kind"]
    if kind == "pair":
        _run_pair(case, mon)
    elif kind == "nary":
        _run_nary(case, mon)
    elif kind == "tuple":
        _run_tuple(case, mon)


def _expected(op, pa, pb):
    da, db = dict(pa), dict(pb)
    ca, cb = [c for c, _ in pa], [c for c, _ in pb]
    sa, sb = set(ca), set(cb)
    if op == "&":
        cs = sorted(sa & sb)
    elif op == "|":
        cs = sorted(sa | sb)
    elif op == "^":
        cs = sorted(sa ^ sb)
    else:
        cs = sorted(sa - sb)
    return [(c, (c in sa, da.get(c)), (c in sb, db.get(c))) for c in cs]


def _run_pair(case, mon):
    d = case["default"]
    a, b, owners, (fa, fb) = _build(case)
    interior = case["setting"] == "interior"
    watched = owners or [a, b]
    before = [snap(x) for x in watched]
    ids = {}
    for x in watched:
        ids.update(idset(x))
    db = case.get("default_b", d)
    if db != d:
        mon.count("pairs_with_different_defaults")
    pa, pb = _present(a, d, fa), _present(b, db, fb)
    any_yield = False
    lazy = case.get("lazy") if case["setting"] == "free" else None
    if lazy:
        # the same elements (the stored payload objects themselves, explicit defaults included) offered by a lazy fiber:
        # what an operand presents does not depend on whether it is stored or produced on demand
        if "a" in lazy:
            a = _lazy_view(a, d)
        if "b" in lazy:
            b = _lazy_view(b, db)
        mon.count("pairs_with_lazy_operands")
    for op in OPS:
        if op == "-" and fa == "U":
            continue
        what = f"a{op}b" + ("" if (fa, fb) == ("C", "C") else f"[{fa}{fb}]") + (":interior" if interior else "") + (":lazy" if lazy else "")
        exp = _expected(op, pa, pb)
        cap = len(pa) + len(pb) + 2
        try:
            res = {"&": a.__and__, "|": a.__or__, "^": a.__xor__, "-": a.__sub__}[op](b)
            seqs = [_consume(mon, res, cap, what), _consume(mon, res, cap, what)]
        except BaseException as e:      # noqa
            mon.violation(f"{what}:raised:{type(e).__name__}", f"{what} raised {type(e).__name__}: {e}")
            continue
        got = seqs[0]
        mon.count("yields_checked", len(got))
        any_yield = any_yield or bool(got)
        mon.check(_cl(c for c, _ in got) == _cl(e[0] for e in exp), f"{what}:coords",
                  f"{what} yielded coordinates {[c for c, _ in got]} expected {[e[0] for e in exp]}")
        mon.check(_cl(c for c, _ in seqs[1]) == _cl(c for c, _ in got), f"{what}:reiteration",
                  f"second traversal of {what} yielded {[c for c, _ in seqs[1]]} after {[c for c, _ in got]}")
        if _cl(c for c, _ in got) != _cl(e[0] for e in exp):
            continue
        fresh = _Fresh(mon, ids, d, what)
        for trav in seqs:
            if len(trav) != len(exp):
                continue
            for (c, p), (_, (ina, oa), (inb, ob)) in zip(trav, exp):
                v = unbox(p)
                if op == "-":
                    mon.count("identity_checked")
                    mon.check(p is oa, f"{what}:payload-identity", f"{what} at {c}: delivered payload is not a's stored object")
                    continue
                if op == "&":
                    if not mon.check(isinstance(v, tuple) and len(v) == 2, f"{what}:payload-shape",
                                     f"{what} at {c}: payload {v!r} is not a pair"):
                        continue
                    pa_, pb_ = v
                else:
                    if not mon.check(isinstance(v, tuple) and len(v) == 3, f"{what}:payload-shape",
                                     f"{what} at {c}: payload {v!r} is not (mask, a, b)"):
                        continue
                    mask, pa_, pb_ = v
                    want = ("A" if ina else "") + ("B" if inb else "")
                    mon.check(unbox(mask) == want, f"{what}:mask", f"{what} at {c}: mask {mask!r} expected {want!r}")
                for side, got_p, present, obj, sd in (("a", pa_, ina, oa, d), ("b", pb_, inb, ob, db)):
                    if present and obj is not None:
                        mon.count("identity_checked")
                        mon.check(got_p is obj, f"{what}:payload-identity",
                                  f"{what} at {c}: {side}-side payload is not the operand's stored object")
                    else:
                        fresh.check(got_p, interior, sd)
    after = [snap(x) for x in watched]
    for x, s0, s1 in zip(watched, before, after):
        if s0 != s1:
            extra = ""
            key = "operand-modified"
            if isinstance(x, Tensor):
                probs = RC(x)
                if probs:
                    key = "operand-tensor-rank-lists:" + "+".join(sorted({rc_kind(p) for p in probs}))
                    extra = "; " + "; ".join(probs)
            mon.violation(key + (":interior" if interior else ""),
                          "co-iteration (& | ^ -) changed an operand or the tensor owning it" + extra)
        else:
            mon.count("oracle_evals")
    if pa and pb and any_yield:
        mon.nontrivial()
    mon.state(("pair", [e[0] for e in _expected("|", pa, pb)], [e[0] for e in _expected("&", pa, pb)]))


def _run_nary(case, mon):
    d = case["default"]
    op = case["op"]
    fm = ["U" if u else "C" for u in case["ufmt"]] if case.get("ufmt") else ["C"] * len(case["specs"])
    interior = bool(case.get("interior"))
    if interior:
        owners = [gen.tensor_from_spec(s, ["K", "N"], default=d) for s in case["specs"]]
        fibers = [t.getRoot() for t in owners]
        mon.count("nary_interior_cases")
    elif case.get("ufmt"):
        owners = [gen.tensor_from_spec(s, ["K"], shape=[case["shape"]], default=d, fmts=[f]) for s, f in zip(case["specs"], fm)]
        fibers = [t.getRoot() for t in owners]
        mon.count("nary_with_uformat_operands")
        if fm[0] == "U" and case["op"] == "leader-follower":
            mon.count("uformat_leaders")
    elif case["setting"] == "tensor":
        owners = [gen.tensor_from_spec(s, ["K"], default=d) for s in case["specs"]]
        fibers = [t.getRoot() for t in owners]
    else:
        owners = []
        fibers = [gen.fiber_from_spec(s, d) for s in case["specs"]]
    watched = owners or fibers
    if case.get("saved"):
        for f, sp in zip(fibers, case["saved"]):
            if f.coords:
                f.setSavedPos(min(sp, len(f.coords) - 1))
                mon.count("operands_with_saved_position")
    before = [snap(x) for x in watched]
    ids = {}
    for x in watched:
        ids.update(idset(x))
    pres = [_present(f, d, fm[i] if (op != "leader-follower" or i == 0) else "C") for i, f in enumerate(fibers)]
    sets = [set(c for c, _ in p) for p in pres]
    maps = [dict(p) for p in pres]
    k = len(fibers)
    what = f"{op}/{k}"
    cap = sum(max(len(f.coords), len(pr)) for f, pr in zip(fibers, pres)) + 2
    try:
        if op == "intersection":
            res = Fiber.intersection(*fibers)
            exp = sorted(set.intersection(*sets))
        elif op == "leader-follower":
            res = Fiber.intersection(*fibers, style="leader-follower")
            exp = [c for c, _ in pres[0]]
        else:
            res = Fiber.union(*fibers)
            exp = sorted(set.union(*sets))
        seqs = [_consume(mon, res, cap, what), _consume(mon, res, cap, what)]
    except BaseException as e:      # noqa
        mon.violation(f"{what}:raised:{type(e).__name__}", f"{what} raised {type(e).__name__}: {e}")
        return
    got = seqs[0]
    mon.count("yields_checked", len(got))
    ok = mon.check(_cl(c for c, _ in got) == _cl(exp), f"{op}:coords", f"{what} yielded {[c for c, _ in got]} expected {exp}")
    mon.check(_cl(c for c, _ in seqs[1]) == _cl(c for c, _ in got), f"{op}:reiteration", f"{what}: second traversal differs")
    if ok:
        fresh = _Fresh(mon, ids, d, what)
        for c, p in got:
            v = unbox(p)
            n = k + (1 if op == "union" else 0)
            if not mon.check(isinstance(v, tuple) and len(v) == n, f"{op}:payload-shape",
                             f"{what} at {c}: payload {v!r} is not a flat tuple of {n}"):
                continue
            if op == "union":
                want = "".join(chr(ord("A") + i) for i in range(k) if c in sets[i])
                mon.check(unbox(v[0]) == want, f"{op}:mask", f"{what} at {c}: mask {v[0]!r} expected {want!r}")
                v = v[1:]
            for i in range(k):
                if c in sets[i] and maps[i][c] is None:
                    # a coordinate an uncompressed operand presents without storing it: a default
                    mon.check(not isinstance(unbox(v[i]), Fiber) and unbox(v[i]) == d, f"{op}:absent-default-value",
                              f"{what} at {c}: operand {i} (uncompressed, nothing stored there) delivered {v[i]!r}")
                elif c in sets[i]:
                    mon.count("identity_checked")
                    mon.check(v[i] is maps[i][c], f"{op}:payload-identity",
                              f"{what} at {c}: payload {i} is not operand {i}'s stored object")
                elif op == "leader-follower" and c in dict(zip(fibers[i].coords, fibers[i].payloads)):
                    # follower holds an explicit default at c: its stored object or a default, value must be default
                    okd = (isinstance(v[i], Fiber) and content(v[i], d) == {}) if interior else (unbox(v[i]) == d)
                    mon.check(okd, f"{op}:follower-default", f"{what} at {c}: follower {i} payload {v[i]!r}")
                else:
                    fresh.check(v[i], interior)
    after = [snap(x) for x in watched]
    mon.check(before == after, f"{op}:operand-modified", f"{what} changed an operand or its tensor")
    if all(pres) and got:
        mon.nontrivial()
    mon.state((op, exp))


def _run_tuple(case, mon):
    d = case["default"]
    a = gen.fiber_from_spec(case["a"], d)
    b = gen.fiber_from_spec(case["b"], d)
    ka, kb = case["ka"], case["kb"]
    before = (snap(a), snap(b))
    pa, pb = _present(a, d, "C"), _present(b, d, "C")

    def pref(c, n):
        if n == 0:
            return c[0] if isinstance(c, tuple) else c
        t = c if isinstance(c, tuple) else (c,)
        return t[:n]
    what = f"a&b:tuple{ka}x{kb}"
    if ka == kb:
        exp = [(c, p, dict(pb)[c]) for c, p in pa if c in dict(pb)]
    elif (ka or 1) < (kb or 1):
        da = {(c if isinstance(c, tuple) else (c,)): p for c, p in pa}
        n = ka or 1
        exp = [(c, da[c[:n]], p) for c, p in pb if c[:n] in da]
    else:
        db = {(c if isinstance(c, tuple) else (c,)): p for c, p in pb}
        n = kb or 1
        exp = [(c, p, db[c[:n]]) for c, p in pa if c[:n] in db]
    cap = len(pa) + len(pb) + 2
    try:
        res = a & b
        got = _consume(mon, res, cap, what)
    except BaseException as e:      # noqa
        empty = "empty-operand" if (not pa or not pb) else "nonempty"
        mon.violation(f"a&b:tuple:raised:{type(e).__name__}:{empty}",
                      f"{what} raised {type(e).__name__}: {e}")
        return
    mon.count("yields_checked", len(got))
    if mon.check(_cl(c for c, _ in got) == _cl(e[0] for e in exp), "a&b:tuple:coords",
                 f"{what} yielded {[c for c, _ in got]} expected {[e[0] for e in exp]}"):
        for (c, p), (_, oa, ob) in zip(got, exp):
            v = unbox(p)
            mon.count("identity_checked")
            mon.check(isinstance(v, tuple) and len(v) == 2 and v[0] is oa and v[1] is ob, "a&b:tuple:payload-identity",
                      f"{what} at {c}: payloads are not the operands' stored objects")
    if ka == kb:
        for op, fn in (("|", a.__or__), ("^", a.__xor__), ("-", a.__sub__)):
            try:
                g = _consume(mon, fn(b), cap, f"a{op}b:tuple")
            except BaseException as e:  # noqa
                mon.violation(f"a{op}b:tuple:raised:{type(e).__name__}", f"a{op}b with tuple coordinates raised {e!r}")
                continue
            e = [x[0] for x in _expected(op, pa, pb)]
            mon.check(_cl(c for c, _ in g) == _cl(e), f"a{op}b:tuple:coords", f"a{op}b tuple coords {[c for c, _ in g]} expected {e}")
    mon.check(before == (snap(a), snap(b)), "tuple:operand-modified", f"{what} changed an operand")
    if pa and pb and got:
        mon.nontrivial()
    mon.state(("tuple", ka, kb, [str(e[0]) for e in exp]))
