"""C03 - point access behaves like a map from points to values.

Monitor: history + executable model.  The model is a Python dict point -> value; every access issued to
the real tensor/fiber is also applied to the model and the answers are compared; after every step the
content extracted from the raw lists must equal the model (so a write disturbs no other point), reads
must leave the raw snapshot untouched, references must alias the stored box, synthesised defaults must
be fresh, and position lookups / legal start_pos shortcuts must not change any answer.  A wrapper on
Fiber._coord2pos checks, on every call the workload causes, that the result is the insertion index in
the raw coordinate list.  The trees are built through several public constructor forms, and part of the
histories runs while a metrics-collection session is active: neither may change any answer.
"""
import bisect
import itertools
import random

from fibertree import Fiber, Metrics, Payload, Tensor
from fibertree.core.coord_payload import CoordPayload

from fvmon import gen
from fvmon.observe import content, snap, unbox, RC, WF

SPEC = {
    "anchors": ["fibertree.core.fiber:Fiber.getPayload", "fibertree.core.fiber:Fiber.getPayloadRef", "fibertree.core.fiber:Fiber.getPosition", "fibertree.core.fiber:Fiber.getPositionRef", "fibertree.core.fiber:Fiber._coordExists", "fibertree.core.fiber:Fiber._createDefault", "fibertree.core.fiber:Fiber._instantiateDefault", "fibertree.core.payload:Payload.__iadd__", "fibertree.core.payload:Payload.__ilshift__", "fibertree.core.tensor:Tensor.getPayload", "fibertree.core.tensor:Tensor.getPayloadRef", "fibertree.core.fiber:Fiber.__getitem__", "fibertree.core.fiber:Fiber.__setitem__", "fibertree.core.coord_payload:CoordPayload.__ilshift__", "fibertree.core.coord_payload:CoordPayload.__iadd__", "fibertree.core.fiber:Fiber.__imul__", "fibertree.core.fiber:Fiber.__iadd__"],
    "rule": ("case = tensor of depth 0-3 (or a free depth-1 / depth-2 fiber), canonical or holding explicit defaults / empty "
             "sub-fibers, default 0, 7, 0.5 or 2.5, leaf fibers built through one of the public constructor forms "
             "{coordinates + payloads, list of (coordinate, payload) pairs, coordinates only + one `initial` value for "
             "all elements}, + a history of 10-30 (quick) / 10-100 (thorough) accesses over {getPayload "
             "(full / partial point, allocate on/off, caller default), getPayloadRef (full / partial) followed by "
             "<<= / += / *= / -= (right-hand side a scalar or a boxed value) through the handle or nothing; at a partial "
             "point (any prefix, half of the time a prefix of a point whose handle is still held) followed by *= / += "
             "with a scalar or boxed right-hand side through the sub-fiber handle or nothing; writes "
             "through handles obtained earlier, sub-fiber assignment at a prefix, getPosition, getPositionRef, f[pos], "
             "writes through position handles (pos from getPosition / getPositionRef / a raw, possibly negative index; "
             "h = f[pos]; h OP= rhs, or the statement form f[pos] OP= rhs; rhs a scalar, a boxed value, or an element "
             "of the same fiber / another leaf fiber of the tree / a separate fiber; optionally followed by an in-place "
             "update at the source or the target point, which must leave the other one alone), every legal start_pos "
             "(plain or boxed) for one-coordinate accesses}, through Tensor.* and Fiber.* entry points.  The separate "
             "source fiber has its own map and is compared after every step.  After every step every handle obtained "
             "earlier (and not detached by a sub-fiber assignment above it) must show the value the map holds at its point.  In 40% of the cases a window of the "
             "history (half of them: all of it) runs while a metrics-collection session is active (Metrics.beginCollect, "
             "the ranks of the trees registered); every answer must be the same as outside a session (verdict keys of "
             "those steps carry the suffix :metrics-session).  Non-trivial = at least one "
             "write through a handle and one later read of a written point; distinct = distinct case."),
    "shards": {"quick": 16, "thorough": 16},
    "min_counts": {"quick": {"evaluations": 300, "reads_checked": 3000, "refs_checked": 1500, "model_compares": 5000,
                             "startpos_checked": 500, "walk_steps": 500, "coord2pos_contract_evals": 5000, "fresh_default_checked": 300,
                             "handles_checked": 2000, "handle_form_handle": 800, "handle_form_statement": 800,
                             "handle_pos_getPosition": 500, "handle_pos_getPositionRef": 800, "handle_pos_raw": 250,
                             "handle_rhs_payload": 300, "handle_rhs_element_same": 150, "handle_rhs_element_tree": 120,
                             "handle_rhs_element_ext": 300, "handle_independence_checked": 300,
                             "built_payloads": 400, "built_pairs": 150, "built_initial": 300,
                             "partial_updates": 300, "partial_mul": 150, "partial_add": 40, "partial_update_above_held_handle": 80,
                             "held_handles_checked": 15000,
                             "metrics_session_steps": 4000, "metrics_session_writes": 1000, "metrics_session_stale_writes": 80}},
    "assumptions": [
        "legal start_pos: None, or p with 0 <= p < len(coords) and coords[p] <= coord; single-coordinate accesses only (as the API asserts)",
        "saved-position statistics are not part of the tree and are not compared",
        "an element (CoordPayload) is used as a right-hand side only for writes through position handles f[pos]; Payload.__ilshift__ and the Payload arithmetic are documented for 'Payload or scalar' operands only",
        "position handles are taken at the leaf level (the payload of an interior element is a sub-fiber; sub-fiber assignment is exercised by the prefix assignment)",
        "metrics collection is an ambient mode the statement does not mention, so point access must answer the same inside a session; the driver registers the rank names of the trees (Metrics.registerRank, as a loop nest does) because a reference taken during a session reports its use under the rank name and Metrics.addUse asserts that name is known; no traces are requested and the collected counts are not compared",
        "the `initial` constructor form gives every element the same value, so those leaf fibers start uniform (possibly all explicit defaults); interior fibers are always built from coordinates + sub-fibers (one `initial` sub-fiber object replicated over several coordinates would be one shared sub-tree by construction)",
        "in-place arithmetic at a partial point uses the two operators a fiber defines for a scalar (plain or boxed) right-hand side, with their documented meaning: `sub *= s` scales every non-empty element under the prefix (the library iterates 'over non-default elements', so a point holding the default - stored or absent - keeps it; identical to scaling everything when the default is 0); `sub += s` adds s at every coordinate of the shape under the prefix, absent ones 'treated as zero', and is therefore issued only on tensors with a declared shape and default 0 (with another default or an estimated shape the documentation does not fix the result)",
        "a handle stays an alias as long as its point is not replaced wholesale: handles under a prefix are dropped from the held set when a sub-fiber is assigned at that prefix",
        "free (unowned) fibers at depth 1, and at depth 2 only as canonical trees with a non-empty root (an unowned empty interior fiber cannot know its payload type)",
    ],
}

_installed = {"done": False, "mon": None}


def _install_contract(mon):
    """Harness-side wrapper on Fiber._coord2pos (result == insertion index in the raw list)."""
    _installed["mon"] = mon
    if _installed["done"]:
        return
    orig = Fiber._coord2pos

    def checked(self, coord, start_pos=None, coords=None):
        res = orig(self, coord, start_pos=start_pos, coords=coords)
        m = _installed["mon"]
        try:
            cs = self.coords if coords is None else coords
            if m is not None and self._ordered and (start_pos is None or (0 <= start_pos < len(cs) and cs[start_pos] <= coord)):
                m.count("coord2pos_contract_evals")
                want = bisect.bisect_left(cs, coord)
                if res != want:
                    m.violation("contract:_coord2pos:" + ("start_pos" if start_pos is not None else "bisect"),
                                f"_coord2pos({coord!r}, start_pos={start_pos}) on coords {cs} returned {res}, insertion index is {want}")
        except TypeError:
            pass
        return res
    Fiber._coord2pos = checked
    _installed["done"] = True


def generate(rng, tier, shard, nshards, mon):
    n = (2400 if tier == "quick" else 20000) // nshards
    lo, hi = (10, 30) if tier == "quick" else (10, 100)
    for _ in range(n):
        r = rng.random()
        depth = 0 if r < 0.04 else rng.choice([1, 1, 2, 2, 3])
        default = rng.choice([0, 0, 7, 0.5, 2.5])
        ext = [rng.randint(1, 5) for _ in range(depth)]
        free = (depth == 1 and rng.random() < 0.4) or (depth == 2 and rng.random() < 0.3)
        spec = gen.rand_tree_spec(rng, ext, rng.choice([0.3, 0.7]), rng.choice([0, 0.5, 0.8]), default) if depth else []
        if free and depth == 2:
            # an unowned interior fiber learns its payload type and the leaf default from its first sub-fiber:
            # canonical tree with a non-empty root
            spec = gen.canonical_spec(spec, default)
            if not spec:
                spec = [[rng.randrange(ext[0]), [[rng.randrange(ext[1]), 5 if default != 5 else 6]]]]
        xspec = gen.rand_leaf_spec(rng, 5, 0.7, 0.15, default)
        # which public constructor form builds the leaf fibers: coordinates + payloads, a list of (coordinate,
        # payload) pairs, or coordinates only + one `initial` value for every element (the spec is made uniform
        # per leaf fiber for that; the value may be the default, giving explicit defaults)
        build = rng.choice(["payloads", "payloads", "payloads", "pairs", "initial", "initial"])
        if build == "initial":
            canonical = free and depth == 2
            spec = _uniform_leaves(rng, spec, depth, default, canonical)
            xspec = _uniform_leaves(rng, xspec, 1, default, False)
        init = {"depth": depth, "ext": ext, "default": default, "spec": spec, "free": free, "build": build,
                "shape": [e + 2 for e in ext] if rng.random() < 0.7 else None, "root0": rng.choice([0, 3]),
                # a separate free fiber whose elements serve as right-hand sides of assignments / updates
                "xspec": xspec}
        nops = rng.randint(lo, hi)
        ops = [_gen_op(rng, init) for _ in range(nops)]
        # the part [a, b) of the history that runs while a metrics-collection session is active (None: no session)
        r = rng.random()
        if r < 0.6:
            window = None
        elif r < 0.8:
            window = [0, nops]
        else:
            a = rng.randrange(nops)
            window = [a, rng.randint(a + 1, nops)]
        yield {"init": init, "ops": ops, "metrics": window}


def _uniform_leaves(rng, spec, depth, default, canonical):
    """The same tree shape, every non-empty leaf fiber holding one value at all its coordinates."""
    if depth <= 1:
        if not spec:
            return spec
        vals = [v for v in gen.VALUES if v != default] + ([] if canonical else [default])
        v = rng.choice(vals)
        return [[c, v] for c, _ in spec]
    return [[c, _uniform_leaves(rng, sub, depth - 1, default, canonical)] for c, sub in spec]


def _gen_op(rng, init):
    depth = init["depth"]
    ext = init["ext"]
    pt = [rng.randint(0, e + 1) for e in ext]
    kinds = ["get", "get", "get_partial", "get_noalloc", "ref", "ref", "ref", "ref_partial", "stale", "assign_prefix",
             "getpos", "getposref", "getitem", "get_sp", "ref_sp", "getpos_sp", "drill", "walk", "walk",
             "handle", "handle", "handle"]
    k = rng.choice(kinds)
    op = {"op": k, "pt": pt, "via": rng.choice(["tensor", "root"]), "r": rng.randrange(1 << 16),
          "act": rng.choice(["none", "set", "set", "add", "mul", "sub", "default"]), "v": rng.choice([1, 2, 3, -1, 5, 0]),
          "cut": rng.randint(1, max(1, depth - 1)) if depth > 1 else 1, "cd": rng.choice([None, 42, -5, 0]),
          "path": [rng.randrange(6) for _ in range(rng.randint(0, max(0, depth - 1)))], "c": rng.randint(0, 7),
          "boxed": rng.random() < 0.3, "hold": rng.random() < 0.4,
          # right-hand side of a write: a scalar, a boxed value, or (position handles only) an element of a fiber
          "rhs": rng.choice(["scalar", "scalar", "payload", "element", "element"])}
    if k == "handle":
        op.update({"path": [rng.randrange(6) for _ in range(max(0, depth - 1))],
                   "posvia": rng.choice(["getPosition", "getPosition", "getPositionRef", "getPositionRef", "raw"]),
                   "form": rng.choice(["handle", "statement"]),
                   "src": rng.choice(["same", "tree", "ext", "ext"]), "r2": rng.randrange(1 << 16),
                   "path2": [rng.randrange(6) for _ in range(max(0, depth - 1))],
                   "follow": rng.choice(["none", "source", "target"])})
    if k == "walk":
        cs = sorted(rng.sample(range(0, 10), rng.randint(2, 6)))
        op["walk"] = [[c, rng.choice(["getPayload", "getPosition", "getPayload", "getPayloadRef", "getPositionRef"])] for c in cs]
    return op


class _State:
    pass


def _build(init):
    d = init["default"]
    if init["depth"] == 0:
        t = Tensor(rank_ids=[])
        t.getPayloadRef().v = init["root0"]
        return t, None
    build = init.get("build", "payloads")
    if init["free"]:
        return None, _fiber_from_spec(init["spec"], d, init["depth"], build, init["shape"][0] if init["shape"] else None)
    f = _fiber_from_spec(init["spec"], d, init["depth"], build)
    t = Tensor.fromFiber(rank_ids=list(gen.rank_ids_for(init["depth"])), fiber=f,
                         shape=list(init["shape"]) if init["shape"] else None, default=d)
    return t, t.getRoot()


def _fiber_from_spec(ts, d, depth, build, shape=None):
    """Build a free fiber tree from a spec through the public constructors; `build` selects the form used for
    the leaf fibers (interior fibers always get coordinates + sub-fibers)."""
    kw = {} if shape is None else {"shape": shape}
    coords = [gen.tup(c) for c, _ in ts]
    if depth > 1:
        return Fiber(coords, [_fiber_from_spec(p, d, depth - 1, build) for _, p in ts], default=d, **kw)
    vals = [p for _, p in ts]
    if build == "initial" and ts and all(v == vals[0] for v in vals):
        return Fiber(coords, initial=vals[0], default=d, **kw)
    if build == "pairs" and ts:
        return Fiber.fromCoordPayloadList([(c, v) for c, v in zip(coords, vals)], default=d, **kw)
    return Fiber(coords, vals, default=d, **kw)


def _resolve(root, path):
    f, pre = root, ()
    for i in path:
        if not f.payloads:
            break
        j = i % len(f.payloads)
        p = f.payloads[j]
        if not isinstance(p, Fiber):
            break
        pre += (f.coords[j],)
        f = p
    return f, pre


def _raw_lookup(root, pt):
    """Stored object at the point/prefix pt, or None."""
    f = root
    for c in pt:
        if not isinstance(f, Fiber) or c not in f.coords:
            return None
        f = f.payloads[f.coords.index(c)]
    return f


def _apply_act(ref, act, v, d):
    """v: a scalar, a Payload, or (when ref is a position handle) an element of a fiber."""
    if act == "set":
        ref <<= v
    elif act == "add":
        ref += v
    elif act == "mul":
        ref *= v
    elif act == "sub":
        ref -= v
    elif act == "default":
        ref <<= d
    return ref


def _model_act(old, act, v, d):
    return {"none": old, "set": v, "add": old + v, "mul": old * v, "sub": old - v, "default": d}[act]


class _Tagged:
    """The shard monitor, with the verdict keys of steps executed inside a metrics-collection session marked."""

    def __init__(self, mon):
        self._mon = mon
        self.tag = ""
        self.count, self.nontrivial, self.state = mon.count, mon.nontrivial, mon.state

    def check(self, cond, key, msg, **extra):
        return self._mon.check(cond, key + self.tag, msg + (" [metrics collection active]" if self.tag else ""), **extra)

    def violation(self, key, msg, **extra):
        return self._mon.violation(key + self.tag, msg + (" [metrics collection active]" if self.tag else ""), **extra)


def _rank_names(*fibers):
    """Rank names the fibers of these trees report uses under (read from the attributes, no search involved)."""
    out, todo = [], list(fibers)
    while todo:
        f = todo.pop()
        if isinstance(f, Fiber):
            name = f.getRankAttrs().getId()
            if name not in out:
                out.append(name)
            todo.extend(p for p in f.payloads if isinstance(p, Fiber))
    return out


def _session(mon, window, i, names):
    """Open / close the metrics-collection session at the borders of the window; the ranks of the trees are
    registered the way a loop nest registers them, so that accesses may report their uses."""
    if window is None:
        return
    if i == window[0]:
        Metrics.beginCollect()
        for name in names:
            Metrics.registerRank(name)
        mon.tag = ":metrics-session"
    elif i == window[1]:
        _end_session(mon)


def _end_session(mon):
    if mon.tag:
        mon.tag = ""
        Metrics.endCollect()


def run_case(case, mon):
    _install_contract(mon)
    mon = _Tagged(mon)
    try:
        _run_case(case, mon)
    finally:
        _end_session(mon)


def _run_case(case, mon):
    init = case["init"]
    d = init["default"]
    depth = init["depth"]
    window = case.get("metrics")
    t, root = _build(init)
    mon.count(f"built_{init.get('build', 'payloads')}")
    subject = t if t is not None else root
    if depth == 0:
        _run_rank0(case, mon, t)
        return
    model = dict(content(subject, d))
    held = []           # (point, ref)   ref: the stored Payload, or a position handle f[pos] aliasing it
    wrote, read_written = set(), False
    # the separate source fiber (elements of it are assigned into the tree; it must never change unless written)
    xf = _fiber_from_spec(init.get("xspec", []), d, 1, init.get("build", "payloads"))
    names = (list(t.getRankIds()) if t is not None else []) + _rank_names(root, xf)
    xmodel = {p_[0]: v_ for p_, v_ in content(xf, d).items()}

    def entry(op):
        return t if (t is not None and op["via"] == "tensor") else root

    def compare(label):
        mon.count("model_compares")
        got = content(subject, d)
        ok = mon.check(got == model, f"model:{label}", f"after {label}: tree content {got} != model {model}")
        gx = {p_[0]: v_ for p_, v_ in content(xf, d).items()}
        return mon.check(gx == xmodel, f"model:{label}:source-fiber",
                         f"after {label}: the separate fiber whose element was the right-hand side holds {gx}, expected {xmodel}") and ok

    for i, op in enumerate(case["ops"]):
        _session(mon, window, i, names)
        if mon.tag:
            mon.count("metrics_session_steps")
        k = op["op"]
        pt = tuple(op["pt"])
        before = snap(subject)
        label = k
        try:
            if k in ("get", "get_noalloc"):
                stored = _raw_lookup(root, pt)
                if k == "get":
                    p = entry(op).getPayload(*pt)
                    want = model.get(pt, d)
                else:
                    p = entry(op).getPayload(*pt, allocate=False, default=op["cd"])
                    want = unbox(stored) if stored is not None else op["cd"]
                mon.count("reads_checked")
                mon.check(unbox(p) == want, f"read:{k}:value", f"{k}{pt} returned {p!r}, map says {want!r} (default {d})")
                if pt in wrote:
                    read_written = True
                if stored is not None:
                    mon.check(p is stored, f"read:{k}:not-stored-object", f"{k}{pt} did not return the stored payload")
                elif isinstance(p, Payload):
                    mon.count("fresh_default_checked")
                    p <<= 99            # a synthesised default must be a fresh box
                    q = entry(op).getPayload(*pt)
                    mon.check(unbox(q) == d, "read:default-shared", f"default returned for absent {pt} was shared: later read gives {q!r}")
                mon.check(snap(subject) == before, f"read:{k}:modified-tree", f"{k}{pt} changed the tree")
            elif k == "get_partial":
                if depth < 2:
                    continue
                pre = pt[:op["cut"]]
                sub = entry(op).getPayload(*pre)
                mon.count("reads_checked")
                want = {p[len(pre):]: v for p, v in model.items() if p[:len(pre)] == pre}
                ok = isinstance(sub, Fiber)
                mon.check(ok and content(sub, d) == want, "read:partial:content",
                          f"getPayload{pre} returned {sub!r} whose content differs from the map under that prefix {want}")
                stored = _raw_lookup(root, pre)
                if stored is not None:
                    mon.check(sub is stored, "read:partial:not-stored-object", f"getPayload{pre} did not return the stored sub-fiber")
                mon.check(snap(subject) == before, "read:partial:modified-tree", f"getPayload{pre} changed the tree or rank lists")
            elif k in ("ref", "ref_sp"):
                sp = None
                if k == "ref_sp":
                    if depth != 1:
                        continue
                    sp = _legal_sp(root, pt[0], op["r"])
                    if sp is None:
                        continue
                    mon.count("startpos_checked")
                    ref = root.getPayloadRef(pt[0], start_pos=Payload(sp) if op["boxed"] else sp)
                else:
                    ref = entry(op).getPayloadRef(*pt)
                mon.count("refs_checked")
                stored = _raw_lookup(root, pt)
                mon.check(stored is not None and ref is stored, f"ref:{k}:not-aliasing",
                          f"getPayloadRef{pt} returned an object that is not the payload stored at that point")
                if not compare(f"{k}:create"):
                    return
                old = model.get(pt, d)
                _apply_act(ref, op["act"], Payload(op["v"]) if op["rhs"] == "payload" else op["v"], d)
                new = _model_act(old, op["act"], op["v"], d)
                if new != d:
                    model[pt] = new
                else:
                    model.pop(pt, None)
                if op["act"] != "none":
                    wrote.add(pt)
                    if mon.tag:
                        mon.count("metrics_session_writes")
                label = f"{k}:{op['act']}"
                if op["hold"]:
                    held.append((pt, ref))
                rd = entry(op).getPayload(*pt)
                mon.check(unbox(rd) == new, f"ref:{k}:write-not-visible", f"after {op['act']} through the handle at {pt}, read gives {rd!r}, expected {new!r}")
            elif k == "ref_partial":
                if depth < 2:
                    continue
                pre = pt[:op["cut"]]
                full = [hp for hp, _ in held if len(hp) == depth]
                if full and op["r"] % 2 == 0:
                    # a prefix of a point at which a handle obtained earlier is still held
                    pre = full[(op["r"] >> 1) % len(full)][:op["cut"]]
                sub = entry(op).getPayloadRef(*pre)
                mon.count("refs_checked")
                stored = _raw_lookup(root, pre)
                if not mon.check(isinstance(sub, Fiber) and sub is stored, "ref:partial:not-aliasing", f"getPayloadRef{pre} is not the stored sub-fiber"):
                    return
                if t is not None:
                    pr = RC(t)
                    mon.check(not pr, "ref:partial:rank-lists", f"after getPayloadRef{pre}: {pr}")
                if not compare("ref_partial:create"):
                    return
                # in-place arithmetic through the handle at the partial point: the two operators a fiber defines
                # for a scalar (plain or boxed) right-hand side.  `sub *= s` scales every non-empty element (value other
                # than the default) under the prefix; `sub += s` adds s at every coordinate of the declared shape under the prefix
                # (absent ones counting as zero).  The expected values come from the map.
                pact = {"mul": "mul", "sub": "add", "add": "add", "default": "add"}.get(op["act"])
                if pact == "add" and not (t is not None and init["shape"] and d == 0):
                    pact = "mul"
                if pact is not None:
                    v = op["v"]
                    rhs = Payload(v) if op["rhs"] == "payload" else v
                    if pact == "mul":
                        upd = {p_: val * v for p_, val in model.items() if p_[:len(pre)] == pre}
                        sub *= rhs
                    else:
                        box = [range(n) for n in init["shape"][len(pre):]]
                        upd = {pre + q: model.get(pre + q, d) + v for q in itertools.product(*box)}
                        sub += rhs
                    for p_, val in upd.items():
                        if val != d:
                            model[p_] = val
                        else:
                            model.pop(p_, None)
                    wrote.update(upd)
                    label = f"ref_partial:{pact}"
                    mon.count("partial_updates")
                    mon.count(f"partial_{pact}")
                    if any(hp[:len(pre)] == pre for hp, _ in held):
                        mon.count("partial_update_above_held_handle")
                    if mon.tag:
                        mon.count("metrics_session_writes")
                    mon.check(_raw_lookup(root, pre) is sub, "ref:partial:update-replaced-sub-fiber",
                              f"after {pact} through the handle at the prefix {pre} the stored sub-fiber is another object")
            elif k == "stale":
                if not held:
                    continue
                hp, ref = held[op["r"] % len(held)]
                old = model.get(hp, d)
                act = op["act"] if op["act"] != "none" else "add"
                _apply_act(ref, act, Payload(op["v"]) if op["rhs"] == "payload" else op["v"], d)
                new = _model_act(old, act, op["v"], d)
                if new != d:
                    model[hp] = new
                else:
                    model.pop(hp, None)
                wrote.add(hp)
                if mon.tag:
                    mon.count("metrics_session_writes")
                    mon.count("metrics_session_stale_writes")
                label = f"stale:{act}"
                rd = entry(op).getPayload(*hp)
                mon.check(unbox(rd) == new, "ref:stale:write-not-visible", f"write through an older handle at {hp} not visible: read {rd!r}, expected {new!r}")
            elif k == "assign_prefix" and t is not None and depth >= 2 and (op["r"] >> 11) % 3 and not mon.tag:
                # (outside metrics sessions: a free right-hand fiber has no rank the session knows)
                # in-place arithmetic with a FIBER operand through the handle at a partial point (a leaf-level sub-fiber, possibly
                # created just now and still empty): `sub += g` adds g's non-empty elements to the values under the prefix (absent ones
                # counting as the default), `sub *= g` multiplies where both hold a value and empties the rest of sub
                pre = pt[:depth - 1]
                sub = entry(op).getPayloadRef(*pre)
                r = random.Random(op["r"])
                ospec = gen.rand_leaf_spec(r, init["ext"][-1] + 1, r.choice([0.3, 0.6, 0.9]), 0.2, d)
                other = gen.fiber_from_spec(ospec, d)
                live_o = {c: v for c, v in ospec if v != d}
                under = {p_[-1]: v_ for p_, v_ in model.items() if p_[:len(pre)] == pre and len(p_) == depth}
                if (op["r"] >> 11) % 3 == 1:
                    upd = {c: under.get(c, d) + v for c, v in live_o.items()}
                    sub += other
                    label = "assign_prefix:iadd-fiber"
                else:
                    upd = {c: (under[c] * live_o[c] if c in live_o else d) for c in under}
                    sub *= other
                    label = "assign_prefix:imul-fiber"
                if not under:
                    mon.count("partial_fiber_operand_updates_on_empty_subfiber")
                for c, val in upd.items():
                    if val != d:
                        model[pre + (c,)] = val
                    else:
                        model.pop(pre + (c,), None)
                wrote.update(pre + (c,) for c in upd)
                # `sub += g` is a populate loop: an element it leaves at the default is removed from the fiber (C05), so a handle
                # obtained earlier under this prefix may now refer to a box that is no longer stored -- such handles are retired
                held = [(hp, r_) for hp, r_ in held if hp[:len(pre)] != pre]
                mon.count("partial_fiber_operand_updates")
                mon.check(_raw_lookup(root, pre) is sub, "ref:partial:update-replaced-sub-fiber",
                          f"after {label} through the handle at the prefix {pre} the stored sub-fiber is another object")
                mon.check(content(other, d) == {(c,): v for c, v in live_o.items()}, "assign_prefix:fiber-operand-changed",
                          f"the right-hand fiber of {label} holds {content(other, d)} afterwards, it was built from {live_o}")
            elif k == "assign_prefix":
                if t is None or depth < 2:
                    continue
                pre = pt[:depth - 1]
                sub = entry(op).getPayloadRef(*pre)
                r = random.Random(op["r"])
                ospec = gen.rand_leaf_spec(r, init["ext"][-1] + 1, r.choice([0.0, 0.5, 0.9]), 0.2, d)
                other = gen.fiber_from_spec(ospec, d)
                if (op["r"] >> 5) % 4 == 0:
                    # first an assignment the library refuses (the right-hand side of a fiber assignment must be a fiber):
                    # a refused write is no write -- every later read still returns the value most recently written
                    bad = [7, Payload(3), None, "x"][(op["r"] >> 9) % 4]
                    b4 = snap(subject)
                    try:
                        sub <<= bad
                    except (AssertionError, TypeError, AttributeError, ValueError):
                        mon.count("assign_prefix_refused")
                        if not compare("assign_prefix:refused"):
                            return
                        mon.check(snap(subject) == b4, "assign_prefix:refused:modified-tree",
                                  "a fiber assignment refused with an error changed the stored tree")
                    else:
                        mon.note({"assign_prefix_non_fiber_accepted": repr(bad)})
                        return
                # the right-hand side is a fiber of its own, or (every other time) the sub-fiber stored under another prefix of the same tree
                src_pre = None
                if (op["r"] >> 7) % 2:
                    sibs = sorted({p_[:len(pre)] for p_ in model if p_[:len(pre)] != pre and len(p_) == depth})
                    if sibs:
                        src_pre = sibs[(op["r"] >> 8) % len(sibs)]
                        other = entry(op).getPayload(*src_pre)
                        ospec = [[p_[-1], v_] for p_, v_ in sorted(model.items()) if p_[:len(pre)] == src_pre]
                        mon.count("assign_prefix_from_same_tree")
                sub <<= other
                for p_ in [p_ for p_ in model if p_[:len(pre)] == pre]:
                    del model[p_]
                for c, v in ospec:
                    if v != d:
                        model[pre + (c,)] = v
                held = [(hp, r_) for hp, r_ in held if hp[:len(pre)] != pre]
                wrote -= {w for w in wrote if w[:len(pre)] == pre}
                if not compare("assign_prefix:assigned"):
                    return
                # the assignment copies values: a later update of the source is an update of the source only
                # ("disturbs no other point"), and a later update of the destination leaves the source alone
                live = [c for c, v in ospec if v != d]
                if live and isinstance(other, Fiber):
                    c0 = live[(op["r"] >> 3) % len(live)]
                    src_ref = other.getPayloadRef(c0)
                    src_ref += 10
                    if src_pre is not None:
                        sp_ = tuple(src_pre) + (c0,)
                        nv = model.get(sp_, d) + 10
                        if nv != d:
                            model[sp_] = nv
                        else:
                            model.pop(sp_, None)
                        wrote.add(sp_)
                    mon.count("assign_prefix_source_updates")
                    if not compare("assign_prefix:source-updated-later"):
                        return
                    dref = entry(op).getPayloadRef(*(tuple(pre) + (c0,)))
                    dref += 100
                    dp_ = tuple(pre) + (c0,)
                    nv = model.get(dp_, d) + 100
                    if nv != d:
                        model[dp_] = nv
                    else:
                        model.pop(dp_, None)
                    wrote.add(dp_)
                    srcv = unbox(other.getPayload(c0))
                    want = (model.get(tuple(src_pre) + (c0,), d) if src_pre is not None else dict((c, v) for c, v in ospec)[c0] + 10)
                    mon.check(srcv == want, "assign_prefix:destination-update-reached-source",
                              f"after sub <<= other and an update of the destination at {c0}, the source reads {srcv!r}, expected {want!r}")
                    label = "assign_prefix:destination-updated-later"
            elif k in ("getpos", "getpos_sp", "getposref"):
                f, pre = _resolve(root, op["path"])
                c = op["c"]
                sp = None
                kw = {}
                if k == "getpos_sp":
                    sp = _legal_sp(f, c, op["r"])
                    if sp is None:
                        continue
                    mon.count("startpos_checked")
                    kw = {"start_pos": Payload(sp) if op["boxed"] else sp}
                if k == "getposref":
                    if len(pre) != depth - 1 and t is None:
                        continue
                    pos = f.getPositionRef(c)
                    mon.count("refs_checked")
                    mon.check(isinstance(pos, int) and pos < len(f.coords) and f.coords[pos] == c, "getPositionRef:index",
                              f"getPositionRef({c}) returned {pos}, coords {f.coords}")
                    if t is not None:
                        pr = RC(t)
                        mon.check(not pr, "getPositionRef:rank-lists", f"after getPositionRef: {pr}")
                else:
                    pos = f.getPosition(c, **kw)
                    mon.count("reads_checked")
                    want = f.coords.index(c) if c in f.coords else None
                    mon.check(pos == want, f"getPosition:index{':start_pos' if sp is not None else ''}",
                              f"getPosition({c}, start_pos={sp}) returned {pos}, raw index is {want} in {f.coords}")
                    mon.check(snap(subject) == before, "getPosition:modified-tree", "getPosition changed the tree")
            elif k == "getitem":
                f, pre = _resolve(root, op["path"])
                if not f.coords:
                    continue
                pos = op["r"] % (2 * len(f.coords)) - len(f.coords)
                cp = f[pos]
                mon.count("reads_checked")
                mon.check(cp.coord == f.coords[pos] and cp.payload is f.payloads[pos], "getitem:element",
                          f"f[{pos}] returned ({cp.coord}, {cp.payload!r}), raw lists hold ({f.coords[pos]}, {f.payloads[pos]!r})")
                mon.check(snap(subject) == before, "getitem:modified-tree", "f[pos] changed the tree")
                form = (op["r"] >> 8) % 4
                if (op["r"] >> 12) % 8 == 0:
                    # a position outside the fiber is refused with IndexError, on either side, and nothing changes
                    bad = len(f.coords) + (op["r"] >> 5) % 2 if (op["r"] >> 4) % 2 else -len(f.coords) - 1 - (op["r"] >> 5) % 2
                    try:
                        got = f[bad]
                    except IndexError:
                        mon.count("getitem_out_of_range_refused")
                    else:
                        mon.violation("getitem:out-of-range-accepted", f"f[{bad}] on a fiber of {len(f.coords)} elements returned {got!r} instead of raising IndexError")
                    mon.check(snap(subject) == before, "getitem:modified-tree", "a refused f[pos] changed the tree")
                elif form == 2 and isinstance(f.payloads[pos], Fiber):
                    # n-D position access: one position per level, down to wherever the chain of positions ends
                    chain, g, keys = [], f, []
                    rr = op["r"] >> 3
                    while isinstance(g, Fiber) and g.coords and len(keys) < 4:
                        q = pos if not keys else rr % len(g.coords)
                        q = q % len(g.coords)
                        keys.append(q)
                        chain.append((g.coords[q], g.payloads[q]))
                        g = g.payloads[q]
                        rr >>= 2
                        if len(keys) >= 2 and rr % 3 == 0:
                            break
                    if len(keys) >= 2:
                        cp = f[tuple(keys)]
                        mon.count("reads_checked")
                        mon.count("getitem_tuple_keys")
                        ok, cur = True, cp
                        for n, (cc, pp) in enumerate(chain):
                            if not isinstance(cur, CoordPayload) or cur.coord != cc:
                                ok = False
                                break
                            if n == len(chain) - 1:
                                ok = cur.payload is pp
                            cur = cur.payload
                        mon.check(ok, "getitem:tuple-key", f"f[{tuple(keys)}] returned {cp!r}; the raw lists hold the chain {[c for c, _ in chain]} ending at {chain[-1][1]!r}")
                        mon.check(snap(subject) == before, "getitem:modified-tree", "f[pos, pos, ...] changed the tree")
                elif form == 3:
                    # a slice of positions: a fiber of exactly those elements, holding the stored payloads themselves
                    n = len(f.coords)
                    a, b = sorted(((op["r"] >> 3) % (n + 2) - 1, (op["r"] >> 6) % (n + 2) - 1))
                    st = 1 + (op["r"] >> 10) % 2
                    a = None if (op["r"] >> 11) % 4 == 0 else a
                    b = None if (op["r"] >> 13) % 4 == 0 else b
                    sl = slice(a, b, st)
                    idx = list(range(*sl.indices(n)))
                    got = f[sl]
                    mon.count("reads_checked")
                    mon.count("getitem_slices")
                    mon.check(isinstance(got, Fiber) and list(got.coords) == [f.coords[i] for i in idx]
                              and len(got.payloads) == len(idx) and all(x is f.payloads[i] for x, i in zip(got.payloads, idx)),
                              "getitem:slice", f"f[{a}:{b}:{st}] returned {got!r}; positions {idx} of the raw lists hold {[f.coords[i] for i in idx]}")
                    mon.check(snap(subject) == before, "getitem:modified-tree", "f[a:b] changed the tree")
            elif k == "get_sp":
                f, pre = _resolve(root, op["path"])
                c = op["c"]
                sp = _legal_sp(f, c, op["r"])
                if sp is None:
                    continue
                mon.count("startpos_checked")
                p0 = f.getPayload(c)
                p1 = f.getPayload(c, start_pos=Payload(sp) if op["boxed"] else sp)
                stored = _raw_lookup(f, (c,))
                if stored is not None:
                    mon.check(p1 is stored and p0 is stored, "read:start_pos:not-stored-object",
                              f"getPayload({c}, start_pos={sp}) did not return the stored payload (coords {f.coords})")
                else:
                    same = (isinstance(p1, Fiber) and isinstance(p0, Fiber) and not p1.coords) or (unbox(p0) == unbox(p1) == d)
                    mon.check(same, "read:start_pos:value", f"getPayload({c}, start_pos={sp}) returned {p1!r}, without shortcut {p0!r}")
                mon.check(snap(subject) == before, "read:start_pos:modified-tree", "getPayload with start_pos changed the tree")
            elif k == "walk":
                # the documented shortcut idiom: an ascending walk in which every access starts its search at
                # the position saved by the previous one (start_pos=f.getSavedPos())
                f, pre = _resolve(root, op["path"])
                leaf_level = len(pre) == depth - 1
                f.setSavedPos(0)
                for c, how in op["walk"]:
                    if how.endswith("Ref") and not (leaf_level or t is not None):
                        how = "getPayload"
                    sp = f.getSavedPos()
                    if sp >= len(f.coords) and len(f.coords) > 0:
                        mon.violation("walk:saved-position-past-end", f"saved position {sp} after an ascending walk step, fiber has {len(f.coords)} elements")
                        return
                    if f.coords and 0 < sp < len(f.coords) and f.coords[sp] > c:
                        mon.violation("walk:saved-position-beyond-next-coordinate",
                                      f"position saved by the previous access ({sp}, coordinate {f.coords[sp]}) lies beyond the next coordinate {c} of an ascending walk")
                        return
                    mon.count("startpos_checked")
                    mon.count("walk_steps")
                    spv = Payload(sp) if op["boxed"] else sp
                    stored = _raw_lookup(f, (c,))
                    if how == "getPayload":
                        p = f.getPayload(c, start_pos=spv)
                        if stored is not None:
                            mon.check(p is stored, "walk:getPayload:not-stored-object", f"walk getPayload({c}, start_pos={sp}) did not return the stored payload; coords {f.coords}")
                        else:
                            okd = (isinstance(p, Fiber) and not p.coords) or (not isinstance(p, Fiber) and unbox(p) == d)
                            mon.check(okd, "walk:getPayload:value", f"walk getPayload({c}, start_pos={sp}) of an absent coordinate returned {p!r}")
                    elif how == "getPosition":
                        pos = f.getPosition(c, start_pos=spv)
                        want = f.coords.index(c) if c in f.coords else None
                        mon.check(pos == want, "walk:getPosition:index", f"walk getPosition({c}, start_pos={sp}) returned {pos}, raw index {want} in {f.coords}")
                    elif how == "getPayloadRef":
                        ref = f.getPayloadRef(c, start_pos=spv)
                        now = _raw_lookup(f, (c,))
                        mon.check(now is ref and (stored is None or stored is ref), "walk:getPayloadRef:not-aliasing",
                                  f"walk getPayloadRef({c}, start_pos={sp}) is not the payload stored at {c}")
                    else:
                        pos = f.getPositionRef(c, start_pos=spv)
                        mon.check(isinstance(pos, int) and pos < len(f.coords) and f.coords[pos] == c, "walk:getPositionRef:index",
                                  f"walk getPositionRef({c}, start_pos={sp}) returned {pos}, coords {f.coords}")
            elif k == "handle":
                # write through a position-based handle: pos from getPosition / getPositionRef / the raw index,
                # h = f[pos] (an element aliasing the stored payload), then  h OP= rhs  or the statement form
                # f[pos] OP= rhs, where rhs is a scalar, a boxed value or an element of the same fiber / another
                # leaf fiber of the tree / a separate fiber.  Afterwards the point reads back the new value, no
                # other point (of the tree or of the source fiber) changed, and the assigned point stays
                # independent of the point its value came from.
                f, pre = _resolve(root, op["path"])
                if len(pre) != depth - 1:
                    f, pre = entry(op).getPayloadRef(*pt[:depth - 1]), pt[:depth - 1]
                    if not isinstance(f, Fiber) or f is not _raw_lookup(root, pre):
                        mon.violation("ref:partial:not-aliasing", f"getPayloadRef{pre} is not the stored sub-fiber")
                        return
                c, posvia = op["c"], op["posvia"]
                if posvia == "raw" and not f.coords:
                    posvia = "getPositionRef"
                if posvia == "getPosition" and c not in f.coords:
                    if f.coords:
                        c = f.coords[op["r"] % len(f.coords)]
                    else:
                        posvia = "getPositionRef"
                if posvia == "raw":
                    pos = op["r"] % (2 * len(f.coords)) - len(f.coords)
                    c = f.coords[pos]
                elif posvia == "getPosition":
                    pos = f.getPosition(c)
                    want = f.coords.index(c)
                    if not mon.check(pos == want, "getPosition:index", f"getPosition({c}) returned {pos}, raw index is {want} in {f.coords}"):
                        return
                else:
                    pos = f.getPositionRef(c)
                    if not mon.check(isinstance(pos, int) and 0 <= pos < len(f.coords) and f.coords[pos] == c, "getPositionRef:index",
                                     f"getPositionRef({c}) returned {pos}, coords {f.coords}"):
                        return
                    if not compare("handle:getPositionRef:create"):
                        return
                tp = pre + (c,)
                mon.count("handles_checked")
                mon.count(f"handle_pos_{posvia}")
                if len(f.coords) >= 2 and (op["r"] >> 6) % 4 == 0:
                    # first an assignment by position that the library refuses (its coordinate collides with a neighbour's):
                    # a refused write is no write -- the point keeps the value most recently written, nothing else moves
                    pn = pos % len(f.coords)
                    bad_c = f.coords[pn + 1] if pn + 1 < len(f.coords) else f.coords[pn - 1]
                    b4 = snap(subject)
                    try:
                        f[pos] = CoordPayload(bad_c, 99)
                    except Exception:      # noqa  (CoordinateError; which exception is C01's business)
                        mon.count("setitem_refused")
                        mon.check(snap(subject) == b4, "setitem:refused:modified-tree",
                                  "f[pos] = CoordPayload(c, v) refused for its coordinate changed the stored tree")
                        if not compare("handle:setitem:refused"):
                            return
                    else:
                        return      # accepted although out of order: the tree is C01's to judge; this history ends
                # right-hand side; its value comes from the map, never from the library
                rhs_kind, act = op["rhs"], op["act"]
                if act == "none":
                    act = "set"
                if act == "default":
                    rhs_kind = "scalar"
                sf = spt = None
                if rhs_kind == "element":
                    skind = op["src"]
                    if skind == "tree":
                        sf, spre = _resolve(root, op["path2"])
                        if len(spre) != depth - 1 or not sf.coords:
                            skind = "same"
                    if skind == "same":
                        sf, spre = f, pre
                    if skind == "ext":
                        sf, spre = xf, None
                    if not sf.coords:
                        rhs_kind = "scalar"
                    else:
                        spos = op["r2"] % len(sf.coords)
                        sc = sf.coords[spos]
                        if spre is None:
                            rv = xmodel.get(sc, d)
                        else:
                            spt = spre + (sc,)
                            rv = model.get(spt, d)
                        rhs = sf[spos]
                        mon.check(isinstance(rhs, CoordPayload) and rhs.coord == sc and rhs.payload is sf.payloads[spos], "getitem:element",
                                  f"f[{spos}] returned {rhs!r}, raw lists hold ({sc}, {sf.payloads[spos]!r})")
                        mon.count(f"handle_rhs_element_{skind}")
                if rhs_kind != "element":
                    rv = d if act == "default" else op["v"]
                    rhs = Payload(rv) if rhs_kind == "payload" else rv
                    mon.count(f"handle_rhs_{rhs_kind}")
                old = model.get(tp, d)
                new = _model_act(old, act, rv, d)
                form = op["form"]
                label = f"handle:{form}:{rhs_kind}:{act}"
                if form == "handle":
                    h = f[pos]
                    mon.check(h.coord == c and h.payload is f.payloads[pos], "getitem:element",
                              f"f[{pos}] returned ({h.coord}, {h.payload!r}), raw lists hold ({f.coords[pos]}, {f.payloads[pos]!r})")
                    h = _apply_act(h, act, rhs, d)
                    if op["hold"]:
                        held.append((tp, h))
                elif act == "set":
                    f[pos] <<= rhs
                elif act == "add":
                    f[pos] += rhs
                elif act == "mul":
                    f[pos] *= rhs
                elif act == "sub":
                    f[pos] -= rhs
                else:
                    f[pos] <<= d
                mon.count(f"handle_form_{form}")
                if new != d:
                    model[tp] = new
                else:
                    model.pop(tp, None)
                wrote.add(tp)
                if mon.tag:
                    mon.count("metrics_session_writes")
                rd = entry(op).getPayload(*tp)
                mon.check(unbox(rd) == new, f"handle:{form}:write-not-visible",
                          f"after {act} of a {rhs_kind} through {'h = f[pos]' if form == 'handle' else 'f[pos] OP= ...'} at {tp}, read gives {rd!r}, expected {new!r}")
                if rhs_kind == "element" and op["follow"] != "none" and (spt is None or spt != tp):
                    # the two points must stay independent: update one of them in place, the other keeps its value
                    if not compare(label):
                        return
                    mon.count("handle_independence_checked")
                    label += ":then-update-" + op["follow"]
                    if op["follow"] == "target":
                        ref = f.getPayloadRef(c)
                        ref += 1
                        if new + 1 != d:
                            model[tp] = new + 1
                        else:
                            model.pop(tp, None)
                    else:
                        ref = sf.getPayloadRef(sc)
                        ref += 1
                        mdl, key_ = (xmodel, sc) if spt is None else (model, spt)
                        if rv + 1 != d:
                            mdl[key_] = rv + 1
                        else:
                            mdl.pop(key_, None)
                        if spt is not None:
                            wrote.add(spt)
            elif k == "drill":
                if depth < 2:
                    continue
                cut = op["cut"]
                sub = entry(op).getPayload(*pt[:cut])
                p = sub.getPayload(*pt[cut:])
                mon.count("reads_checked")
                mon.check(unbox(p) == model.get(pt, d), "read:drill:value", f"getPayload{pt[:cut]}.getPayload{pt[cut:]} returned {p!r}, map says {model.get(pt, d)!r}")
                mon.check(snap(subject) == before, "read:drill:modified-tree", "drilling reads changed the tree")
        except BaseException as e:      # noqa
            if isinstance(e, KeyboardInterrupt):
                raise
            mon.violation(f"{k}:raised:{type(e).__name__}", f"step #{i} {op} raised {type(e).__name__}: {e}")
            return
        if not compare(label):
            return          # later states are tainted
        probs = WF(subject)
        mon.check(not probs, f"wf:after:{k}", f"tree not well-formed after {k}: {probs[:2]}")
        # every handle obtained earlier still aliases the stored payload: it shows the value the map holds now
        for hp, ref in held:
            mon.count("held_handles_checked")
            hv = unbox(ref.payload if isinstance(ref, CoordPayload) else ref)
            if not mon.check(hv == model.get(hp, d), f"ref:held:value-diverged-after:{label.split(':then-')[0] if k == 'ref_partial' else k}",
                             f"after {label}: the handle obtained earlier at {hp} shows {hv!r}, the point holds {model.get(hp, d)!r}"):
                return
    if wrote and read_written:
        mon.nontrivial()
    mon.state((depth, d, tuple(sorted({o['op'] for o in case['ops']}))))


def _legal_sp(f, coord, r):
    cands = [p for p in range(len(f.coords)) if f.coords[p] <= coord]
    if not cands:
        return None
    return cands[r % len(cands)]


def _run_rank0(case, mon, t):
    val = case["init"]["root0"]
    for i, op in enumerate(case["ops"]):
        _session(mon, case.get("metrics"), i, [])
        if mon.tag:
            mon.count("metrics_session_steps")
        if op["op"] in ("ref", "stale", "ref_sp"):
            ref = t.getPayloadRef()
            mon.count("refs_checked")
            mon.check(ref is t.getRoot(), "rank0:ref-not-root", "rank-0 getPayloadRef() is not the root box")
            act = op["act"]
            _apply_act(ref, act, op["v"], 0)
            val = _model_act(val, act, op["v"], 0)
        else:
            p = t.getPayload()
            mon.count("reads_checked")
            mon.check(unbox(p) == val, "rank0:read", f"rank-0 read gives {p!r}, expected {val}")
    mon.nontrivial()
    mon.state(("rank0", val))
