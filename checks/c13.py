"""C13 - conversions between representations are lossless.

Monitors (all oracles are computed from the raw nest / raw coordinate+payload lists, never through the
function under test):

 * nest   : `Fiber.fromUncompressed` / `Tensor.fromUncompressed` on a rectangular nest -> stored content ==
            the nest's non-default entries (type-strict), no explicit default leaf and no empty sub-fiber
            stored, shape == the nest's dimensions, tree well-formed; `uncompress(shape=dims)` and
            `uncompress()` return the nest (type-strict, unboxed).  "Default entry" = an entry that compares
            equal to the default value, whatever its numeric type (0.0 in a nest built with default 0, 7 with
            default 7.0, -0.0): such entries must not be stored either, and `uncompress` may give them back
            as the entry itself or as the default value.
 * yaml   : tensor (built from a nest, then 0..2 rank transforms: split / swizzle / swap / flatten with tuple,
            pair or linear coordinates / flatten+unflatten; or a rank-0 tensor; or a tree with explicit
            defaults and empty sub-fibers) -> `dump` to a real temp file -> `Tensor.fromYAMLfile`: same rank
            ids, shape, name, content; the written file is also read back by the harness (PyYAML, not the
            library) to see whether name / rank ids / shape reached the file.  Same for the root fiber
            through `Fiber.dump` / `Fiber.fromYAMLfile`, and through `fiber2dict` / `dict2fiber` /
            `Payload.payload2dict` in memory.
 * random : `Fiber.fromRandom` / `Tensor.fromRandom` called twice with the same seed from two different states
            of the global `random` module -> identical trees; every coordinate inside the requested shape;
            with every density equal to 1 every point of the shape reads back an int in [1, interval].
"""
import itertools
import os
import random as _global_random
import shutil
import tempfile

from fibertree import Fiber, Payload, Tensor

from fvmon import gen
from fvmon.observe import WF, wf_kind, unbox, spec_of

SPEC = {
    "anchors": ["fibertree.core.fiber:Fiber.fromUncompressed", "fibertree.core.fiber:Fiber._makeFiber", "fibertree.core.fiber:Fiber.uncompress", "fibertree.core.fiber:Fiber._fillempty", "fibertree.core.fiber:Fiber.parse", "fibertree.core.fiber:Fiber.dump", "fibertree.core.fiber:Fiber.dict2fiber", "fibertree.core.fiber:Fiber.fiber2dict", "fibertree.core.fiber:Fiber.fromRandom", "fibertree.core.fiber:Fiber.fromYAMLfile", "fibertree.core.tensor:Tensor.fromUncompressed", "fibertree.core.tensor:Tensor._calc_shape", "fibertree.core.tensor:Tensor.parse", "fibertree.core.tensor:Tensor.dump", "fibertree.core.tensor:Tensor.fromYAMLfile", "fibertree.core.tensor:Tensor.fromRandom", "fibertree.core.payload:Payload.payload2dict"],
    "rule": ("cases = (i) every rectangular nest over {default, value} for every dimension list of depth 1-4, "
             "extents 1-4 and at most 6 (quick) / 10 (thorough) entries, under defaults 0 / 7 / 0.5 / -1, "
             "built as free fiber, as tensor and as tensor with explicit shape, then uncompressed with and "
             "without the shape argument; (i') the same nests (those with at least one default entry) with the "
             "default entries written in the other numeric type than the default value (all of them / every "
             "second one) under defaults 0 / 0.0 / 7 / -1.0 / 7.0 / -1; (ii) random nests of depth 1-4, extents 1-4 over {0,1,2,-1,0.5,3} and "
             "defaults {0,7,-1,0.5,None,1,0.0,-1.0}, a quarter of them with default entries of the other numeric "
             "type (int <-> float, -0.0), rank-0 tensors; (iii) YAML / dict round trips through real temp files "
             "of tensors and fibers built from nests and transformed by split/swizzle/swap/flatten(tuple, pair, "
             "linear)/unflatten, rank-0 tensors, trees holding explicit defaults and empty sub-fibers; "
             "(iv) fromRandom over shapes x scalar/per-rank densities x intervals x int/float/str seeds x defaults. "
             "Non-trivial = the nest / tree / random result holds at least one stored non-default leaf "
             "(rank-0: a non-zero value); distinct = distinct case description."),
    "shards": {"quick": 16, "thorough": 16},
    "min_counts": {"quick": {"evaluations": 4000, "oracle_evals": 40000, "nests_built": 5000,
                             "uncompress_calls": 5000, "yaml_tensor_roundtrips": 300,
                             "yaml_fiber_roundtrips": 300, "dict_roundtrips": 300, "random_pairs": 500,
                             "density1_points_read": 2000, "all_default_nests": 50, "tuple_coord_trees": 50,
                             "rank0_roundtrips": 20, "mixed_type_default_nests": 400,
                             "mixed_type_default_entries": 1500, "mixed_type_all_default_nests": 20},
                   "thorough": {"evaluations": 40000, "oracle_evals": 400000, "nests_built": 50000,
                                "uncompress_calls": 50000, "yaml_tensor_roundtrips": 5000,
                                "yaml_fiber_roundtrips": 5000, "dict_roundtrips": 5000, "random_pairs": 5000,
                                "density1_points_read": 20000, "all_default_nests": 200,
                                "tuple_coord_trees": 500, "rank0_roundtrips": 200, "mixed_type_default_nests": 4000,
                                "mixed_type_default_entries": 15000, "mixed_type_all_default_nests": 100}},
    "assumptions": [
        "nests are rectangular, depth 1-4, extents >= 1, entries int/float (no bool; None only as the default value); a "
        "'default entry' / 'explicit default' is decided by value equality with the default (==), never by type: "
        "0.0 is a default entry under default 0 and 0 under default 0.0",
        "uncompress() output is compared type-strictly at every non-default position; at a default position the "
        "returned element must be (type-strictly) the nest's entry or the default value - the tree does not store "
        "these entries, so which numeric type the nest spelled its zero in cannot be demanded back",
        "YAML has no field for a non-zero default (documented TODO in Tensor.fromYAMLfile): YAML and dict round "
        "trips use default 0; payloads are finite ints/floats (no nan/inf)",
        "round-trip equality is content equality (point -> typed value, explicit defaults and empty sub-fibers "
        "contribute nothing) plus rank ids, shape and name read through the getters before dump and after load; "
        "the representation inside the file/dict is not prescribed, only that name, rank ids and shape written "
        "by Tensor.dump can be found under tensor.name / rank_ids / shape (list/tuple-insensitive)",
        "a free fiber built from an all-default nest of depth > 1 cannot carry the inner dimensions: only its own "
        "extent is compared and uncompress() without a shape argument is not demanded there",
        "a rank transform that itself raises is not C13's business: the case is skipped (counted as "
        "transform_raised_skipped)",
        "fromRandom: reproducibility is demanded for seeds random.seed accepts and that are not None (int incl. "
        "0/negative/huge, float, str); non-unit density above the leaf only with default 0, default None only "
        "with unit density above the leaf (both documented); 'fills completely at density 1' = every density is "
        "1 and every point of the shape reads back (stored value, else the leaf default) an int in [1, interval]",
    ],
}

VALS = [1, 2, -1, 0.5, 3]
DEFAULTS_SYS = [0, 7, 0.5, -1]
DEFAULTS_ALT = [0, 0.0, 7, -1.0, 7.0, -1]      # defaults that have a spelling in the other numeric type
NAMES = ["", "A", "my tensor", "T-1", "123", "true", "null", "a: b", "x+y", "#c", "Z_9", "~"]
YAML_VALS = [1, 2, -1, 0.5, 3, -2.5, 1e-05, 1e+20, 10 ** 12, 7]
ID_POOLS = [["M", "K", "N", "P"], ["R3", "R2", "R1", "R0"], ["a", "b", "c", "d"], ["X0", "Y0", "W", "H"]]
SEEDS = [0, 1, -1, 7, -12345, 2 ** 40 + 7, 10 ** 30, "seed", "", "0", 3.5, 0.0, -2.25, 1e300]


# ------------------------------------------------------------------------------------------
# generation
# ------------------------------------------------------------------------------------------
# seeds for the cross-process rebuilds: strings first (their hash() differs from process to process), then numbers
XPROC_SEEDS = ["seed", "", "0", "another seed", 7, 3.5, -12345]

_XPROC_SCRIPT = r"""
import sys, json
sys.path.insert(0, sys.argv[1]); sys.path.insert(1, sys.argv[2])
from fvmon import env
env.setup_import_path(); env.assert_repo_is_under_test()
from fibertree import Fiber, Tensor
from fvmon.observe import spec_of
c = json.loads(sys.argv[3])
dens = c["density"]
if c["via"] == "fiber":
    o = Fiber.fromRandom(list(c["shape"]), dens, c["interval"], seed=c["seed"], default=c["default"])
else:
    o = Tensor.fromRandom(rank_ids=c["ids"], shape=list(c["shape"]), density=dens, interval=c["interval"], seed=c["seed"],
                          name=c.get("name", ""), default=c["default"])
    o = o.__dict__.get("_root")
print("SPEC=" + json.dumps(spec_of(o)))
"""


def _dims_upto(maxprod, maxdepth=4, maxext=4):
    out = []
    for d in range(1, maxdepth + 1):
        for dims in itertools.product(range(1, maxext + 1), repeat=d):
            p = 1
            for e in dims:
                p *= e
            if p <= maxprod:
                out.append(list(dims))
    return out


def _nest_from_flat(dims, flat):
    """Reshape a flat list (row-major) into a nest of lists."""
    if len(dims) == 1:
        return list(flat)
    step = len(flat) // dims[0]
    return [_nest_from_flat(dims[1:], flat[i * step:(i + 1) * step]) for i in range(dims[0])]


def _alt_spellings(default):
    """Values that compare equal to `default` but have the other numeric type (int <-> float)."""
    if type(default) is int:
        return [float(default)] + ([-0.0] if default == 0 else [])
    if type(default) is float and default == int(default):
        return [int(default)]
    return []


def _nest_case(dims, nest, default, **kw):
    case = {"kind": "nest", "dims": dims, "nest": nest, "default": default}
    case.update(kw)
    # (Tensor(..., default=0.0) kept the int 0 as its leaf default until repository fix 5342642: key
    # `uncompress:nest:default-retyped`)
    return case


def _mask_nest(dims, mask, default, salt=0, zrep="same"):
    """zrep: how the default entries are spelled - "same" (the default value itself), "other" (equal value of
    the other numeric type), "mixed" (every second default entry "other")."""
    n = 1
    for e in dims:
        n *= e
    alts = _alt_spellings(default) if zrep != "same" else []
    flat = []
    nz = 0
    for i in range(n):
        if mask >> i & 1:
            v = VALS[(i + salt) % len(VALS)]
            if v == default:
                v = 9
            flat.append(v)
        else:
            if alts and (zrep == "other" or nz % 2 == 0):
                flat.append(alts[0])
            else:
                flat.append(default)
            nz += 1
    return _nest_from_flat(dims, flat)


def generate(rng, tier, shard, nshards, mon):
    maxprod = 6 if tier == "quick" else 10
    idx = 0
    for dims in _dims_upto(maxprod):
        n = 1
        for e in dims:
            n *= e
        for mask in range(1 << n):
            if idx % nshards == shard:
                default = DEFAULTS_SYS[(idx // nshards) % len(DEFAULTS_SYS)]
                yield _nest_case(dims, _mask_nest(dims, mask, default, idx), default, sys=True)
            idx += 1
    mon.exhaustive[f"nests-2state-entries<={maxprod}"] = True
    # the same sweep with the default entries spelled in the other numeric type (needs >= 1 default entry)
    idx = 0
    for dims in _dims_upto(maxprod):
        n = 1
        for e in dims:
            n *= e
        for mask in range((1 << n) - 1):
            if idx % nshards == shard:
                k = idx // nshards
                default = DEFAULTS_ALT[k % len(DEFAULTS_ALT)]
                zrep = "other" if (k // len(DEFAULTS_ALT)) % 3 != 2 else "mixed"
                yield _nest_case(dims, _mask_nest(dims, mask, default, idx, zrep), default, sys=True)
            idx += 1
    mon.exhaustive[f"nests-2state-other-typed-defaults-entries<={maxprod}"] = True
    # systematic YAML sweep: every 2-state nest with <= 4 entries, plain and (depth >= 2) flattened
    idx = 0
    for dims in _dims_upto(4):
        n = 1
        for e in dims:
            n *= e
        for mask in range(1 << n):
            variants = [[]] + ([[["flatten", 0, 1, "tuple"]]] if len(dims) >= 2 else [])
            for tr in variants:
                if idx % nshards == shard:
                    yield {"kind": "yaml", "dims": dims, "nest": _mask_nest(dims, mask, 0, idx),
                           "rank_ids": ID_POOLS[idx % len(ID_POOLS)][:len(dims)], "name": NAMES[idx % len(NAMES)],
                           "transforms": tr, "sys": True}
                idx += 1
    mon.exhaustive["yaml-2state-entries<=4"] = True
    for i, v in enumerate([0, 1, -1, 0.5, 7, -2.5, 10 ** 12, 1e-05]):
        if i % nshards == shard:
            yield {"kind": "nest0", "value": v}
            yield {"kind": "yaml0", "value": v, "name": NAMES[(i + 1) % len(NAMES)]}
    scale = 1 if tier == "quick" else 12
    for _ in range(3200 * scale // nshards):
        yield _rand_nest_case(rng)
    for _ in range(2400 * scale // nshards):
        yield _rand_yaml_case(rng)
    for _ in range(2400 * scale // nshards):
        yield _rand_random_case(rng)
    # the same seed in another interpreter process (another string-hash salt): every shard asks for a few such rebuilds
    for j in range(2 * scale):
        c = _rand_random_case(rng)
        c["seed"] = XPROC_SEEDS[(shard + j) % len(XPROC_SEEDS)]
        c["xproc"] = 1 + (shard * 7 + j) % 1000
        yield c


def _rand_dims(rng, maxdepth=4, maxext=4, maxprod=64):
    while True:
        dims = [rng.randint(1, maxext) for _ in range(rng.randint(1, maxdepth))]
        p = 1
        for e in dims:
            p *= e
        if p <= maxprod:
            return dims


def _fill(rng, dims, density, default, vals, zalt=0.0):
    """zalt: probability that a default entry is spelled in the other numeric type (0.0 for default 0, ...)."""
    if len(dims) == 1:
        alts = _alt_spellings(default) if zalt else []
        out = []
        for _ in range(dims[0]):
            v = rng.choice(vals) if rng.random() < density else default
            if v == default:
                v = rng.choice(alts) if alts and rng.random() < zalt else default
            out.append(v)
        return out
    # whole all-default rows are interesting (squeezed sub-fibers): lower the density for some rows
    return [_fill(rng, dims[1:], density * (0.0 if rng.random() < 0.15 else 1.0), default, vals, zalt)
            for _ in range(dims[0])]


def _rand_nest_case(rng):
    if rng.random() < 0.02:
        return {"kind": "nest0", "value": rng.choice([0, 1, -1, 0.5, 7, 3])}
    dims = _rand_dims(rng)
    default = rng.choice([0, 0, 0, 7, -1, 0.5, None, 1, 0.0, -1.0])
    dens = rng.choice([0.0, 0.1, 0.3, 0.6, 0.9, 1.0])
    vals = [0, 1, 2, -1, 0.5, 3]
    zalt = rng.choice([0.0, 0.0, 0.0, 0.5, 1.0])
    return _nest_case(dims, _fill(rng, dims, dens, default, vals, zalt), default)


def _rand_transforms(rng, depth):
    """0..2 rank transforms, described by rank *positions* so that they stay legal after each other."""
    out = []
    d = depth
    for _ in range(rng.choice([0, 1, 1, 1, 2])):
        kinds = ["split"]
        if d >= 2:
            kinds += ["swizzle", "swap", "flatten", "flatten", "flatten", "flatten+unflatten"]
        k = rng.choice(kinds)
        if k == "split":
            out.append(["split", rng.randrange(d), rng.randint(1, 3)])
            d += 1
        elif k == "swizzle":
            perm = list(range(d))
            rng.shuffle(perm)
            out.append(["swizzle", perm])
        elif k == "swap":
            out.append(["swap", rng.randrange(d - 1)])
        else:
            depth_ = rng.randrange(d - 1)
            levels = rng.randint(1, d - 1 - depth_)
            style = rng.choice(["tuple", "tuple", "pair", "linear"])
            if k == "flatten":
                out.append(["flatten", depth_, levels, style])
                d -= levels
                break           # ranks with list ids / tuple coordinates are not transformed further
            out.append(["flatten+unflatten", depth_, levels])
    return out


def _rand_yaml_case(rng):
    r = rng.random()
    name = rng.choice(NAMES)
    if r < 0.06:
        return {"kind": "yaml0", "value": rng.choice(YAML_VALS + [0]), "name": name}
    if r < 0.22:
        # trees with explicit defaults / empty sub-fibers (built through the public constructors)
        depth = rng.randint(1, 3)
        ext = [rng.randint(1, 4) for _ in range(depth)]
        ts = gen.rand_tree_spec(rng, ext, 0.6, 0.5, 0, YAML_VALS)
        return {"kind": "yamlspec", "spec": ts, "rank_ids": rng.choice(ID_POOLS)[:depth],
                "shape": ext if rng.random() < 0.5 else None, "name": name}
    dims = _rand_dims(rng, maxprod=48)
    dens = rng.choice([0.0, 0.2, 0.5, 0.8, 1.0])
    return {"kind": "yaml", "dims": dims, "nest": _fill(rng, dims, dens, 0, YAML_VALS),
            "rank_ids": rng.choice(ID_POOLS)[:len(dims)], "name": name,
            "transforms": _rand_transforms(rng, len(dims))}


def _rand_random_case(rng):
    depth = rng.randint(1, 4)
    shape = [rng.randint(1, 5) for _ in range(depth)]
    default = rng.choice([0, 0, 0, 0, 3, 100, -1, None])
    r = rng.random()
    if r < 0.35:
        density = rng.choice([1, 1.0]) if rng.random() < 0.5 else [rng.choice([1, 1.0]) for _ in shape]
    elif r < 0.65 or default != 0:
        leaf = rng.choice([0.0, 0.2, 0.5, 0.8, 1.0])
        density = leaf if rng.random() < 0.5 else [1.0] * (depth - 1) + [leaf]
    else:
        density = [rng.choice([0.3, 0.6, 1.0]) for _ in shape]
    return {"kind": "random", "shape": shape, "density": density, "interval": rng.choice([1, 2, 5, 10, 10, 1000]),
            "seed": rng.choice(SEEDS) if rng.random() < 0.6 else rng.randint(-10 ** 6, 10 ** 6),
            "default": default, "via": rng.choice(["fiber", "tensor"]),
            "pre": [rng.randint(0, 10 ** 6), rng.randint(0, 5), rng.randint(0, 10 ** 6), rng.randint(1, 7)],
            "name": rng.choice(NAMES)}


# ------------------------------------------------------------------------------------------
# raw observers / reference helpers
# ------------------------------------------------------------------------------------------
def _typed(v):
    return (type(v).__name__, v)


def _walk(f, prefix, stored, empties, level=0):
    """stored: {point: raw unboxed leaf}; empties: points (prefixes) of empty fibers below the root."""
    if level > 0 and len(f.coords) == 0:
        empties.append(prefix)
    for c, p in zip(f.coords, f.payloads):
        c = _coord(c)
        if isinstance(p, Fiber):
            _walk(p, prefix + (c,), stored, empties, level + 1)
        else:
            stored[prefix + (c,)] = unbox(p)


def _coord(c):
    """Hashable image of a stored coordinate that keeps its kind visible: ints and (nested) tuples are
    themselves, anything else (e.g. a list where a tuple was stored) becomes a tagged value that can never
    equal a legal coordinate."""
    if isinstance(c, tuple):
        return tuple(_coord(e) for e in c)
    if isinstance(c, list):
        return ("<list>",) + tuple(_coord(e) for e in c)
    if type(c) in (int, str):
        return c
    try:
        hash(c)
        return (f"<{type(c).__name__}>", c)
    except TypeError:
        return (f"<{type(c).__name__}>", repr(c))


def _tree_content(root, default):
    """-> (typed content of non-default leaves, points of explicit defaults, points of empty sub-fibers)"""
    stored, empties = {}, []
    if isinstance(root, Fiber):
        _walk(root, (), stored, empties)
    else:
        stored[()] = unbox(root)
    content, explicit = {}, []
    for pt, v in stored.items():
        if isinstance(v, Payload) or v != default:
            content[pt] = _typed(v)
        else:
            explicit.append(pt)
    return content, explicit, empties


def _nest_typed_content(nest, default, prefix=()):
    out = {}
    for i, e in enumerate(nest):
        if isinstance(e, list):
            out.update(_nest_typed_content(e, default, prefix + (i,)))
        elif e != default:
            out[prefix + (i,)] = _typed(e)
    return out


def _alt_typed_defaults(nest, default, prefix=()):
    """Points of the nest whose entry equals the default but is not of the default's type."""
    out = []
    for i, e in enumerate(nest):
        if isinstance(e, list):
            out += _alt_typed_defaults(e, default, prefix + (i,))
        elif e == default and type(e) is not type(default):
            out.append(prefix + (i,))
    return out


def _retyped_only(got, nest, default):
    """True when `got` is the nest except that default entries came back value-equal but in the other numeric
    type than both the entry and the default (e.g. int 0 for a 0.0 entry under default 0.0)."""
    if isinstance(nest, list):
        return type(got) is list and len(got) == len(nest) and all(_retyped_only(g, e, default) for g, e in zip(got, nest))
    if nest != default:
        return _same(got, nest)
    return type(got) in (int, float) and got == default


def _same_nest(got, nest, default):
    """`got` is the nest: type-strict at non-default entries; at a default entry the entry itself or the
    default value (the tree does not record how the nest spelled its default)."""
    if isinstance(nest, list):
        return type(got) is list and len(got) == len(nest) and all(_same_nest(g, e, default) for g, e in zip(got, nest))
    if nest != default:
        return _same(got, nest)
    return _same(got, nest) or _same(got, default)


def _same(a, b):
    """Type-strict structural equality (1 != 1.0, a box is not its value, list != tuple)."""
    if type(a) is not type(b):
        return False
    if isinstance(a, (list, tuple)):
        return len(a) == len(b) and all(_same(x, y) for x, y in zip(a, b))
    if isinstance(a, dict):
        return set(a) == set(b) and all(_same(a[k], b[k]) for k in a)
    return a == b


def _loose(x):
    """list/tuple-insensitive image (for what reached the YAML file)."""
    if isinstance(x, (list, tuple)):
        return [_loose(e) for e in x]
    return x


def _has_tuple(x):
    if isinstance(x, tuple):
        return True
    if isinstance(x, list):
        return any(_has_tuple(e) for e in x)
    return False


def _tree_has_tuple_coords(f):
    if not isinstance(f, Fiber):
        return False
    for c, p in zip(f.coords, f.payloads):
        if isinstance(c, tuple):
            return True
        if isinstance(p, Fiber) and _tree_has_tuple_coords(p):
            return True
    return False


def _diff(a, b, n=3):
    ks = [k for k in set(a) | set(b) if a.get(k) != b.get(k)]
    ks = sorted(ks, key=repr)[:n]
    return "; ".join(f"{k}: got {a.get(k, 'absent')!r} expected {b.get(k, 'absent')!r}" for k in ks)


def _call(mon, op, fn, qual=""):
    """Run a library call; an exception on a legal input is a violation `<op>:raised:<Exc>[:qual]`."""
    try:
        return True, fn()
    except BaseException as e:      # noqa - the library calls sys.exit() on YAML errors
        if isinstance(e, KeyboardInterrupt):
            raise
        mon.violation(f"{op}:raised:{type(e).__name__}{qual}", f"{op} raised {type(e).__name__}: {str(e)[:200]}")
        return False, None


# ------------------------------------------------------------------------------------------
# run
# ------------------------------------------------------------------------------------------
def run_case(case, mon):
    kind = case["kind"]
    if kind == "nest":
        _run_nest(case, mon)
    elif kind == "nest0":
        _run_nest0(case, mon)
    elif kind in ("yaml", "yaml0", "yamlspec"):
        _run_yaml(case, mon)
    elif kind == "random":
        _run_random(case, mon)
    else:
        raise ValueError(kind)


# -- nests ---------------------------------------------------------------------------------
def _run_nest(case, mon):
    nest, dims, default = case["nest"], list(case["dims"]), case["default"]
    want = _nest_typed_content(nest, default)
    all_default = not want
    if all_default:
        mon.count("all_default_nests")
    else:
        mon.nontrivial()
    alt = _alt_typed_defaults(nest, default)
    if alt:
        mon.count("mixed_type_default_nests")
        mon.count("mixed_type_default_entries", len(alt))
        if all_default:
            mon.count("mixed_type_all_default_nests")
    ids = gen.rank_ids_for(len(dims))
    builders = [
        ("Fiber.fromUncompressed", lambda: Fiber.fromUncompressed(_copy(nest), default=default), None),
        ("Tensor.fromUncompressed", lambda: Tensor.fromUncompressed(rank_ids=ids, root=_copy(nest), default=default), False),
        ("Tensor.fromUncompressed[shape]", lambda: Tensor.fromUncompressed(rank_ids=ids, root=_copy(nest), shape=list(dims),
                                                                           default=default), True),
    ]
    if case.get("fiber_only"):
        builders = builders[:1]
        mon.count("float_zero_default_fiber_only")
    for op, build, _ in builders:
        ok, obj = _call(mon, op, build)
        if not ok:
            continue
        mon.count("nests_built")
        is_tensor = isinstance(obj, Tensor)
        if is_tensor:
            root = obj.__dict__.get("_root")
            if not mon.check(isinstance(root, Fiber), f"{op}:root-not-fiber", f"{op}: root is {type(root).__name__}"):
                continue
        else:
            root = obj
            if not mon.check(isinstance(root, Fiber), f"{op}:result-not-fiber", f"{op} returned {type(obj).__name__}"):
                continue
        probs = WF(root)
        mon.check(not probs, f"{op}:malformed:" + "+".join(sorted({wf_kind(p) for p in probs})),
                  f"{op}({nest}, default={default!r}) built a malformed tree: {probs[:2]}")
        got, explicit, empties = _tree_content(root, default)
        mon.check(got == want, f"{op}:content",
                  f"{op}({nest}, default={default!r}): stored content differs from the nest's non-default entries: "
                  + _diff(got, want))
        mon.check(not explicit, f"{op}:explicit-default-stored",
                  f"{op}({nest}, default={default!r}) stores explicit default leaves at {explicit[:3]}")
        mon.check(not empties, f"{op}:empty-subfiber-stored",
                  f"{op}({nest}, default={default!r}) stores empty sub-fibers at {empties[:3]}")
        # shape
        if is_tensor:
            ok, shp = _call(mon, f"{op}:getShape", lambda: obj.getShape())
            if ok:
                mon.check(_same(_loose(shp), dims), f"{op}:shape",
                          f"{op}({nest}): getShape() = {shp!r}, nest dimensions {dims}")
        else:
            ok, shp = _call(mon, f"{op}:getShape", lambda: obj.getShape(all_ranks=True))
            if ok:
                wanted = dims[:1] if all_default else dims
                mon.check(_same(_loose(shp), wanted), f"{op}:shape",
                          f"{op}({nest}): getShape() = {shp!r}, nest dimensions {wanted}")
        # uncompress
        qual = ":all-default" if all_default else ""
        ok, un = _call(mon, "uncompress", lambda: root.uncompress(shape=list(dims)), qual)
        mon.count("uncompress_calls")
        if ok:
            mon.check(_same_nest(un, nest, default), "uncompress:nest" + _rt(un, nest, default) + qual,
                      f"{op}({nest}, default={default!r}).uncompress(shape={dims}) returned {un!r}")
        if is_tensor or not all_default or len(dims) == 1:
            ok, un = _call(mon, "uncompress", lambda: root.uncompress(), qual)
            mon.count("uncompress_calls")
            if ok:
                mon.check(_same_nest(un, nest, default), "uncompress[noshape]:nest" + _rt(un, nest, default) + qual,
                          f"{op}({nest}, default={default!r}).uncompress() returned {un!r}")
        mon.check(_tree_content(root, default) == (got, explicit, empties), "uncompress:changed-tree",
                  f"uncompress() changed the stored tree built from {nest}")
    mon.state(("nest", dims, sorted((list(k), v[0], v[1]) for k, v in want.items()), repr(default),
               sorted(list(k) for k in alt)))


def _rt(un, nest, default):
    return ":default-retyped" if _retyped_only(un, nest, default) else ""


def _copy(nest):
    return [_copy(e) if isinstance(e, list) else e for e in nest]


def _run_nest0(case, mon):
    v = case["value"]
    ok, t = _call(mon, "Tensor.fromUncompressed[rank0]", lambda: Tensor.fromUncompressed(rank_ids=[], root=v))
    if not ok:
        return
    mon.count("nests_built")
    root = t.__dict__.get("_root")
    mon.check(isinstance(root, Payload) and _same(root.value, v), "Tensor.fromUncompressed[rank0]:content",
              f"rank-0 tensor from {v!r} holds {root!r}")
    ok, shp = _call(mon, "Tensor.fromUncompressed[rank0]:getShape", lambda: t.getShape())
    if ok:
        mon.check(shp == [], "Tensor.fromUncompressed[rank0]:shape", f"rank-0 tensor shape {shp!r}")
    mon.check(list(t.getRankIds()) == [], "Tensor.fromUncompressed[rank0]:rank-ids", f"rank ids {t.getRankIds()!r}")
    if v != 0:
        mon.nontrivial()
    mon.state(("nest0", repr(v)))


# -- YAML / dict ---------------------------------------------------------------------------
def _apply_transforms(t, transforms):
    for tr in transforms:
        k = tr[0]
        if k == "split":
            t = t.splitUniform(tr[2], depth=tr[1])
        elif k == "swizzle":
            ids = t.getRankIds()
            t = t.swizzleRanks([ids[i] for i in tr[1]])
        elif k == "swap":
            t = t.swapRanks(depth=tr[1])
        elif k == "flatten":
            t = t.flattenRanks(depth=tr[1], levels=tr[2], coord_style=tr[3])
        elif k == "flatten+unflatten":
            t = t.flattenRanks(depth=tr[1], levels=tr[2]).unflattenRanks(depth=tr[1], levels=tr[2])
        else:
            raise ValueError(k)
    return t


def _build_yaml_subject(case, mon):
    kind = case["kind"]
    try:
        if kind == "yaml0":
            t = Tensor.fromUncompressed(rank_ids=[], root=case["value"])
            t.setName(case["name"])
            return t
        if kind == "yamlspec":
            return gen.tensor_from_spec(case["spec"], case["rank_ids"], shape=case.get("shape"), default=0,
                                        name=case["name"])
        t = Tensor.fromUncompressed(rank_ids=list(case["rank_ids"]), root=_copy(case["nest"]), name=case["name"])
    except BaseException as e:      # noqa
        if isinstance(e, KeyboardInterrupt):
            raise
        mon.count("subject_build_raised_skipped")
        return None
    try:
        return _apply_transforms(t, case.get("transforms", []))
    except BaseException as e:      # noqa
        if isinstance(e, KeyboardInterrupt):
            raise
        mon.count("transform_raised_skipped")
        return None


def _run_yaml(case, mon):
    t = _build_yaml_subject(case, mon)
    if t is None:
        return
    root = t.__dict__.get("_root")
    rank0 = not isinstance(root, Fiber)
    try:
        ids0, shape0, name0 = t.getRankIds(), t.getShape(), t.getName()
    except BaseException as e:      # noqa
        if isinstance(e, KeyboardInterrupt):
            raise
        mon.count("getter_raised_skipped")
        return
    ids0, shape0 = _deep(ids0), _deep(shape0)
    want, _, _ = _tree_content(root, 0)
    tup = _tree_has_tuple_coords(root) or _has_tuple(shape0)
    if tup:
        mon.count("tuple_coord_trees")
    if want:
        mon.nontrivial()
    tq = ":tuple-coords" if tup else ""
    r0 = ":rank0" if rank0 else ""
    tmp = tempfile.mkdtemp(prefix="fvmon-c13-")
    try:
        # ---- tensor through a real file
        path = os.path.join(tmp, "tensor.yaml")
        ok, _ = _call(mon, "Tensor.dump", lambda: t.dump(path), tq)
        if ok:
            after, _, _ = _tree_content(t.__dict__.get("_root"), 0)
            mon.check(after == want, "Tensor.dump:changed-tensor", "Tensor.dump changed the tensor's content")
            _inspect_file(mon, path, ids0, shape0, name0, r0)
            ok, t2 = _call(mon, "Tensor.fromYAMLfile", lambda: Tensor.fromYAMLfile(path), tq)
            if ok:
                mon.count("yaml_tensor_roundtrips")
                if rank0:
                    mon.count("rank0_roundtrips")
                _compare_tensor(mon, t2, ids0, shape0, name0, want, rank0, tq)
        # ---- root fiber through a real file and through the dictionary form
        if not rank0:
            fpath = os.path.join(tmp, "fiber.yaml")
            ok, _ = _call(mon, "Fiber.dump", lambda: root.dump(fpath), tq)
            if ok:
                ok, f2 = _call(mon, "Fiber.fromYAMLfile", lambda: Fiber.fromYAMLfile(fpath), tq)
                if ok:
                    mon.count("yaml_fiber_roundtrips")
                    if mon.check(isinstance(f2, Fiber), "yaml:fiber:type",
                                 f"Fiber.fromYAMLfile returned {type(f2).__name__}"):
                        got, _, _ = _tree_content(f2, 0)
                        mon.check(got == want, "yaml:fiber:content" + tq,
                                  f"fiber dump->fromYAMLfile changed the content: {_diff(got, want)}")
                        probs = WF(f2)
                        mon.check(not probs, "yaml:fiber:malformed", f"reloaded fiber malformed: {probs[:2]}")
                # the file has no field for the default: a caller who knows it hands it to fromYAMLfile(), and the reloaded
                # one-rank fiber then has that default and the same stored elements (so the same content under that default)
                if root.coords and not isinstance(root.payloads[0], Fiber):
                    for dd in (5, -1.5):
                        ok, f3 = _call(mon, "Fiber.fromYAMLfile", lambda dd=dd: Fiber.fromYAMLfile(fpath, default=dd), tq)
                        if ok and isinstance(f3, Fiber):
                            mon.count("yaml_fiber_reloads_with_default")
                            gd = unbox(f3.getDefault())
                            mon.check(type(gd) is type(dd) and gd == dd, "yaml:fiber:caller-default-dropped" + tq,
                                      f"Fiber.fromYAMLfile(path, default={dd!r}) returned a fiber whose default is {gd!r}")
                            raw0 = [(c, unbox(p_)) for c, p_ in zip(root.coords, root.payloads)]
                            raw3 = [(c, unbox(p_)) for c, p_ in zip(f3.coords, f3.payloads)]
                            mon.check(_same(raw0, raw3), "yaml:fiber:content:with-caller-default" + tq,
                                      f"fiber dump->fromYAMLfile(default={dd!r}) stores {raw3}, the dumped fiber stored {raw0}")
            _dict_roundtrip(mon, root, want, tq)
        else:
            ok, d = _call(mon, "Payload.payload2dict", lambda: Payload.payload2dict(root))
            if ok:
                mon.check(_same(d, unbox(root)), "payload2dict:value",
                          f"payload2dict({root!r}) = {d!r}")
    finally:
        shutil.rmtree(tmp, ignore_errors=True)
    mon.state(("yaml", repr(ids0), repr(shape0), sorted((repr(k), v[0], v[1]) for k, v in want.items())))


def _deep(x):
    """Detached copy of a getter result (lists copied, tuples kept)."""
    if isinstance(x, list):
        return [_deep(e) for e in x]
    return x


def _inspect_file(mon, path, ids0, shape0, name0, r0):
    """Read the file Tensor.dump wrote with PyYAML directly (never the library's loader)."""
    import yaml
    try:
        with open(path) as fh:
            y = yaml.load(fh, Loader=yaml.UnsafeLoader)
    except BaseException:           # noqa - unreadable by the harness: nothing to diagnose here
        mon.count("file_not_inspectable")
        return
    if not mon.check(isinstance(y, dict) and isinstance(y.get("tensor"), dict), "Tensor.dump:file:no-tensor-mapping",
                     "file written by Tensor.dump has no top-level 'tensor' mapping"):
        return
    yt = y["tensor"]
    mon.count("files_inspected")
    mon.check("name" in yt and _same(yt["name"], name0), "Tensor.dump:file:name" + r0,
              f"Tensor.dump wrote name {yt.get('name', '<missing>')!r} for a tensor named {name0!r}")
    mon.check("rank_ids" in yt and _same(_loose(yt["rank_ids"]), _loose(ids0)), "Tensor.dump:file:rank-ids" + r0,
              f"Tensor.dump wrote rank_ids {yt.get('rank_ids', '<missing>')!r} for rank ids {ids0!r}")
    mon.check("shape" in yt and _same(_loose(yt["shape"]), _loose(shape0)), "Tensor.dump:file:shape" + r0,
              f"Tensor.dump wrote shape {yt.get('shape', '<missing>')!r} for shape {shape0!r}")
    mon.check("root" in yt, "Tensor.dump:file:root" + r0, "Tensor.dump wrote no root")


def _compare_tensor(mon, t2, ids0, shape0, name0, want, rank0, tq):
    r0 = ":rank0" if rank0 else ""
    if not mon.check(isinstance(t2, Tensor), "yaml:tensor:type", f"Tensor.fromYAMLfile returned {type(t2).__name__}"):
        return
    ok, ids2 = _call(mon, "yaml:tensor:getRankIds", lambda: t2.getRankIds())
    if ok:
        mon.check(_same(ids2, ids0), "yaml:tensor:rank-ids" + r0 + tq,
                  f"rank ids after dump->fromYAMLfile {ids2!r}, before {ids0!r}")
    ok, shape2 = _call(mon, "yaml:tensor:getShape", lambda: t2.getShape())
    if ok:
        mon.check(_same(shape2, shape0), "yaml:tensor:shape" + r0 + tq,
                  f"shape after dump->fromYAMLfile {shape2!r}, before {shape0!r}")
    ok, name2 = _call(mon, "yaml:tensor:getName", lambda: t2.getName())
    if ok:
        mon.check(_same(name2, name0), "yaml:tensor:name" + r0,
                  f"name after dump->fromYAMLfile {name2!r}, before {name0!r}")
    root2 = t2.__dict__.get("_root")
    if rank0:
        if not mon.check(isinstance(root2, Payload), "yaml:tensor:root-kind:rank0",
                         f"rank-0 tensor reloaded with root {type(root2).__name__}"):
            return
    else:
        if not mon.check(isinstance(root2, Fiber), "yaml:tensor:root-kind",
                         f"tensor reloaded with root {type(root2).__name__}"):
            return
        probs = WF(root2)
        mon.check(not probs, "yaml:tensor:malformed", f"reloaded tensor malformed: {probs[:2]}")
    got, _, _ = _tree_content(root2, 0)
    mon.check(got == want, "yaml:tensor:content" + r0 + tq,
              f"content after dump->fromYAMLfile differs: {_diff(got, want)}")


def _dict_roundtrip(mon, root, want, tq):
    ok, d = _call(mon, "fiber2dict", lambda: root.fiber2dict(), tq)
    if not ok:
        return
    after, _, _ = _tree_content(root, 0)
    mon.check(after == want, "fiber2dict:changed-fiber", "fiber2dict changed the fiber's content")
    mon.check(isinstance(d, dict), "fiber2dict:not-a-dict", f"fiber2dict returned {type(d).__name__}")
    ok, f3 = _call(mon, "dict2fiber", lambda: Fiber.dict2fiber(d), tq)
    if not ok:
        return
    mon.count("dict_roundtrips")
    if not mon.check(isinstance(f3, Fiber), "dict:fiber:type", f"dict2fiber(fiber2dict(f)) is {type(f3).__name__}"):
        return
    got, _, _ = _tree_content(f3, 0)
    mon.check(got == want, "dict:fiber:content" + tq, f"fiber2dict->dict2fiber changed the content: {_diff(got, want)}")
    probs = WF(f3)
    mon.check(not probs, "dict:fiber:malformed", f"dict2fiber result malformed: {probs[:2]}")
    # leaves: payload2dict of a box is its value, of a plain value the value
    n = 0
    f = root
    while f.payloads and isinstance(f.payloads[0], Fiber):
        f = f.payloads[0]
    for p in f.payloads[:3]:
        if isinstance(p, Payload) and not isinstance(p.value, (Fiber, Payload)):
            ok, v = _call(mon, "Payload.payload2dict", lambda: Payload.payload2dict(p))
            if ok:
                mon.check(_same(v, p.value), "payload2dict:value", f"payload2dict({p!r}) = {v!r}")
            ok, v = _call(mon, "Payload.payload2dict", lambda: Payload.payload2dict(p.value))
            if ok:
                mon.check(_same(v, p.value), "payload2dict:plain-value", f"payload2dict({p.value!r}) = {v!r}")
            n += 1
    mon.count("payload2dict_leaves", n)


# -- fromRandom ------------------------------------------------------------------------------
def _run_random(case, mon):
    shape, density, interval = list(case["shape"]), case["density"], case["interval"]
    seed, default, via = case["seed"], case["default"], case["via"]
    s1, k1, s2, k2 = case["pre"]
    ids = gen.rank_ids_for(len(shape))
    op = "Fiber.fromRandom" if via == "fiber" else "Tensor.fromRandom"

    def build():
        dens = list(density) if isinstance(density, list) else density
        if via == "fiber":
            return Fiber.fromRandom(list(shape), dens, interval, seed=seed, default=default)
        return Tensor.fromRandom(rank_ids=ids, shape=list(shape), density=dens, interval=interval, seed=seed,
                                 name=case.get("name", ""), default=default)

    results = []
    for s, k in ((s1, k1), (s2, k2)):
        _global_random.seed(s)
        for _ in range(k):
            _global_random.random()
        ok, obj = _call(mon, op, build)
        if not ok:
            return
        root = obj.__dict__.get("_root") if isinstance(obj, Tensor) else obj
        if not mon.check(isinstance(root, Fiber), f"{op}:root-not-fiber", f"{op} produced root {type(root).__name__}"):
            return
        results.append(root)
    mon.count("random_pairs")
    a, b = results
    sa, sb = spec_of(a), spec_of(b)
    mon.check(_same(sa, sb), f"{op}:not-reproducible",
              f"{op}(shape={shape}, density={density}, interval={interval}, seed={seed!r}, default={default!r}) "
              f"gave {sa} and then {sb} from a different global RNG state")
    if case.get("xproc") is not None:
        import json as _json
        import os as _os
        import subprocess as _sp
        from fvmon import env as _env
        e = dict(_os.environ)
        e["PYTHONHASHSEED"] = str(case["xproc"])
        arg = dict(case)
        arg["ids"] = ids
        try:
            pr = _sp.run([_env.PY, "-B", "-c", _XPROC_SCRIPT, _env.repo_path(), _env.VERIF, _json.dumps(arg)],
                         capture_output=True, text=True, timeout=300, env=e)
            line = [ln for ln in pr.stdout.splitlines() if ln.startswith("SPEC=")]
        except _sp.TimeoutExpired:
            line = None
        if not line:
            mon.count("xproc_rebuilds_inconclusive")      # the child did not answer (loaded machine): no verdict from this case
        else:
            sc = _json.loads(line[0][5:])
            mon.count("xproc_rebuilds")
            mon.check(_same(_json.loads(_json.dumps(sa)), sc), f"{op}:not-reproducible:across-processes",
                      f"{op}(shape={shape}, density={density}, interval={interval}, seed={seed!r}, default={default!r}) gave {sa} here and "
                      f"{sc} in another interpreter process (PYTHONHASHSEED={case['xproc']})")
    stored_any = False
    for root in results:
        probs = WF(root)
        mon.check(not probs, f"{op}:malformed:" + "+".join(sorted({wf_kind(p) for p in probs})),
                  f"{op} built a malformed tree: {probs[:2]}")
        stored, empties = {}, []
        _walk(root, (), stored, empties)
        stored_any = stored_any or bool(stored)
        bad = [pt for pt in list(stored) + empties
               if len(pt) > len(shape) or any(type(c) is not int or not (0 <= c < shape[i]) for i, c in enumerate(pt))]
        mon.check(not bad, f"{op}:coord-outside-shape",
                  f"{op}(shape={shape}, density={density}, seed={seed!r}) holds coordinates outside the shape: {bad[:3]}")
        short = [pt for pt in stored if len(pt) != len(shape)]
        mon.check(not short, f"{op}:leaf-depth", f"{op}(shape={shape}) has leaves at depth {sorted({len(p) for p in short})}")
        dl = density if isinstance(density, list) else [density]
        if all(x == 1 for x in dl):
            missing = []
            n = 0
            for pt in itertools.product(*[range(e) for e in shape]):
                v = stored.get(pt, default)
                n += 1
                if not (type(v) is int and 1 <= v <= interval):
                    missing.append((pt, v))
            mon.count("density1_points_read", n)
            mon.check(not missing, f"{op}:density1-not-full",
                      f"{op}(shape={shape}, density={density}, interval={interval}, seed={seed!r}, default={default!r}): "
                      f"points not reading back a value in [1, {interval}]: {missing[:3]}")
    if stored_any:
        mon.nontrivial()
    mon.state(("random", sa))
