"""C18 - format footprints add up from the tree exactly.

Monitor: every bit count returned by `Format.getRoot / getFiber / getRank / getTensor / getSubTree` and every
default-filled specification field read back through the getters is compared with a value recomputed by an
independent recursive walk over the tensor's raw `coords` / `payloads` lists and the *original* (unfilled)
specification.  In addition an icontract postcondition sits on `Format._getFiberFootprint` during the whole
workload and recomputes, for every single call the library makes on itself, the fiber footprint from the
fiber's raw lists (its evaluations are counted; zero evaluations make the run inconclusive).
"""
import copy
import itertools

from fibertree import Fiber, Payload, Tensor
from fibertree.model import Format

from fvmon import gen
from fvmon.observe import unbox

SPEC = {
    "anchors": ["fibertree.model.format:Format._checkFillSpec", "fibertree.model.format:Format._getFiberFootprint", "fibertree.model.format:Format.getRank", "fibertree.model.format:Format.getTensor", "fibertree.model.format:Format.getSubTree", "fibertree.model.format:Format.getFiber"],
    "rule": ("cases = (i) every depth-2 tree over a 2x2 grid whose rows are absent / stored-empty / stored with 3-state "
             "leaves (absent / explicit default / value), under all 4 format assignments and two width tables, and every "
             "3-state depth-1 fiber over 3 coordinates under both formats; (ii) for three fixed tensors every subset of "
             "omitted per-rank fields x every variant of the root entry, and omitted rank entries; (iii) random tensors "
             "of depth 1-3 (canonical, dirty with explicit defaults / empty sub-fibers / all-default sub-fibers, empty, "
             "built by fromFiber / fromUncompressed / Tensor() / a populate (<<) loop nest into an output declared larger "
             "than the operand / one partition of a split fiber given a declared shape, default 0 or 7, own rank formats "
             "C/U) x random specifications (C/U per rank, widths 0-64, layout, omitted fields / rank entries / root), 30% "
             "of them with Fiber.setActive on random stored fibers and 40% with a history of 1-3 read-only / "
             "value-returning public operations performed on the tensor before the Format is built (fromFiber / setRoot "
             "snapshots of the owned root or of a sub-fiber, deepcopy, Fiber.copy, the four splits, swizzleRanks, "
             "swapRanks, flattenRanks, ==, | & ^ -, uncompress, nested iteration, point look-ups, countValues / repr / "
             "getShape ...); (iv) every grid tree of (i) x each single history operation x formats CU/UC/UU; (v) every "
             "grid tree x explicit active ranges on root / rows, x populate into a 3x3 output (empty or pre-filled), x "
             "partitions of a split, x a populate loop nest LEFT EARLY (break out of the row loop at the 1st / 2nd row "
             "before or after the row was filled, break out of the leaf loop, an exception out of the whole nest), under "
             "formats CU/UC/UU; half of the random populate cases of (iii) also leave every loop with probability "
             "0.05-0.25 per iteration before / after the body's work (break, exception, or both); (vi) every grid tree "
             "handed over WITHOUT a declared shape (fromFiber / Tensor() + setRoot without a shape argument) under "
             "formats CU/UC/UU, and x each single history operation under CU/UU; 25% of the random finished trees of (iii) "
             "(fromFiber or Tensor() + setRoot), of the uncompressed nests and 30% of the empty tensors carry no declared "
             "shape either, with C/U drawn freely per rank.  The oracle always walks the raw tree as it is when the "
             "Format is built and uses the declared shape or, when none was declared, the shape the raw tree itself "
             "defines per rank (largest coordinate stored in any fiber of the rank + 1; the list lengths of a nest); (vii) "
             "LATER USES of a model: every grid tree (declared 3x3, fromFiber / setRoot) x CU/UC/UU x one in-place update "
             "after the first round of queries (Tensor.getPayloadRef(point) <<= v at 6 points: growing an existing row, a "
             "new row, an explicit default; Tensor.setRoot on the SAME tensor with a new free root that re-uses the "
             "tensor's own row fibers: all / swapped / dropped / moved / plus a new free row / empty), 30% of the random "
             "declared-shape cases with 1-3 such updates; then the SAME Format object and a fresh Format are asked again "
             "(getRank of every rank, getTensor, getFiber(), getSubTree()) against the raw tree as it is now; for the "
             "three fixed tensors every subset of omitted rank entries x each rank, and 15% of the random cases: the "
             "specification the first Format filled in is taken back, 1-4 fields of ONE rank's entry are set, and it is "
             "given to a second Format (all getters of every rank + the sums; every other entry must be unchanged); (viii) the "
             "later use of (vii) on tensors WITHOUT a declared shape: every grid tree (fromFiber / setRoot, no shape) x "
             "CU/UC/UU x one Tensor.getPayloadRef(point) <<= v at 11 points lying inside, exactly at (coordinate == shape: "
             "one past the largest coordinate stored so far) or beyond the shape the tree defined so far in either rank, "
             "and 40% of the random undeclared finished trees with 1-3 such writes (coordinates 0..extent+2); the same and "
             "a fresh Format are asked again with the shape of every rank taken from the present raw tree.  Per case: "
             "getRoot, getTensor, getRank of every rank (before and after the other queries), getFiber and getSubTree at "
             "every stored proper prefix and at absent prefixes, all spec getters.  Non-trivial = the tree stores at "
             "least one element and at least one rank contributes a positive number of bits; distinct = distinct case."),
    "shards": {"quick": 16, "thorough": 16},
    "min_counts": {"quick": {"evaluations": 3000, "oracle_evals": 60000, "contract_evals": 60000,
                             "getFiber_checked": 8000, "getSubTree_checked": 8000, "getRank_checked": 8000,
                             "getTensor_checked": 3000, "defaults_checked": 20000, "dirty_cases": 500,
                             "u_absent_children": 2000, "omitted_fields": 5000,
                             "history_cases": 3000, "history_ops": 4000, "history_contentless_subfibers_in_u_rank": 500,
                             "active_set": 3000, "fibers_with_narrowed_active_range": 3000,
                             "u_children_outside_active": 2000, "populate_cases": 300, "partition_cases": 200,
                             "populate_left_early_cases": 800, "populate_loops_left_at_new_empty_subfiber": 250,
                             "populate_loops_left_after_element_filled": 300,
                             "undeclared_shape_cases": 4000, "undeclared_shape_history_cases": 2500,
                             "undeclared_u_fibers_shorter_than_rank": 1000,
                             "update_cases": 3000, "update_set_grew_existing_fiber": 500, "update_reroots": 1500,
                             "update_reroot_reused_own_subfibers": 1500, "requery_checked": 30000,
                             "respec_cases": 800, "respec_with_omitted_other_rank": 80, "respec_fields_checked": 10000,
                             "update_undeclared_cases": 2500, "update_undeclared_coord_created_at_shape": 1200,
                             "update_undeclared_coord_created_beyond_shape": 1200},
                   "thorough": {"evaluations": 60000, "oracle_evals": 1000000, "contract_evals": 1000000,
                                "getFiber_checked": 100000, "getSubTree_checked": 100000, "dirty_cases": 10000,
                                "u_absent_children": 40000, "omitted_fields": 100000,
                                "history_cases": 40000, "history_ops": 60000,
                                "history_contentless_subfibers_in_u_rank": 8000, "active_set": 40000,
                                "fibers_with_narrowed_active_range": 40000, "u_children_outside_active": 30000,
                                "populate_cases": 6000, "partition_cases": 4000, "populate_left_early_cases": 4000,
                                "populate_loops_left_at_new_empty_subfiber": 1200,
                                "populate_loops_left_after_element_filled": 1500,
                                "undeclared_shape_cases": 40000, "undeclared_shape_history_cases": 15000,
                                "undeclared_u_fibers_shorter_than_rank": 10000,
                                "update_cases": 3000, "update_set_grew_existing_fiber": 500, "update_reroots": 1500,
                                "update_reroot_reused_own_subfibers": 1500, "requery_checked": 30000,
                                "respec_cases": 800, "respec_with_omitted_other_rank": 80,
                                "respec_fields_checked": 10000, "update_undeclared_cases": 2500,
                                "update_undeclared_coord_created_at_shape": 1200,
                                "update_undeclared_coord_created_beyond_shape": 1200}},
    "assumptions": [
        "occupancy of a compressed fiber = number of stored elements (len of its raw coordinate list), explicit "
        "defaults and stored empty sub-fibers included",
        "'shape' of a fiber = the shape of its rank, one number for every fiber of the rank (stored, or absent and "
        "counted as empty): the shape declared at construction (every stored coordinate below it) or, for a tensor "
        "built without a declared shape from a finished tree (fromFiber / Tensor() + setRoot without shape), one more "
        "than the largest coordinate stored in any fiber of that rank (explicit defaults and empty sub-fibers are "
        "stored elements; 0 when no fiber of the rank stores a coordinate) - which is also what Tensor.getShape() "
        "documents for such a tensor; for fromUncompressed without shape the list lengths of the nest.  A tensor "
        "without a declared shape is not modified between construction and the first Format; afterwards it is only "
        "grown by single-element writes (Tensor.getPayloadRef + <<=, which never remove a coordinate), and 'the largest "
        "coordinate stored in any fiber of the rank + 1' is then read off the raw tree as it is after the writes - a "
        "stored coordinate is never outside the shape of its rank; "
        "an output declared without shape and grown by a populate is generated only behind _POPULATE_UNDECLARED "
        "(keys ...:undeclared-populated), see the note there",
        "getSubTree / getFiber with a full-depth point (a leaf, not a fiber) are outside the statement and not called",
        "getFiber / getSubTree at an absent coordinate are judged (as an empty fiber) only when every rank in which the "
        "path leaves the stored tree is uncompressed in the specification; below a compressed rank only the "
        "per-fiber postcondition is evaluated",
        "a stored element of a compressed rank is 'non-empty' iff its sub-tree holds at least one leaf different from "
        "the tensor's default",
        "specification values are well-formed (ints, 'C'/'U', 'contiguous'/'interleaved'); rejected specs are not judged",
        "layout does not enter any footprint",
        "a fiber's active range (Fiber.setActive, left behind by a populate, carried by a split partition) does not "
        "enter any footprint: 'shape' in the statement is the declared shape of the rank; explicit active ranges are "
        "kept inside [0, shape]",
        "the body of a populate (<<) loop nest may leave any of its loops early (break, or an exception caught outside "
        "the nest) before or after it worked on the current element; the generators are closed before the Format is "
        "built and the expected footprints are computed from the raw tree the abandoned nest left behind, whatever it "
        "is (an element created for the abandoned iteration may be kept or dropped - the statement only asks that "
        "the footprints describe exactly the fibers of that tree)",
        "a Format describes the tensor as it is when a footprint is asked for, not as it was when the Format was built: "
        "after an in-place update through the public interface (getPayloadRef + <<= inside the declared shape, setRoot on "
        "the same tensor with a free root re-using its own sub-fibers) the same Format object and a fresh one must both "
        "give the sums of the present raw tree; tensors with a declared shape get both kinds of update, finished trees "
        "without a declared shape (fromFiber / setRoot) only the element writes; an update that raises is not judged here",
        "the specification dictionary a Format has filled in (Format.spec) may be taken back by the caller, adjusted in "
        "ONE rank's entry and given to another Format: the entries of the other ranks (given or defaulted) keep the "
        "values the statement's defaulting gave them",
        "operations performed on the tensor before the Format is built (the history) are public and read-only / "
        "value-returning; their results are discarded, one that raises is not judged here, and the expected footprints "
        "are computed from the raw tree as it is afterwards - only the library's own view of that tree (rank fiber "
        "lists, owners, rank shapes seen from the fibers) is what the history can spoil",
    ],
}

INT_FIELDS = ["rhbits", "fhbits", "cbits", "pbits"]
RANK_FIELDS = INT_FIELDS + ["format", "layout"]
# width tables in which no two fields agree and no small linear combination collides
PRIMES_A = {"root": {"hbits": 1009, "pbits": 2003},
            0: {"rhbits": 101, "fhbits": 7, "cbits": 3, "pbits": 5},
            1: {"rhbits": 211, "fhbits": 17, "cbits": 11, "pbits": 13},
            2: {"rhbits": 307, "fhbits": 29, "cbits": 19, "pbits": 23}}
PRIMES_B = {"root": {"hbits": 64, "pbits": 0},
            0: {"rhbits": 0, "fhbits": 32, "cbits": 0, "pbits": 8},
            1: {"rhbits": 128, "fhbits": 0, "cbits": 16, "pbits": 0},
            2: {"rhbits": 1, "fhbits": 2, "cbits": 4, "pbits": 64}}


# ------------------------------------------------------------------------------------------
# generation
# ------------------------------------------------------------------------------------------
def _full_spec(rank_ids, fmts, table, layouts=None):
    s = {"root": dict(table["root"])}
    for i, r in enumerate(rank_ids):
        e = dict(table[i])
        e["format"] = fmts[i]
        e["layout"] = (layouts or ["contiguous", "interleaved", "contiguous"])[i]
        s[r] = e
    return s


def _grid_trees():
    """All depth-2 trees over a 2x2 grid: row absent / stored empty / stored with 3-state leaves (not both absent)."""
    rows = [None, []]
    for va in itertools.product(range(3), repeat=2):
        if va != (0, 0):
            rows.append(gen.states_to_leaf_spec(va))
    for r0 in rows:
        for r1 in rows:
            t = []
            if r0 is not None:
                t.append([0, r0])
            if r1 is not None:
                t.append([1, r1])
            yield t


def generate(rng, tier, shard, nshards, mon):
    idx = 0
    # (i) systematic small trees x all format assignments x two width tables
    for tree in _grid_trees():
        for fmts in itertools.product("CU", repeat=2):
            for tname, table in (("A", PRIMES_A), ("B", PRIMES_B)):
                if idx % nshards == shard:
                    yield {"kind": "fmt", "build": "spec", "tree": tree, "rank_ids": ["M", "K"], "shape": [2, 2],
                           "default": 0, "tfmts": None, "spec": _full_spec(["M", "K"], fmts, table), "sys": "grid2-" + tname}
                idx += 1
    mon.exhaustive["depth2-grid-2x2-x-formats"] = True
    for va in gen.all_state_vectors(3):
        for fm in "CU":
            if idx % nshards == shard:
                yield {"kind": "fmt", "build": "spec", "tree": gen.states_to_leaf_spec(va), "rank_ids": ["K"], "shape": [3],
                       "default": 0, "tfmts": None, "spec": _full_spec(["K"], [fm], PRIMES_A), "sys": "leaf3"}
            idx += 1
    mon.exhaustive["depth1-3state-n3-x-formats"] = True
    # (ii) spec defaulting: every subset of omitted per-rank fields x root variants, on three fixed tensors
    fixed = [
        (["M", "K"], [3, 3], [[0, [[0, 1], [2, 0]]], [2, []]]),
        (["K"], [4], [[0, 1], [1, 0], [3, 2]]),
        (["N", "M", "K"], [2, 3, 2], [[0, [[0, [[1, 5]]], [2, [[0, 0]]]]], [1, [[1, []]]]]),
    ]
    root_variants = ["full", "no-hbits", "no-pbits", "empty", "absent"]
    for ti, (rids, shape, tree) in enumerate(fixed):
        for which in range(len(rids)):
            for omit in range(64):
                for rv in root_variants:
                    if idx % nshards == shard:
                        # the rank whose fields are omitted is U whenever its format is given: defaulting to C
                        # then changes every number
                        fmts = ["U" if i == which else "CU"[(i + omit) % 2] for i in range(len(rids))]
                        s = _full_spec(rids, fmts, PRIMES_A)
                        for b, fld in enumerate(RANK_FIELDS):
                            if omit >> b & 1:
                                del s[rids[which]][fld]
                        if rv == "no-hbits":
                            del s["root"]["hbits"]
                        elif rv == "no-pbits":
                            del s["root"]["pbits"]
                        elif rv == "empty":
                            s["root"] = {}
                        elif rv == "absent":
                            del s["root"]
                        yield {"kind": "fmt", "build": "spec", "tree": tree, "rank_ids": rids, "shape": shape,
                               "default": 0, "tfmts": None, "spec": s, "sys": "omit"}
                    idx += 1
        # omitted rank entries: every subset of ranks
        for sub in range(1 << len(rids)):
            if idx % nshards == shard:
                s = _full_spec(rids, ["U"] * len(rids), PRIMES_A)
                for i, r in enumerate(rids):
                    if sub >> i & 1:
                        del s[r]
                yield {"kind": "fmt", "build": "spec", "tree": tree, "rank_ids": rids, "shape": shape,
                       "default": 0, "tfmts": None, "spec": s, "sys": "omit-rank"}
            idx += 1
            # ... and the specification the first Format filled in is adjusted for ONE rank and given to a second one
            for which in range(len(rids)):
                for fmts in ("C", "U"):
                    if idx % nshards == shard:
                        s = _full_spec(rids, [fmts] * len(rids), PRIMES_B)
                        for i, r in enumerate(rids):
                            if sub >> i & 1:
                                del s[r]
                        yield {"kind": "fmt", "build": "spec", "tree": tree, "rank_ids": rids, "shape": shape,
                               "default": 0, "tfmts": None, "spec": s, "sys": "omit-rank-respec",
                               "respec": [which, {"format": "U", "fhbits": 2, "cbits": 7, "pbits": 16}]}
                    idx += 1
    mon.exhaustive["omitted-field-subsets-x-root-variants"] = True
    # (iv) history before the query: every grid tree x every single read-only / value-returning operation
    for tree in _grid_trees():
        for op in _GRID_HISTORY:
            for fmts in ("CU", "UC", "UU"):
                if idx % nshards == shard:
                    yield {"kind": "fmt", "build": "spec", "tree": tree, "rank_ids": ["M", "K"], "shape": [2, 2],
                           "default": 0, "tfmts": None, "spec": _full_spec(["M", "K"], fmts, PRIMES_A),
                           "history": [op], "sys": "grid2-history"}
                idx += 1
    mon.exhaustive["depth2-grid-2x2-x-single-history-op"] = True
    # (v) active ranges different from (0, shape): set explicitly, left behind by a populate, partitions of a split
    for tree in _grid_trees():
        for fmts in ("CU", "UC", "UU"):
            variants = [{"build": "spec", "shape": [3, 3], "active": {"list": al}} for al in _GRID_ACTIVE]
            variants += [{"build": "populate", "shape": [3, 3], "ztree": zt, "ashape": [2, 2]}
                         for zt in ([], [[2, [[2, 9]]]], [[0, [[2, 9]]], [2, []]])]
            variants += [{"build": "partition", "shape": [3, 3], "fshape": [2, 2], "split": sp, "part": k}
                         for sp in (["splitUniform", 1], ["splitEqual", 1]) for k in (0, 1)]
            # the populate loop nest left early: at the 1st / 2nd row before or after the row was filled, in the
            # leaf loop, by break (that loop only) or by an exception (the whole nest)
            variants += [{"build": "populate", "shape": [3, 3], "ztree": zt, "ashape": [2, 2], "leave": lv}
                         for zt in ([], [[0, [[2, 9]]], [2, []]]) for lv in _GRID_LEAVE]
            for v in variants:
                if idx % nshards == shard:
                    case = {"kind": "fmt", "tree": tree, "rank_ids": ["M", "K"], "default": 0, "tfmts": None,
                            "spec": _full_spec(["M", "K"], fmts, PRIMES_A), "sys": "grid2-active"}
                    case.update(v)
                    yield case
                idx += 1
    mon.exhaustive["depth2-grid-2x2-x-active-ranges"] = True
    # (vi) no declared shape: every grid tree handed over as a finished tree (fromFiber / Tensor() + setRoot, no
    # shape argument) under formats CU/UC/UU, and x every single history operation under CU/UU
    for tree in _grid_trees():
        for fmts in ("CU", "UC", "UU"):
            variants = [{"build": "spec"}, {"build": "setroot"}]
            if fmts != "UC":
                variants += [{"build": "spec", "history": [op]} for op in _GRID_HISTORY]
            for v in variants:
                if idx % nshards == shard:
                    case = {"kind": "fmt", "tree": tree, "rank_ids": ["M", "K"], "shape": None, "default": 0,
                            "tfmts": None, "spec": _full_spec(["M", "K"], fmts, PRIMES_A), "sys": "grid2-undeclared"}
                    case.update(v)
                    yield case
                idx += 1
    mon.exhaustive["depth2-grid-2x2-x-undeclared-shape"] = True
    # (vii) the tensor is modified in place AFTER the first round of queries, then the SAME Format object and a fresh
    # one are queried again: every grid tree (declared 3x3) x formats CU/UC/UU x every single update
    for tree in _grid_trees():
        for fmts in ("CU", "UC", "UU"):
            for upd in _GRID_UPDATES:
                for build in ("spec", "setroot"):
                    if idx % nshards == shard:
                        yield {"kind": "fmt", "build": build, "tree": tree, "rank_ids": ["M", "K"], "shape": [3, 3],
                               "default": 0, "tfmts": None, "spec": _full_spec(["M", "K"], fmts, PRIMES_A),
                               "update": [upd], "sys": "grid2-update"}
                    idx += 1
    mon.exhaustive["depth2-grid-2x2-x-single-update-then-requery"] = True
    # (viii) the same later use on a tensor WITHOUT a declared shape (a finished tree handed to fromFiber / setRoot):
    # one element is written through Tensor.getPayloadRef at a point inside, exactly at, or beyond the shape the tree
    # defined so far; the shape of a rank is then what the present tree defines
    for tree in _grid_trees():
        for fmts in ("CU", "UC", "UU"):
            for upd in _GRID_UPDATES_UNDECLARED:
                for build in ("spec", "setroot"):
                    if idx % nshards == shard:
                        yield {"kind": "fmt", "build": build, "tree": tree, "rank_ids": ["M", "K"], "shape": None,
                               "default": 0, "tfmts": None, "spec": _full_spec(["M", "K"], fmts, PRIMES_A),
                               "update": [upd], "sys": "grid2-undeclared-update"}
                    idx += 1
    mon.exhaustive["depth2-grid-2x2-undeclared-x-single-write-then-requery"] = True
    nrand = (20000 if tier == "quick" else 400000) // nshards
    for _ in range(nrand):
        yield _random_case(rng, tier)


# An output declared WITHOUT a shape and grown by a populate loop nest never gets a rank shape recorded; until repository
# fix ddd6f8b every fiber of an uncompressed rank then answered with its own largest coordinate + 1 instead of the rank's
# (keys ...:undeclared-populated).
_POPULATE_UNDECLARED = True


# single operations of the systematic history block (depth-2 tensor over a 2x2 grid)
_GRID_HISTORY = [
    ["snapshot"], ["snapshot-shape"], ["setroot"], ["subsnapshot", 0], ["subsnapshot", 1], ["deepcopy"],
    ["fibercopy"], ["fibercopy-keep"], ["split", "splitUniform", 1, 0], ["split", "splitUniform", 2, 1],
    ["split", "splitEqual", 1, 0], ["split", "splitNonUniform", [0, 1], 1], ["split", "splitUnEqual", [1, 1], 0],
    ["swizzle", [1, 0]], ["swap", 0], ["flatten", 0, 1], ["eq"], ["binop", "|", [[0, [[1, 5]]], [1, []]]],
    ["binop", "&", [[0, [[0, 5], [1, 5]]], [1, [[0, 5], [1, 5]]]]], ["binop", "^", [[1, [[1, 5]]]]],
    ["binop", "-", [[0, [[0, 5]]]]], ["uncompress"], ["walk"], ["points"], ["info"],
]
# explicit active ranges of the systematic block: [prefix, lo, hi] (a prefix that is not stored is skipped)
_GRID_ACTIVE = [
    [[[], 0, 2]], [[[], 1, 3]], [[[], 1, 2]], [[[], 2, 2]], [[[0], 0, 1], [[1], 1, 3]],
    [[[], 0, 1], [[0], 1, 2], [[1], 0, 0]],
]


# in-place updates of the systematic block (vii): ["set", point, value] = Tensor.getPayloadRef(*point) <<= value;
# ["reroot", [[new coordinate, position of the element of the old root]...], with a new free sub-fiber at coordinate 2?]
# = Tensor.setRoot(a new free root fiber whose payloads are the tensor's own stored sub-fibers) on the same tensor
_GRID_UPDATES = [
    ["set", [0, 0], 4], ["set", [0, 1], 4], ["set", [0, 2], 4], ["set", [1, 1], 4], ["set", [2, 2], 4],
    ["set", [1, 0], 0], ["reroot", [[0, 0], [1, 1]], False], ["reroot", [[0, 1], [1, 0]], False],
    ["reroot", [[0, 1]], False], ["reroot", [[2, 0]], False], ["reroot", [[1, 0], [2, 1]], False],
    ["reroot", [[0, 1]], True], ["reroot", [], True],
]


# writes of the systematic block (viii): the trees live on a 2x2 grid, so the shape a tree defines per rank is 0, 1 or 2
# and every point below is inside / exactly at / beyond it for some of the trees
_GRID_UPDATES_UNDECLARED = [
    ["set", [0, 0], 4], ["set", [0, 1], 4], ["set", [1, 0], 4], ["set", [1, 1], 4], ["set", [0, 2], 4], ["set", [2, 0], 4],
    ["set", [2, 2], 4], ["set", [1, 2], 0], ["set", [2, 1], 4], ["set", [3, 3], 4], ["set", [4, 1], 4],
]


# early exits of the systematic populate block: {"at": [[loop level, iteration of that loop, "before" | "after" the
# body's work on the element]], "how": "break" | "raise"}
_GRID_LEAVE = [
    {"at": [[0, 0, "before"]], "how": "break"}, {"at": [[0, 1, "before"]], "how": "break"},
    {"at": [[0, 0, "after"]], "how": "break"}, {"at": [[1, 0, "before"]], "how": "break"},
    {"at": [[0, 1, "before"], [1, 0, "after"]], "how": "break"}, {"at": [[0, 1, "before"]], "how": "raise"},
    {"at": [[1, 1, "before"]], "how": "raise"},
]


def _random_history(rng, depth, extents, default):
    ops = []
    for _ in range(rng.choice([1, 1, 2, 3])):
        pool = ["snapshot", "snapshot", "snapshot-shape", "setroot", "deepcopy", "fibercopy", "fibercopy-keep", "split",
                "split", "eq", "binop", "uncompress", "walk", "points", "info"]
        if depth > 1:
            pool += ["subsnapshot", "swizzle", "swizzle", "swap", "flatten"]
        name = rng.choice(pool)
        if name == "subsnapshot":
            ops.append([name, rng.randrange(4)])
        elif name == "split":
            d = rng.randrange(depth)
            how = rng.choice(["splitUniform", "splitEqual", "splitNonUniform", "splitUnEqual"])
            if how in ("splitUniform", "splitEqual"):
                arg = rng.randint(1, 3)
            elif how == "splitNonUniform":
                arg = sorted(rng.sample(range(0, extents[d] + 1), rng.randint(1, min(2, extents[d] + 1))))
            else:
                arg = [rng.randint(1, 2) for _ in range(rng.randint(1, 3))]
            ops.append([name, how, arg, d])
        elif name == "swizzle":
            perm = list(range(depth))
            rng.shuffle(perm)
            ops.append([name, perm])
        elif name == "swap":
            ops.append([name, rng.randrange(depth - 1)])
        elif name == "flatten":
            d = rng.randrange(depth - 1)
            ops.append([name, d, rng.randint(1, depth - 1 - d)])
        elif name == "binop":
            ops.append([name, rng.choice("|&^-"), gen.rand_tree_spec(rng, extents, 0.5, rng.choice([0.0, 0.4]), default)])
        else:
            ops.append([name])
    return ops


def _random_case(rng, tier):
    depth = rng.choice([1, 2, 2, 3, 3])
    big = tier != "quick" and rng.random() < 0.2
    extents = [rng.randint(1, 7 if big else 4) for _ in range(depth)]
    rank_ids = gen.rank_ids_for(depth, rng.choice(["NMK", "KMN", "ABC", "XYZ"]))[:depth]
    default = rng.choice([0, 0, 0, 7])
    r = rng.random()
    case = {"kind": "fmt", "rank_ids": rank_ids, "default": default}
    r2 = rng.random()
    if r2 < 0.10:
        # an output declared with `shape`, possibly pre-filled, populated (<<) from a smaller operand
        dirty = rng.choice([0.0, 0.3, 0.7])
        zshape = [e + rng.choice([0, 1, 2, 3]) for e in extents]
        case.update(build="populate", shape=zshape, ashape=list(extents),
                    tree=gen.rand_tree_spec(rng, extents, rng.choice([0.3, 0.6, 0.9]), dirty, default),
                    ztree=gen.rand_tree_spec(rng, zshape, 0.3, dirty, default) if rng.random() < 0.4 else [])
        if _POPULATE_UNDECLARED and rng.random() < 0.25:
            # the output is declared without a shape (and starts empty): its shape is what the loop nest stored
            case.update(shape=None, ztree=[])
        if rng.random() < 0.5:
            # the loop nest is left early: every iteration of every loop may leave before / after its work
            case["leave"] = {"p": rng.choice([0.1, 0.25, 0.5]), "seed": rng.randrange(1 << 30),
                             "how": rng.choice(["break", "break", "raise", "mixed"])}
    elif r2 < 0.16:
        # one partition of a split of a free fiber, put into a tensor with a declared shape
        how = rng.choice(["splitUniform", "splitEqual", "splitNonUniform"])
        arg = rng.randint(1, 3) if how != "splitNonUniform" else \
            sorted(rng.sample(range(0, extents[0] + 1), rng.randint(1, min(3, extents[0] + 1))))
        case.update(build="partition", shape=[e + rng.choice([0, 0, 1, 2]) for e in extents], fshape=list(extents),
                    tree=gen.rand_tree_spec(rng, extents, rng.choice([0.6, 0.9]), rng.choice([0.0, 0.3]), default),
                    split=[how, arg], part=rng.randrange(4))
    elif r < 0.06:
        case.update(build="empty", tree=[], shape=[e + rng.randint(0, 2) for e in extents] if rng.random() < 0.7 else None)
    elif r < 0.18:
        nest = gen.rand_nest(rng, extents, rng.choice([0.2, 0.5, 0.9]), default)
        case.update(build="nest", nest=nest, tree=None, shape=list(extents) if rng.random() < 0.75 else None)
    else:
        dirty = rng.choice([0.0, 0.3, 0.3, 0.7])
        tree = gen.rand_tree_spec(rng, extents, rng.choice([0.3, 0.6, 0.9]), dirty, default)
        # 25% without a declared shape: the finished tree alone says what the shape of each rank is
        declared = rng.random() < 0.75
        case.update(build=rng.choice(["spec", "spec", "setroot"]), tree=tree,
                    shape=[e + rng.choice([0, 0, 1, 2]) for e in extents] if declared else None)
    case["tfmts"] = [rng.choice("CU") for _ in rank_ids] if rng.random() < 0.25 else None
    if rng.random() < 0.3:
        case["active"] = {"p": rng.choice([0.3, 0.7, 1.0]), "seed": rng.randrange(1 << 30)}
    if rng.random() < 0.4:
        case["history"] = _random_history(rng, depth, extents, default)
    if rng.random() < 0.15:
        # the specification filled in by the first Format is adjusted for one rank and handed to a second Format
        case["respec"] = [rng.randrange(depth), {fld: (rng.choice("CU") if fld == "format" else rng.randint(1, 64))
                                                 for fld in rng.sample(INT_FIELDS + ["format"], rng.randint(1, 3))}]
    if case["shape"] is not None and rng.random() < 0.3:
        # the tensor is modified in place after the first round of queries and the same Format is asked again
        ups = []
        for _ in range(rng.choice([1, 1, 2, 3])):
            if rng.random() < 0.65:
                ups.append(["set", [rng.randrange(e) for e in case["shape"]] if min(case["shape"]) > 0 else None,
                            rng.choice([default, 3, 4, 9])])
            else:
                ups.append(["reroot-random", rng.randrange(1 << 30), rng.random() < 0.3])
        case["update"] = [u for u in ups if u[1] is not None]
    elif case["shape"] is None and case["build"] in ("spec", "setroot") and rng.random() < 0.4:
        # ... also without a declared shape: elements are written inside, exactly at, or beyond the extent of the tree
        case["update"] = [["set", [rng.randrange(e + 3) for e in extents], rng.choice([default, 3, 4, 9])]
                          for _ in range(rng.choice([1, 1, 2, 3]))]
    # ---- the specification
    mode = rng.choice(["random", "random", "distinct", "sparse"])
    p_omit = rng.choice([0.0, 0.0, 0.3, 0.6])
    spec = {}
    pool = [3, 5, 7, 11, 13, 17, 19, 23, 29, 31, 37, 41, 43, 47, 53, 59, 61]
    rng.shuffle(pool)

    def width():
        if mode == "distinct":
            return pool.pop()
        if mode == "sparse":
            return rng.choice([0, 0, 0, 1, 8, 32, 64])
        return rng.randint(0, 64)
    if rng.random() < 0.8:
        root = {}
        for fld in ("hbits", "pbits"):
            if rng.random() >= p_omit:
                root[fld] = width()
        spec["root"] = root
    for rid in rank_ids:
        if rng.random() < 0.08:
            continue
        e = {}
        for fld in INT_FIELDS:
            if rng.random() >= p_omit:
                e[fld] = width()
        if rng.random() >= p_omit:
            e["format"] = rng.choice("CU")
        if rng.random() >= p_omit:
            e["layout"] = rng.choice(["contiguous", "interleaved"])
        spec[rid] = e
    case["spec"] = spec
    return case


# ------------------------------------------------------------------------------------------
# the reference model (independent of fibertree.model.format)
# ------------------------------------------------------------------------------------------
def fill_spec(raw, rank_ids):
    """Statement: missing fields default to zero bits, compressed format and contiguous layout."""
    out = {"root": {"hbits": 0, "pbits": 0}}
    out["root"].update(raw.get("root", {}))
    for r in rank_ids:
        e = {"rhbits": 0, "fhbits": 0, "cbits": 0, "pbits": 0, "format": "C", "layout": "contiguous"}
        e.update(raw.get(r, {}))
        out[r] = e
    return out


def rank_shapes(case, root):
    """(shape of every rank, where it comes from), from the case and the raw tree only.

    declared: the shape given at construction.  Otherwise the tensor was built without one and the tree itself says
    what the shape of a rank is: one more than the largest coordinate stored in ANY fiber of that rank (0 when no fiber
    of the rank stores a coordinate) - the same number for every fiber of the rank, stored or absent; an uncompressed
    nest given to fromUncompressed has the dimensions of its lists."""
    if case["shape"] is not None:
        return list(case["shape"]), "declared"
    if case["build"] == "nest":
        return gen.nest_shape(case["nest"]), "undeclared"
    shape = [0] * len(case["rank_ids"])

    def walk(f, d):
        if f.coords:
            shape[d] = max(shape[d], max(f.coords) + 1)
        for p in f.payloads:
            if isinstance(p, Fiber):
                walk(p, d + 1)
    walk(root, 0)
    return shape, "undeclared-populated" if case["build"] == "populate" else "undeclared"


class Model:
    def __init__(self, tensor, raw_spec, rank_ids, shape, default):
        self.rank_ids = list(rank_ids)
        self.spec = fill_spec(raw_spec, rank_ids)
        self.shape = shape
        self.default = default
        self.depth = len(rank_ids)
        self.root = tensor.__dict__.get("_root")
        self.ranks = list(tensor.ranks)
        self.u_absent = 0
        self.u_outside_active = 0
        self.u_tag = "U"

    def tag(self, d):
        """Format letter of rank d for violation keys (an undeclared shape is named behind the U it enters)."""
        return self.u_tag if self.spec[self.rank_ids[d]]["format"] == "U" else "C"

    def src(self, d0=0):
        """Key suffix for sums over ranks d0.. : where the shape comes from, if it enters and was not declared."""
        return self.u_tag[1:] if any(self.spec[r]["format"] == "U" for r in self.rank_ids[d0:]) else ""

    def fiber_bits(self, d, fiber):
        e = self.spec[self.rank_ids[d]]
        if e["format"] == "C":
            n = 0 if fiber is None else len(fiber.coords)
        else:
            n = self.shape[d]
        return e["fhbits"] + (e["cbits"] + e["pbits"]) * n

    def fibers_by_depth(self):
        out = [[] for _ in range(self.depth)]

        def walk(f, d):
            out[d].append(f)
            for p in f.payloads:
                if isinstance(p, Fiber):
                    walk(p, d + 1)
        walk(self.root, 0)
        return out

    def rank_bits(self, d, by_depth):
        return self.spec[self.rank_ids[d]]["rhbits"] + sum(self.fiber_bits(d, f) for f in by_depth[d])

    def root_bits(self):
        return self.spec["root"]["hbits"] + self.spec["root"]["pbits"]

    def has_content(self, f):
        for p in f.payloads:
            if isinstance(p, Fiber):
                if self.has_content(p):
                    return True
            elif unbox(p) != self.default:
                return True
        return False

    def subtree_bits(self, d, fiber):
        """fiber None = absent child (counts as an empty fiber)."""
        total = self.fiber_bits(d, fiber)
        if d == self.depth - 1:
            return total
        if self.spec[self.rank_ids[d]]["format"] == "U":
            stored = {} if fiber is None else dict(zip(fiber.coords, fiber.payloads))
            lo, hi = (0, self.shape[d]) if fiber is None else fiber.getActive()     # for the coverage counter only
            for c in range(self.shape[d]):
                child = stored.get(c)
                if child is None:
                    self.u_absent += 1
                if not lo <= c < hi:
                    self.u_outside_active += 1
                total += self.subtree_bits(d + 1, child)
        elif fiber is not None:
            for child in fiber.payloads:
                if self.has_content(child):
                    total += self.subtree_bits(d + 1, child)
        return total


# ------------------------------------------------------------------------------------------
# postcondition on Format._getFiberFootprint
# ------------------------------------------------------------------------------------------
_CTX = {"mon": None, "model": None, "tensor": None, "installed": False, "via": None, "left": (0, 0, 0)}


def _post_fiber_footprint(self, rank, fiber, result):
    """Evaluated after every call of Format._getFiberFootprint; reports into the monitor and lets the call go on."""
    mon, model = _CTX["mon"], _CTX["model"]
    if mon is None or model is None or self.tensor is not _CTX["tensor"]:
        return True
    mon.count("contract_evals")
    owner = fiber.getOwner()
    d = None
    for i, rk in enumerate(model.ranks):
        if rk is owner:
            d = i
    if d is None:
        mon.check(False, "contract:_getFiberFootprint:fiber-not-of-this-tensor",
                  f"_getFiberFootprint called with a fiber whose owner is not a rank of the tensor (rank arg {rank!r})")
        return True
    want = model.fiber_bits(d, fiber)
    fmt = model.spec[model.rank_ids[d]]["format"]
    mon.check(result == want, f"contract:_getFiberFootprint:{model.tag(d)}",
              f"_getFiberFootprint({rank!r}, fiber at depth {d} with {len(fiber.coords)} stored elements, format {fmt}) "
              f"returned {result!r}, header + (cbits+pbits) x {'occupancy' if fmt == 'C' else 'shape'} = {want}")
    return True


def _install(mon):
    _CTX["mon"] = mon
    if _CTX["installed"] and Format.__dict__.get("_getFiberFootprint") is _CTX["installed"]:
        return
    orig = Format.__dict__["_getFiberFootprint"]
    try:
        import icontract

        class FootprintContractError(Exception):
            pass
        wrapped = icontract.ensure(_post_fiber_footprint, error=FootprintContractError)(orig)
        _CTX["via"] = "icontract"
    except ImportError:
        def wrapped(self, rank, fiber):
            result = orig(self, rank, fiber)
            _post_fiber_footprint(self, rank, fiber, result)
            return result
        _CTX["via"] = "wrapper"
    Format._getFiberFootprint = wrapped
    _CTX["installed"] = wrapped


# ------------------------------------------------------------------------------------------
# run
# ------------------------------------------------------------------------------------------
class _UnknownOp(Exception):
    pass


class _Abandon(Exception):
    """Raised by the body of a populate loop nest to leave the whole nest."""


class _Leaver:
    """Decides, per iteration of every populate loop, whether the body leaves the loop early (plan of the case)."""

    def __init__(self, plan):
        import random
        self.plan = plan
        self.at = {tuple(x) for x in plan["at"]} if plan and "at" in plan else None
        self.rng = random.Random(plan["seed"]) if plan and "seed" in plan else None
        self.left = 0                   # loops left early
        self.left_new_empty = 0         # ... at a sub-fiber the << had just created and nothing was written into
        self.left_filled = 0            # ... at / after an element that had received content

    def __call__(self, d, i, when):
        if self.plan is None:
            return None
        if self.at is not None:
            return self.plan["how"] if (d, i, when) in self.at else None
        if self.rng.random() < self.plan["p"] / 2:
            how = self.plan["how"]
            return self.rng.choice(["break", "raise"]) if how == "mixed" else how
        return None


def _populate(z, a, d, depth, leaver):
    """The usual output loop nest: z << a on every level, += on the leaves; `leaver` may leave any loop early."""
    had = set(z.coords)
    for i, (c, (z_ref, a_val)) in enumerate(z << a):
        how = leaver(d, i, "before")
        if how:
            leaver.left += 1
            if d < depth - 1 and c not in had and len(z_ref.coords) == 0:
                leaver.left_new_empty += 1
            if how == "raise":
                raise _Abandon()
            break
        if d == depth - 1:
            z_ref += a_val
        else:
            _populate(z_ref, a_val, d + 1, depth, leaver)
        how = leaver(d, i, "after")
        if how:
            leaver.left += 1
            if d == depth - 1 or len(z_ref.coords) > 0:
                leaver.left_filled += 1
            if how == "raise":
                raise _Abandon()
            break


def _stored_fibers(root):
    """[(prefix, depth, fiber)] of the stored tree, raw walk, parents first."""
    out = []

    def walk(f, d, prefix):
        out.append((prefix, d, f))
        for c, p in zip(list(f.coords), list(f.payloads)):
            if isinstance(p, Fiber):
                walk(p, d + 1, prefix + (c,))
    walk(root, 0, ())
    return out


def _set_active(case, t):
    """Fiber.setActive on stored fibers: an explicit list, or each fiber with probability p (seeded by the case)."""
    import random
    act = case["active"]
    fibers = _stored_fibers(t.getRoot())
    shape = case["shape"]
    n = 0
    if "list" in act:
        where = {prefix: f for prefix, _, f in fibers}
        for prefix, lo, hi in act["list"]:
            f = where.get(tuple(prefix))
            if f is not None:
                f.setActive((lo, hi))
                n += 1
        return n
    rng = random.Random(act["seed"])
    for _, d, f in fibers:
        if rng.random() < act["p"]:
            top = shape[d] if shape is not None else (max(f.coords) + 1 if f.coords else 1)
            lo = rng.randint(0, top)
            f.setActive((lo, rng.randint(lo, top)))
            n += 1
    return n


def _history_op(t, op, case):
    """One read-only / value-returning public operation on the tensor; the result is discarded."""
    rids, shape, default = case["rank_ids"], case["shape"], case["default"]
    depth = len(rids)
    low = [r.lower() + "x" for r in rids]
    root = t.getRoot()
    name = op[0]
    if name == "snapshot":
        Tensor.fromFiber(rank_ids=low, fiber=root)
    elif name == "snapshot-shape":
        Tensor.fromFiber(rank_ids=low, fiber=root, shape=list(shape) if shape else None, default=default)
    elif name == "setroot":
        t2 = Tensor(rank_ids=low, shape=list(shape), default=default) if shape else Tensor(rank_ids=low, default=default)
        t2.setRoot(root)
    elif name == "subsnapshot":
        subs = [p for p in root.getPayloads() if isinstance(p, Fiber)]
        if subs:
            Tensor.fromFiber(rank_ids=low[1:], fiber=subs[op[1] % len(subs)])
    elif name == "deepcopy":
        copy.deepcopy(t)
    elif name == "fibercopy":
        root.copy(preserve_owner=False)
    elif name == "fibercopy-keep":
        root.copy()
    elif name == "split":
        getattr(t, op[1])(op[2], depth=op[3])
    elif name == "swizzle":
        t.swizzleRanks([rids[i] for i in op[1]])
    elif name == "swap":
        t.swapRanks(depth=op[1])
    elif name == "flatten":
        t.flattenRanks(depth=op[1], levels=op[2])
    elif name == "eq":
        t == copy.deepcopy(t)       # noqa
        t == Tensor(rank_ids=list(rids), default=default)       # noqa
        root == root.copy(preserve_owner=False)     # noqa
    elif name == "binop":
        other = gen.fiber_from_spec(op[2], default=default)
        if op[1] == "|":
            root | other            # noqa
        elif op[1] == "&":
            root & other            # noqa
        elif op[1] == "^":
            root ^ other            # noqa
        else:
            root - other            # noqa
    elif name == "uncompress":
        root.uncompress()
    elif name == "walk":
        def walk(f, d):
            for c, p in f:
                if isinstance(p, Fiber):
                    walk(p, d + 1)
            for c, p in f.iterActive():
                break
            if shape is not None:
                for c, p in f.iterShape():
                    if isinstance(p, Fiber) and d + 1 < depth:
                        for _ in p.iterOccupancy():
                            break
                for c, p in f.iterActiveShape():
                    pass
        walk(root, 0)
    elif name == "points":
        ext = shape if shape is not None else [4] * depth
        for pt in itertools.islice(itertools.product(*[range(e) for e in ext]), 200):
            t.getPayload(*pt)
            t.getPayload(*pt[:-1]) if depth > 1 else None
        for c in range(ext[0]):
            root.getPayload(c, start_pos=0)
    elif name == "info":
        t.countValues()
        repr(t)
        str(t)
        t.getShape()
        root.getShape()
        root.isEmpty()
        len(root)
        root.maxCoord()
        root.nonEmpty()
    else:
        raise _UnknownOp(repr(op))


def _apply_update(t, op, case, info):
    """One in-place modification of the tensor through its public interface (between two uses of a Format)."""
    import random
    shape, default = case["shape"], case["default"]
    depth = len(case["rank_ids"])
    root = t.getRoot()
    if op[0] == "set":
        point = op[1]
        # coverage: does the leaf fiber exist already and not store the coordinate (it grows, no fiber is added)?
        f = root
        for c in point[:-1]:
            f = dict(zip(f.coords, f.payloads)).get(c) if isinstance(f, Fiber) else None
        if isinstance(f, Fiber) and point[-1] not in f.coords:
            info["grew_existing"] += 1
        t.setMutable(True)
        ref = t.getPayloadRef(*point)
        ref <<= op[2]
        return
    old = list(zip(list(root.coords), list(root.payloads)))
    if op[0] == "reroot":
        pairs = [(c, old[i][1]) for c, i in op[1] if i < len(old)]
        extra = op[2]
        rng = random.Random(0)
    else:
        rng = random.Random(op[1])
        keep = rng.sample(range(len(old)), rng.randint(0, len(old)))           # a subset, in any order
        coords = sorted(rng.sample(range(shape[0]), min(len(keep), shape[0])))
        pairs = [(c, old[i][1]) for c, i in zip(coords, keep)]
        extra = op[2]
    if extra:
        free = [c for c in range(shape[0]) if c not in {c_ for c_, _ in pairs}]
        if free:
            if depth == 1:
                new = 5
            else:
                new = gen.fiber_from_spec(gen.rand_tree_spec(rng, shape[1:], 0.6, 0.3, default), default=default)
            pairs = sorted(pairs + [(free[-1], new)], key=lambda cp: cp[0])
    info["reused_own"] += sum(1 for _, p in pairs if isinstance(p, Fiber) and p.getOwner() is not None)
    info["reroots"] += 1
    t.setRoot(Fiber([c for c, _ in pairs], [p for _, p in pairs], default=default if depth == 1 else 0))


def _build(case):
    rids, d = case["rank_ids"], case["default"]
    if case["build"] == "populate":
        a = gen.tensor_from_spec(case["tree"], rids, shape=case["ashape"], default=d)
        if case["ztree"]:
            t = gen.tensor_from_spec(case["ztree"], rids, shape=case["shape"], default=d)
        elif case["shape"] is None:
            t = Tensor(rank_ids=list(rids), default=d)
        else:
            t = Tensor(rank_ids=list(rids), shape=list(case["shape"]), default=d)
        leaver = _Leaver(case.get("leave"))
        try:
            _populate(t.getRoot(), a.getRoot(), 0, len(rids), leaver)
        except _Abandon:
            pass
        _CTX["left"] = (leaver.left, leaver.left_new_empty, leaver.left_filled)
    elif case["build"] == "partition":
        f = gen.fiber_from_spec(case["tree"], default=d, shape=case["fshape"])
        parts = [p for p in getattr(f, case["split"][0])(case["split"][1]).getPayloads() if isinstance(p, Fiber)]
        part = parts[case["part"] % len(parts)] if parts else f
        t = Tensor.fromFiber(rank_ids=list(rids), fiber=part, shape=list(case["shape"]), default=d)
    elif case["build"] in ("empty", "setroot"):
        t = Tensor(rank_ids=list(rids), default=d) if case["shape"] is None else \
            Tensor(rank_ids=list(rids), shape=list(case["shape"]), default=d)
        if case["build"] == "setroot":
            t.setRoot(gen.fiber_from_spec(case["tree"], default=d))
    elif case["build"] == "nest":
        kw = {} if case["shape"] is None else {"shape": list(case["shape"])}
        t = Tensor.fromUncompressed(rank_ids=list(rids), root=copy.deepcopy(case["nest"]), default=d, **kw)
    else:
        t = gen.tensor_from_spec(case["tree"], rids, shape=case["shape"], default=d)
    if case.get("tfmts"):
        for r, fm in zip(rids, case["tfmts"]):
            t.setFormat(r, fm)
    return t


def _call(mon, op, fn, *args):
    try:
        return True, fn(*args)
    except BaseException as e:      # noqa  (the library may call sys.exit)
        if isinstance(e, KeyboardInterrupt):
            raise
        mon.violation(f"{op}:raised:{type(e).__name__}", f"{op}{args!r} raised {type(e).__name__}: {e}")
        return False, None


def _is_int(x):
    return isinstance(x, int) and not isinstance(x, bool)


def run_case(case, mon):
    _install(mon)
    rids = case["rank_ids"]
    depth = len(rids)
    raw_spec = case["spec"]
    _CTX["model"] = _CTX["tensor"] = None
    _CTX["left"] = (0, 0, 0)
    ok, t = _call(mon, "build-tensor", _build, case)
    if not ok:
        return
    if case.get("active"):
        mon.count("active_set", _set_active(case, t))
    # history before the query: the results are discarded, an operation that raises is not this property's business
    for op in case.get("history") or []:
        mon.count("history_ops")
        try:
            _history_op(t, op, case)
        except BaseException as e:      # noqa
            if isinstance(e, (KeyboardInterrupt, _UnknownOp)):
                raise
            mon.count("history_op_raised")
    if case.get("history"):
        mon.count("history_cases")
    # the oracle is built from the raw tree as it is now and from the declared shape
    shape, shape_src = rank_shapes(case, t.__dict__.get("_root"))
    model = Model(t, raw_spec, rids, shape, case["default"])
    # keys of the shape-dependent clauses name where the shape comes from when it was not declared
    model.u_tag = "U" if shape_src == "declared" else "U:" + shape_src
    by_depth = model.fibers_by_depth()
    stored = sum(len(f.coords) for fs in by_depth for f in fs)
    dirty = any(len(f.coords) == 0 for fs in by_depth[1:] for f in fs) or \
        any((not isinstance(p, Fiber)) and unbox(p) == case["default"] for f in by_depth[-1] for p in f.payloads)
    if dirty:
        mon.count("dirty_cases")
    if case["build"] in ("populate", "partition"):
        mon.count(case["build"] + "_cases")
    if _CTX["left"][0]:
        mon.count("populate_left_early_cases")
        mon.count("populate_loops_left_early", _CTX["left"][0])
        mon.count("populate_loops_left_at_new_empty_subfiber", _CTX["left"][1])
        mon.count("populate_loops_left_after_element_filled", _CTX["left"][2])
    # coverage of the two situations the widened domain is about (counters only, nothing is judged here):
    # fibers whose active range is not (0, declared shape), and - after a history - stored sub-fibers without
    # content in a rank the specification makes uncompressed
    if shape_src != "declared":
        mon.count("undeclared_shape_cases")
        if case.get("history"):
            mon.count("undeclared_shape_history_cases")
        # stored fibers of a rank the specification makes uncompressed that end below the shape of their rank
        mon.count("undeclared_u_fibers_shorter_than_rank",
                  sum(1 for d, fs in enumerate(by_depth) if model.spec[rids[d]]["format"] == "U"
                      for f in fs if (max(f.coords) + 1 if f.coords else 0) < shape[d]))
    else:
        mon.count("fibers_with_narrowed_active_range",
                  sum(1 for d, fs in enumerate(by_depth) for f in fs if tuple(f.getActive()) != (0, model.shape[d])))
    if case.get("history"):
        mon.count("history_contentless_subfibers_in_u_rank",
                  sum(1 for d, fs in enumerate(by_depth) if d > 0 and model.spec[rids[d]]["format"] == "U"
                      for f in fs if not model.has_content(f)))
    _CTX["model"], _CTX["tensor"] = model, t
    try:
        fmt = _run_queries(case, mon, t, model, by_depth, stored)
    finally:
        _CTX["model"] = _CTX["tensor"] = None
    if fmt is None:
        return
    reuse_fmt, reuse_raw = fmt, raw_spec
    if case.get("respec"):
        # ---- the filled specification is re-used: one rank's entry is adjusted, every other entry must still be what
        # the first Format made of the original specification
        which, changes = case["respec"]
        raw2 = copy.deepcopy(model.spec)
        raw2[rids[which]].update(changes)
        model3 = Model(t, raw2, rids, shape, case["default"])
        model3.u_tag = model.u_tag
        mon.count("respec_cases")
        mon.count("respec_with_omitted_other_rank", sum(1 for r in rids if r not in raw_spec and r != rids[which]))
        ok, spec2 = _call(mon, "respec", _adjust_spec, fmt, rids[which], changes)
        _CTX["model"], _CTX["tensor"] = model3, t
        try:
            ok, fmt3 = _call(mon, "Format", Format, t, spec2) if ok else (False, None)
            if ok:
                for i, r in enumerate(rids):
                    who = "adjusted-rank" if i == which else "other-rank"
                    for name, fld in (("getRHBits", "rhbits"), ("getFHBits", "fhbits"), ("getCBits", "cbits"),
                                      ("getPBits", "pbits"), ("getFormat", "format"), ("getLayout", "layout")):
                        ok, got = _call(mon, name, getattr(fmt3, name), r)
                        if ok:
                            mon.count("respec_fields_checked")
                            mon.check(got == model3.spec[r][fld], f"spec:{name}:respecified:{who}",
                                      f"{name}({r!r}) = {got!r} in a Format built from the specification an earlier "
                                      f"Format filled in ({raw_spec!r}) after setting {changes!r} in entry "
                                      f"{rids[which]!r} only; expected {model3.spec[r][fld]!r}")
                _requery(case, mon, fmt3, model3, ":respecified")
                reuse_fmt, reuse_raw = fmt3, raw2
        finally:
            _CTX["model"] = _CTX["tensor"] = None
    if not case.get("update"):
        return
    grows = shape_src == "undeclared" and case["build"] in ("spec", "setroot") and \
        all(op[0] == "set" for op in case["update"])
    if shape_src != "declared" and not grows:
        return
    # ---- second use: the tensor is modified in place, then the same Format object and a fresh one are asked again;
    # the oracle is rebuilt from the raw tree as it is now
    info = {"grew_existing": 0, "reused_own": 0, "reroots": 0, "at_shape": 0, "beyond_shape": 0}
    try:
        for op in case["update"]:
            if grows:
                # coverage: a coordinate the write creates exactly at / beyond the shape the tree defined so far
                f, now = t.__dict__.get("_root"), rank_shapes(case, t.__dict__.get("_root"))[0]
                for d_, c_ in enumerate(op[1]):
                    known = isinstance(f, Fiber) and c_ in f.coords
                    if not known:
                        info["at_shape"] += c_ == now[d_]
                        info["beyond_shape"] += c_ > now[d_]
                    f = dict(zip(f.coords, f.payloads)).get(c_) if isinstance(f, Fiber) else None
            _apply_update(t, op, case, info)
    except BaseException as e:      # noqa
        if isinstance(e, KeyboardInterrupt):
            raise
        mon.count("update_raised")      # the update itself is not this property's business
        return
    mon.count("update_cases")
    mon.count("update_set_grew_existing_fiber", info["grew_existing"])
    mon.count("update_reroots", info["reroots"])
    mon.count("update_reroot_reused_own_subfibers", info["reused_own"])
    if grows:
        # no shape was declared: the shape of a rank is what the present raw tree defines
        shape = rank_shapes(case, t.__dict__.get("_root"))[0]
        mon.count("update_undeclared_cases")
        mon.count("update_undeclared_coord_created_at_shape", info["at_shape"])
        mon.count("update_undeclared_coord_created_beyond_shape", info["beyond_shape"])
    model2 = Model(t, reuse_raw, rids, shape, case["default"])
    model2.u_tag = model.u_tag
    _CTX["model"], _CTX["tensor"] = model2, t
    try:
        _requery(case, mon, reuse_fmt, model2, ":reused-after-update")
        _CTX["model"] = model2 = Model(t, raw_spec, rids, shape, case["default"])
        model2.u_tag = model.u_tag
        ok, fresh = _call(mon, "Format", Format, t, copy.deepcopy(raw_spec))
        if ok:
            _requery(case, mon, fresh, model2, ":fresh-after-update")
    finally:
        _CTX["model"] = _CTX["tensor"] = None


def _adjust_spec(fmt, rank_id, changes):
    """What a user does with the specification a Format filled in: take it, set fields of ONE rank's entry."""
    spec = fmt.spec
    for fld, v in changes.items():
        spec[rank_id][fld] = v
    return spec


def _requery(case, mon, fmt, model, phase):
    """getRank of every rank, getTensor, getSubTree() and getFiber() of the root against a model of the present tree."""
    rids = case["rank_ids"]
    by_depth = model.fibers_by_depth()
    rank_want = [model.rank_bits(d, by_depth) for d in range(len(rids))]
    tensor_want = model.root_bits() + sum(rank_want)
    for d, r in enumerate(rids):
        ok, got = _call(mon, "getRank", fmt.getRank, r)
        if ok:
            mon.count("requery_checked")
            mon.check(_is_int(got) and got == rank_want[d], f"getRank:sum:{model.tag(d)}{phase}",
                      f"getRank({r!r}) = {got!r} (later use of the model{phase}), expected rhbits + "
                      f"sum over the {len(by_depth[d])} fibers the rank has now = {rank_want[d]} (depth {d})")
    ok, got = _call(mon, "getTensor", fmt.getTensor)
    if ok:
        mon.count("requery_checked")
        mon.check(_is_int(got) and got == tensor_want, f"getTensor:sum{model.src()}{phase}",
                  f"getTensor() = {got!r} (later use of the model{phase}), expected root "
                  f"{model.root_bits()} + ranks {rank_want} = {tensor_want}")
    ok, got = _call(mon, "getFiber", fmt.getFiber)
    if ok:
        exp = model.fiber_bits(0, model.root)
        mon.count("requery_checked")
        mon.check(_is_int(got) and got == exp, f"getFiber:{model.tag(0)}{phase}",
                  f"getFiber() = {got!r} (later use of the model{phase}), expected {exp}")
    ok, got = _call(mon, "getSubTree", fmt.getSubTree)
    if ok:
        exp = model.subtree_bits(0, model.root)
        below = "".join(model.spec[r]["format"] for r in rids)
        mon.count("requery_checked")
        mon.check(_is_int(got) and got == exp, f"getSubTree:{below}{phase}",
                  f"getSubTree() = {got!r} (later use of the model{phase}), expected {exp}")


def _run_queries(case, mon, t, model, by_depth, stored):
    rids = case["rank_ids"]
    depth = len(rids)
    raw_spec = case["spec"]
    given = copy.deepcopy(raw_spec)
    ok, fmt = _call(mon, "Format", Format, t, given)
    if not ok:
        return None
    want = model.spec

    # ---- spec defaulting, read back through the getters
    n_omitted = 0
    for r in rids:
        e = want[r]
        omitted = [fld for fld in RANK_FIELDS if fld not in raw_spec.get(r, {})]
        n_omitted += len(omitted)
        for name, fn, exp in (("getRHBits", fmt.getRHBits, e["rhbits"]), ("getFHBits", fmt.getFHBits, e["fhbits"]),
                              ("getCBits", fmt.getCBits, e["cbits"]), ("getPBits", fmt.getPBits, e["pbits"]),
                              ("getFormat", fmt.getFormat, e["format"]), ("getLayout", fmt.getLayout, e["layout"])):
            ok, got = _call(mon, name, fn, r)
            if ok:
                fld = {"getRHBits": "rhbits", "getFHBits": "fhbits", "getCBits": "cbits", "getPBits": "pbits",
                       "getFormat": "format", "getLayout": "layout"}[name]
                kind = "default" if fld in omitted else "given"
                mon.count("defaults_checked")
                mon.check(got == exp and type(got) is type(exp), f"spec:{name}:{kind}",
                          f"{name}({r!r}) = {got!r}, expected {exp!r} ({kind} field; spec entry {raw_spec.get(r)!r})")
        for ty, exp in (("coord", e["cbits"]), ("payload", e["pbits"]), ("elem", e["cbits"] + e["pbits"])):
            ok, got = _call(mon, "getElem", fmt.getElem, r, ty)
            if ok:
                mon.count("defaults_checked")
                mon.check(got == exp, f"spec:getElem:{ty}", f"getElem({r!r}, {ty!r}) = {got!r}, expected {exp!r}")
    root_omitted = [fld for fld in ("hbits", "pbits") if fld not in raw_spec.get("root", {})]
    n_omitted += len(root_omitted)
    mon.count("omitted_fields", n_omitted)
    if "root" not in raw_spec:
        mon.count("omitted_root")
    mon.count("omitted_ranks", sum(1 for r in rids if r not in raw_spec))

    # ---- root, ranks, tensor (before the point queries)
    ok, got = _call(mon, "getRoot", fmt.getRoot)
    if ok:
        kind = "default" if root_omitted else "given"
        mon.check(_is_int(got) and got == model.root_bits(), f"getRoot:sum:{kind}",
                  f"getRoot() = {got!r}, expected hbits + pbits = {model.root_bits()} (root entry {raw_spec.get('root')!r})")
    rank_want = [model.rank_bits(d, by_depth) for d in range(depth)]
    tensor_want = model.root_bits() + sum(rank_want)

    def ranks_and_tensor(phase):
        for d, r in enumerate(rids):
            ok, got = _call(mon, "getRank", fmt.getRank, r)
            if ok:
                mon.count("getRank_checked")
                f_ = want[r]["format"]
                mon.check(_is_int(got) and got == rank_want[d], f"getRank:sum:{model.tag(d)}{phase}",
                          f"getRank({r!r}) = {got!r}, expected rhbits + sum over the {len(by_depth[d])} fibers of the "
                          f"rank = {rank_want[d]} (format {f_}, depth {d})")
        ok, got = _call(mon, "getTensor", fmt.getTensor)
        if ok:
            mon.count("getTensor_checked")
            mon.check(_is_int(got) and got == tensor_want, f"getTensor:sum{model.src()}{phase}",
                      f"getTensor() = {got!r}, expected root {model.root_bits()} + ranks {rank_want} = {tensor_want}")
    ranks_and_tensor("")

    # ---- fibers and sub-trees at every stored proper prefix, and at absent prefixes
    queries = []        # (prefix, depth of the fiber, fiber or None, judged, absent)

    def collect(f, d, prefix):
        queries.append((prefix, d, f, True, False))
        if d == depth - 1:
            return
        for c, p in zip(f.coords, f.payloads):
            if isinstance(p, Fiber):
                collect(p, d + 1, prefix + (c,))
        if True:
            absent = [c for c in range(model.shape[d]) if c not in set(f.coords)]
            parent_u = want[rids[d]]["format"] == "U"
            for c in sorted(set(absent[:1] + absent[-1:])):
                queries.append((prefix + (c,), d + 1, None, parent_u, True))
                if d + 2 <= depth - 1:
                    queries.append((prefix + (c, 0), d + 2, None,
                                    parent_u and want[rids[d + 1]]["format"] == "U", True))
    collect(model.root, 0, ())
    sub_root = None
    for prefix, d, f, judged, absent in queries:
        tag = model.tag(d) + (":absent" if absent else "")
        if absent:
            mon.count("absent_prefix_queries")
        ok, got = _call(mon, "getFiber", fmt.getFiber, *prefix)
        if ok and judged:
            exp = model.fiber_bits(d, f)
            mon.count("getFiber_checked")
            mon.check(_is_int(got) and got == exp, f"getFiber:{tag}",
                      f"getFiber{prefix} = {got!r}, expected fhbits + (cbits+pbits) x "
                      f"{'occupancy' if tag[0] == 'C' else 'shape'} = {exp} (depth {d}, "
                      f"{'absent' if f is None else str(len(f.coords)) + ' stored elements'})")
        ok, got = _call(mon, "getSubTree", fmt.getSubTree, *prefix)
        if ok and judged:
            before, before_o = model.u_absent, model.u_outside_active
            exp = model.subtree_bits(d, f)
            mon.count("u_absent_children", model.u_absent - before)
            mon.count("u_children_outside_active", model.u_outside_active - before_o)
            mon.count("getSubTree_checked")
            below = "".join(want[r]["format"] for r in rids[d:])
            mon.check(_is_int(got) and got == exp, f"getSubTree:{below}{model.src(d)}" + (":absent" if absent else ""),
                      f"getSubTree{prefix} = {got!r}, expected {exp} = sum over the fibers reachable below the point "
                      f"(formats from there down: {below})")
            if prefix == ():
                sub_root = got

    # ---- the rank lists the library sums over must still mirror the tree after the queries
    ranks_and_tensor(":after-queries")

    # ---- the filled spec the object exposes
    try:
        exposed = {k: dict(v) for k, v in fmt.spec.items()}
    except BaseException as e:      # noqa
        exposed = repr(e)
    mon.check(exposed == want, "spec:filled-dict", f"Format.spec after construction is {exposed!r}, expected {want!r}")

    if stored > 0 and sum(rank_want) > 0:
        mon.nontrivial()
    mon.state(("fp", "".join(want[r]["format"] for r in rids), tensor_want, rank_want, sub_root))
    return fmt
