"""C11 - arithmetic on boxes, on coordinate-payload elements and on fibers agrees with arithmetic
on the underlying values.

Two layers of monitors, both watching real executions of the real operators:

 * function-level contracts (icontract.ensure + icontract.snapshot, named condition functions, explicit
   error factories) attached to every operator method that `Payload` and `CoordPayload` define for the
   operator universe of the statement.  They stay attached for the whole life of the shard process,
   i.e. during the operator-table sweep, during the fiber-arithmetic workload and during the
   kernel-style loops, and every evaluation is counted (a count of zero makes the run inconclusive);
 * client-level oracles in the driver: the result the *client* gets from `x op y` / `x op= y`
   (unboxed value, identity of the box after an in-place form, exception agreement with the raw
   operator) and, for fibers, a dense-view oracle computed from the raw coordinate/payload lists of
   the operands read before the operation.
"""
import itertools
import operator

from fibertree import Fiber, Payload, CoordPayload, Tensor, Metrics

# ------------------------------------------------------------------------------------------
# operator universe (what the two classes document + reflected and in-place forms)
# ------------------------------------------------------------------------------------------
BIN = [("+", "add", operator.add), ("-", "sub", operator.sub), ("*", "mul", operator.mul),
       ("/", "truediv", operator.truediv), ("//", "floordiv", operator.floordiv),
       ("<<", "lshift", operator.lshift), ("&", "and", operator.and_), ("|", "or", operator.or_)]
CMP = [("==", "eq", operator.eq), ("!=", "ne", operator.ne), ("<", "lt", operator.lt),
       ("<=", "le", operator.le), (">", "gt", operator.gt), (">=", "ge", operator.ge)]


def _assign(a, b):
    return b


# in-place: symbol, dunder stem, operator-module function performing `x op= y`, raw meaning
INP = [("+=", "iadd", operator.iadd, operator.add), ("-=", "isub", operator.isub, operator.sub),
       ("*=", "imul", operator.imul, operator.mul), ("/=", "itruediv", operator.itruediv, operator.truediv),
       ("//=", "ifloordiv", operator.ifloordiv, operator.floordiv),
       ("&=", "iand", operator.iand, operator.and_), ("|=", "ior", operator.ior, operator.or_),
       ("<<=", "ilshift", operator.ilshift, _assign)]

BIN_BY_SYM = {s: (d, f) for s, d, f in BIN}
CMP_BY_SYM = {s: (d, f) for s, d, f in CMP}
INP_BY_SYM = {s: (d, f, r) for s, d, f, r in INP}

BIN_KINDS = ["box-box", "box-scalar", "scalar-box", "elem-elem", "elem-scalar", "scalar-elem", "elem-box", "box-elem"]
INP_KINDS = ["box-box", "box-scalar", "box-elem", "elem-elem", "elem-scalar", "elem-box"]

VALS_QUICK = [-3, 0, 1, 2, 7, 0.5, 2.0, -1.5, 64]
VALS_EXTRA = [-1, 3, 5, 10, 31, -8, 1 << 40, 0.25, -0.5, 3.5, 1e3, True, False]

# coordinates of hand-built elements: [coordinate of the left element, coordinate of the right element].  They vary
# independently of the values: equal / different, ints / tuples (points), a coordinate that equals the other
# operand's value, a coordinate far outside any fiber
COORD_PAIRS = [[3, 3], [1, 4], [7, 2], [0, 5], [[0, 1], [2, 3]], [[1, 2], [1, 2]], [2, 0], [1 << 20, 64]]

# operator methods that exist on the unchanged tree: each must be evaluated (min_counts)
_PAYLOAD_METHODS = ["add", "radd", "iadd", "sub", "rsub", "isub", "mul", "rmul", "imul", "truediv",
                    "lshift", "and", "or", "ilshift", "eq", "ne", "lt", "le", "gt", "ge"]
_ELEM_METHODS = ["add", "radd", "iadd", "sub", "rsub", "isub", "mul", "rmul", "imul", "ilshift",
                 "eq", "ne", "lt", "le", "gt", "ge"]
_FIBER_FORMS = ["Fiber.+fiber", "Fiber.*fiber", "Fiber.+=fiber", "Fiber.*=fiber", "Fiber.+scalar", "scalar.+Fiber",
                "Fiber.*scalar", "scalar.*Fiber", "Fiber.+=scalar", "Fiber.*=scalar"]
_HISTORY_KINDS = ["savedpos", "savedpos-at", "lookup", "lookup-ref", "position", "walk", "imul", "iadd", "populate", "imul-s"]
# operations run on operands whose saved search position is non-zero (per form), and history steps executed (per kind)
_MIN_STATE = {f"stateful_ops:{w}": 200 for w in _FIBER_FORMS}
_MIN_STATE.update({f"stateful_ops:{w}:depth2": 20 for w in _FIBER_FORMS[:4]})
_MIN_STATE.update({f"history_steps:{h}": 200 for h in _HISTORY_KINDS})
_MIN_STATE.update({"stateful_ops": 5000, "stateful_ops:left": 4000, "stateful_ops:right": 1000, "stateful_ops:kernel": 50,
                   "history_steps_judged": 1500, "result_wellformed_checked": 10000})
# operator sequences (value-returning operator, then an in-place form on its result / on an operand)
_MIN_SEQ = {"chain_sequences": 8000, "chain_sequences:result": 4000, "chain_sequences:operand": 4000,
            "chain_sequences:identity-operand": 3000, "fiber_sequences": 800, "fiber_sequences:identity-element": 150}
_MIN_SEQ.update({f"fiber_sequences:{o}:{d}": 200 for o in "+*" for d in ("result", "operand")})
_MIN_CE = {f"ce:Payload.__{m}__": 10 for m in _PAYLOAD_METHODS}
_MIN_CE.update({f"ce:CoordPayload.__{m}__": 10 for m in _ELEM_METHODS})

SPEC = {
    "anchors": ["fibertree.core.payload:Payload.__add__", "fibertree.core.payload:Payload.__radd__", "fibertree.core.payload:Payload.__iadd__", "fibertree.core.payload:Payload.__sub__", "fibertree.core.payload:Payload.__rsub__", "fibertree.core.payload:Payload.__isub__", "fibertree.core.payload:Payload.__mul__", "fibertree.core.payload:Payload.__rmul__", "fibertree.core.payload:Payload.__imul__", "fibertree.core.payload:Payload.__truediv__", "fibertree.core.payload:Payload.__floordiv__", "fibertree.core.payload:Payload.__eq__", "fibertree.core.payload:Payload.__lt__", "fibertree.core.payload:Payload.__le__", "fibertree.core.payload:Payload.__gt__", "fibertree.core.payload:Payload.__ge__", "fibertree.core.payload:Payload.__ne__", "fibertree.core.payload:Payload.__and__", "fibertree.core.payload:Payload.__or__", "fibertree.core.payload:Payload.__lshift__", "fibertree.core.payload:Payload.__ilshift__", "fibertree.core.coord_payload:CoordPayload.__add__", "fibertree.core.coord_payload:CoordPayload.__iadd__", "fibertree.core.coord_payload:CoordPayload.__imul__", "fibertree.core.coord_payload:CoordPayload.__ilshift__", "fibertree.core.coord_payload:CoordPayload.__truediv__", "fibertree.core.coord_payload:CoordPayload.__eq__", "fibertree.core.coord_payload:CoordPayload.__lt__", "fibertree.core.fiber:Fiber.__add__", "fibertree.core.fiber:Fiber.__radd__", "fibertree.core.fiber:Fiber.__iadd__", "fibertree.core.fiber:Fiber.__mul__", "fibertree.core.fiber:Fiber.__rmul__", "fibertree.core.fiber:Fiber.__imul__"],
    "rule": ("cases = (i) operator table: every operator of {+ - * / // << & |, == != < <= > >=} and every in-place form "
             "{+= -= *= /= //= &= |= <<=(assign)} x operand kind {box-box, box-scalar, scalar-box, elem-elem, elem-scalar, "
             "scalar-elem, elem-box, box-elem} x every ordered pair of a fixed value set (ints, floats, zero, negative, "
             "large) + random int/float pairs; hand-built elements sit at coordinates chosen independently of their values "
             "(every element-element value pair x operator under a fixed set of coordinate pairs: equal / different, ints / "
             "tuples, a coordinate equal to the other value; one-element kinds rotate through the same set; random "
             "coordinates for the random pairs); operator SEQUENCES r = x op y followed by an in-place form {+= *= -= <<=} "
             "with a scalar or boxed operand, applied to the result r or to an operand, for every arithmetic operator x "
             "operand kind x ordered value pair (+ random pairs that include the identities 0 / 1): afterwards r, x and y "
             "must hold what the same program on the values gives; (ii) fibers: every ordered pair of 3-state (absent / explicit default / value) "
             "leaf fibers over {0..3} under + * += *=, every 3-state fiber x scalar x shape/active-range variant under "
             "f+s s+f f*s s*f f+=s f*=s, random longer / empty / disjoint fibers with non-zero defaults, explicit "
             "defaults, declared shape wider than the active range, partitions made by splitUniform, tensor-owned roots, "
             "depth-2 trees; SEQUENCES h = f op g (op in + *) followed by h *= s or f *= s on default-0 compressed operands "
             "(every ordered pair of 2-state fibers over {0..3} whose right values include the identity 1, + about half of "
             "the random default-0 pairs): h, f and g must hold what the element-wise definition gives for the sequence; "
             "fiber operands are fresh or carry a HISTORY of 1-3 earlier public operations on the same fiber "
             "(setSavedPos to a valid position, shortcut lookups getPayload/getPayloadRef/getPosition with start_pos, an "
             "iteration resumed at a start_pos, an earlier in-place product or sum with another fiber - judged like any other - "
             "an earlier populate loop, an earlier f *= scalar) on either operand of every form; every 3-state left fiber over "
             "{0..3} x every non-zero saved search position x every 2-state right fiber (fresh / at its last position) under "
             "+ * += *= and x scalar under the six scalar forms; the expected result is computed from the raw lists read "
             "after the history, and every result's stored coordinates must be strictly increasing; "
             "(iii) kernel-style loops (dot product, z << (a & b) accumulate, element-wise loops over "
             "iterated elements; every element of one fiber against every element of another fiber and a positional "
             "zip walk of two fibers under + - * and the six comparisons, element-element, element-box and box-element; "
             "element op= element over a positional walk) with a raw-value oracle.  The icontract postconditions on the Payload/CoordPayload "
             "operator methods are active in all three.  Non-trivial = operator-table case with at least one value pair "
             "on which the raw operator returns (does not raise); fiber case whose operands hold at least one stored "
             "element and whose expected result is non-empty; distinct = distinct case description."),
    "shards": {"quick": 16, "thorough": 16},
    "min_counts": {
        "quick": dict({"evaluations": 4000, "oracle_evals": 60000, "contract_evals": 40000,
                       "contract_evals:optable": 5000, "contract_evals:fiber": 10000, "contract_evals:kernel": 2000,
                       "optable_executions": 5000, "fiber_ops_checked": 10000, "inplace_identity_checked": 3000,
                       "exceptions_agreed": 200, "kernel_results_checked": 300,
                       "ops_under_metrics_collection": 500,
                       "elem_pairs:same-coord": 1000, "elem_pairs:distinct-coords": 3000,
                       "elem_pairs:distinct-coords:equal-values": 300, "elem_single:coord-varied": 2000,
                       "kernel_element_pairs": 800, "kernel_element_pairs:distinct-coords": 600,
                       "kernel_element_pairs:distinct-coords:equal-values": 60}, **_MIN_CE, **_MIN_STATE, **_MIN_SEQ),
        "thorough": dict({"evaluations": 40000, "oracle_evals": 600000, "contract_evals": 400000,
                          "contract_evals:optable": 50000, "contract_evals:fiber": 100000,
                          "contract_evals:kernel": 20000, "fiber_ops_checked": 100000,
                          "elem_pairs:same-coord": 5000, "elem_pairs:distinct-coords": 15000,
                          "elem_pairs:distinct-coords:equal-values": 1000, "elem_single:coord-varied": 10000,
                          "kernel_element_pairs": 8000, "kernel_element_pairs:distinct-coords": 6000,
                          "kernel_element_pairs:distinct-coords:equal-values": 600}, **_MIN_CE, **_MIN_SEQ,
                         **{k: 3 * v for k, v in _MIN_STATE.items()}),
    },
    "assumptions": [
        "fiber (+|+=) fiber: the right operand's leaf default is 0 - with a non-zero default the elementwise sum at coordinates absent from both operands (default+default) is not representable, and f+g / f+=g treat the right default differently at left-only coordinates",
        "operand values are Python ints (incl. bool, large ints) and finite floats; no NaN/inf operands; shift counts <= 128",
        "operator universe = the operators both class docstrings list (+ - * / // << & |, == != < <= > >=, <<= as "
        "assignment) with their reflected and in-place forms; an exception of the same type as the one the raw operator "
        "raises on the raw values (ZeroDivisionError, TypeError for float << int, ValueError for a negative shift) is agreement",
        "the coordinate of an element is not an operand: the expected result of every operator on elements is computed "
        "from the two values only, whatever coordinates (ints or tuples of ints) the elements sit at; the coordinate "
        "carried by a result element is not judged",
        "results are compared after unboxing, with type-strict equality (1 and 1.0 differ); the box/no-box form of a "
        "value-returning result and the identity of the objects are C10's, not judged here; what IS judged is values: in "
        "an operator sequence (value-returning operator, then an in-place form on its result or on one of its operands) "
        "every box / fiber involved must hold afterwards what the same sequence on the underlying values gives (numbers "
        "are values: `r = a * b; r += c` leaves a and b alone, `a += c` leaves an earlier r alone); a sequence whose "
        "first step raises or returns no box is not continued (the operator table judges that step); fiber sequences "
        "use default-0 compressed (not format-U) operands and scale by a non-zero scalar; an empty (0) element of a sum "
        "stays empty under the scaling",
        "fibers: ordered/unique leaf fibers with integer coordinates, all stored coordinates inside the shape; "
        "when no shape is declared the shape used by f+s is the documented estimate (largest stored coordinate + 1)",
        "an empty coordinate has the fiber's default as its value (class docstring); 'stored elements' scaled by f*s are the "
        "non-empty elements (an explicit default is indistinguishable from an absent element in content)",
        "the result is judged as a dense view against the left operand's default; default/shape/active-range/rank-id "
        "attributes of the result are C14's; coordinates outside the union / intersection / shape must be empty",
        "format-U (uncompressed) tensor-owned operands only with default 0 (their iteration presents default elements)",
        "format-U operands only in pairs whose defaults are both 0; kernel-style loops iterate compressed operands",
        "fiber-fiber operations executed while Metrics collection is on use a left operand with a declared shape (the "
        "populate trace model asserts an authoritative shape; metrics themselves are C15's); kernel-style loops under "
        "Metrics collection use unowned operands (one common rank id, as the Metrics line model requires); the loops "
        "that iterate two fibers at once (element pairs, zip walks) run without Metrics collection",
        "state left on a fiber operand by earlier public operations (saved search position and its statistics, explicit "
        "default elements, an active range taken over by an earlier populate / f += g) is not content: the expected result "
        "of an arithmetic form is the one computed from the operands' raw coordinate/payload lists as they are when the "
        "form is applied; shortcut lookups in a history respect the documented start_pos precondition (the coordinate at "
        "start_pos is <= the coordinate looked up) and setSavedPos is given valid positions only; format-U operands get no "
        "history step that moves the active range (f += g, populate: a format-U fiber presents its active range, and what "
        "populate does to it is C05's/C14's); in a depth-2 history an in-place step is skipped on a root without sub-fibers",
        "a result (value-returning or in-place) must be a well-formed ordered fiber: stored coordinates strictly "
        "increasing at every level - otherwise its content is not well defined (lookups bisect)",
        "depth-2 trees only for fiber-fiber forms with default 0 (scalar forms are leaf-only in the library's documentation); "
        "the left operand's root stores at least one sub-fiber (an unowned empty root cannot know that it is interior)",
    ],
}

# ------------------------------------------------------------------------------------------
# canonical witnesses (replay form) of the violation classes seen on the tree this check was
# written against; not used by the check itself - they are the `witness` of a known_findings entry
# ------------------------------------------------------------------------------------------
def _w_op(form, op, okind, a, b):
    return {"kind": "optable", "form": form, "op": op, "okind": okind, "a": a, "bs": [b]}


def _w_ff(sa, sb, d=0):
    return {"kind": "ff", "a": {"build": "ctor", "spec": sa, "default": d, "shape": 4},
            "b": {"build": "ctor", "spec": sb, "default": d, "shape": 4}}


WITNESSES = {
    "CoordPayload.<<=:returns-None": _w_op("inplace", "<<=", "elem-elem", 4, 6),
    "CoordPayload.<<=:value": _w_op("inplace", "<<=", "elem-scalar", 4, 6),
    "Payload./=:rebinds-new-box": _w_op("inplace", "/=", "box-scalar", 6, 3),
    "Payload.&=:rebinds-new-box": _w_op("inplace", "&=", "box-scalar", 6, 3),
    "Payload.|=:rebinds-new-box": _w_op("inplace", "|=", "box-scalar", 6, 3),
    "Payload:missing-operator://:forward": _w_op("binary", "//", "box-scalar", 7, 2),
    "Payload:missing-operator://=:inplace": _w_op("inplace", "//=", "box-scalar", 7, 2),
    "Fiber.*=fiber:content:self-only": _w_ff([[0, 2], [1, 3]], [[1, 5]]),
    "Fiber.*=fiber:content:self-only:nonzero-default": _w_ff([[0, 2], [1, 3]], [[1, 5]], 7),
    "Fiber.+=fiber:content:self-only:nonzero-default": _w_ff([[0, 1]], [[1, 4]], 7),
    "Fiber.*=fiber:depth2:content:self-only": {"kind": "tree2", "a": [[0, [[0, 2]]], [1, [[0, 3]]]], "b": [[1, [[0, 5]]]]},
}
for _op in ("//", "/", "<<", "&", "|"):
    WITNESSES[f"Payload:missing-operator:{_op}:reflected"] = _w_op("binary", _op, "scalar-box", 6, 3)
    WITNESSES[f"CoordPayload:missing-operator:{_op}:forward"] = _w_op("binary", _op, "elem-scalar", 6, 3)
    WITNESSES[f"CoordPayload:missing-operator:{_op}:reflected"] = _w_op("binary", _op, "scalar-elem", 6, 3)
for _op in ("/=", "//=", "&=", "|="):
    WITNESSES[f"CoordPayload:missing-operator:{_op}:inplace"] = _w_op("inplace", _op, "elem-scalar", 6, 3)

# ------------------------------------------------------------------------------------------
# shared helpers
# ------------------------------------------------------------------------------------------
_NUM = (int, float)          # bool is an int
_CUR = {"mon": None, "phase": "idle"}


class C11ContractViolation(BaseException):
    """Raised by a failed postcondition (BaseException so that no `except Exception` in the library hides it).
    The failure has already been reported to the monitor when this is raised."""

    def __init__(self, failures):
        super().__init__("; ".join(m for _, m in failures))
        self.failures = failures


def val(x):
    """Raw value of a box / element / scalar, read from the instance dictionaries."""
    for _ in range(3):
        if isinstance(x, CoordPayload):
            x = x.__dict__.get("payload")
        elif isinstance(x, Payload):
            x = x.__dict__.get("value")
        else:
            break
    return x


def same(a, b):
    """Type-strict equality of two raw results."""
    if type(a) is not type(b):
        return False
    if isinstance(a, float) and a != a and b != b:
        return True
    return a == b


def libname(x):
    if isinstance(x, CoordPayload):
        return "CoordPayload"
    if isinstance(x, Payload):
        return "Payload"
    return None


def kind_of(x):
    return {"CoordPayload": "elem", "Payload": "box", None: "scalar"}[libname(x)]


def raw_apply(fn, a, b):
    """-> ("ok", value) | ("exc", exception)"""
    try:
        return "ok", fn(a, b)
    except Exception as e:   # noqa  raw operators on numbers raise ordinary exceptions only
        return "exc", e


# ------------------------------------------------------------------------------------------
# contracts
# ------------------------------------------------------------------------------------------
_ATTACHED = {}


def _report(method, failures):
    mon = _CUR["mon"]
    if mon is not None:
        for key, msg in failures:
            mon.violation(key, f"[postcondition of {method} during {_CUR['phase']}] {msg}")


def _count(method):
    mon = _CUR["mon"]
    if mon is not None:
        c = mon.counters
        c["oracle_evals"] += 1
        c["contract_evals"] += 1
        c["contract_evals:" + _CUR["phase"]] += 1
        c["ce:" + method] += 1


def _numeric(*vs):
    return all(isinstance(v, _NUM) for v in vs)


def snapshot_operand_values(_ARGS):
    """OLD.vals: raw values of (self, other) before the call, and the element's box object."""
    self, other = _ARGS[0], _ARGS[1]
    box = self.__dict__.get("payload") if isinstance(self, CoordPayload) else self
    return (val(self), val(other), box)


def _make_value_contract(cls_name, sym, dunder, raw, reflected):
    method = f"{cls_name}.__{dunder}__"
    last = []

    def result_equals_raw_operator_on_values(_ARGS, result, OLD):
        a, b, _ = OLD.vals
        del last[:]
        if not _numeric(a, b):
            return True
        _count(method)
        how, exp = raw_apply(raw, b, a) if reflected else raw_apply(raw, a, b)
        got = val(result)
        shown = f"{b!r} {sym} {a!r}" if reflected else f"{a!r} {sym} {b!r}"
        if isinstance(_ARGS[0], CoordPayload) and isinstance(_ARGS[1], CoordPayload):
            shown += (f" [elements at coordinates {_ARGS[0].__dict__.get('coord')!r} and "
                      f"{_ARGS[1].__dict__.get('coord')!r}]")
        if how == "exc":
            last.append((f"{cls_name}.{sym}:should-raise",
                         f"{shown} on the values raises {type(exp).__name__} but the {cls_name} operator returned {got!r}"))
        elif not same(got, exp):
            last.append((f"{cls_name}.{sym}:value", f"{shown}: got {got!r}, the values give {exp!r}"))
        return not last

    def value_contract_error(_ARGS, result, OLD):
        _report(method, last)
        return C11ContractViolation(list(last))

    return result_equals_raw_operator_on_values, value_contract_error


def _make_inplace_contract(cls_name, sym, dunder, raw):
    method = f"{cls_name}.__{dunder}__"
    last = []

    def inplace_updates_same_box_with_raw_result(_ARGS, result, OLD):
        a, b, box = OLD.vals
        self = _ARGS[0]
        del last[:]
        if not _numeric(a, b):
            return True
        _count(method)
        mon = _CUR["mon"]
        if mon is not None:
            mon.counters["inplace_identity_checked"] += 1
        if result is None:
            last.append((f"{cls_name}.{sym}:returns-None",
                         f"`x {sym} {b!r}` on {cls_name}({a!r}) returned None: the name is rebound to None"))
        elif result is not self:
            last.append((f"{cls_name}.{sym}:rebinds-new-box",
                         f"`x {sym} {b!r}` on {cls_name}({a!r}) returned another object ({type(result).__name__})"))
        if isinstance(self, CoordPayload) and self.__dict__.get("payload") is not box:
            last.append((f"{cls_name}.{sym}:payload-box-replaced",
                         f"`x {sym} {b!r}` replaced the element's payload box instead of updating it"))
        how, exp = raw_apply(raw, a, b)
        got = val(self)
        if how == "exc":
            last.append((f"{cls_name}.{sym}:should-raise",
                         f"{a!r} {sym[:-1]} {b!r} raises {type(exp).__name__} but the in-place form returned"))
        elif not same(got, exp):
            last.append((f"{cls_name}.{sym}:value",
                         f"after `x {sym} {b!r}` on {cls_name}({a!r}) the box holds {got!r}, expected {exp!r}"))
        return not last

    def inplace_contract_error(_ARGS, result, OLD):
        _report(method, last)
        return C11ContractViolation(list(last))

    return inplace_updates_same_box_with_raw_result, inplace_contract_error


def ensure_contracts():
    """Attach postconditions to every operator method the two classes define (idempotent)."""
    if _ATTACHED:
        return _ATTACHED
    import icontract
    for cls in (Payload, CoordPayload):
        cn = cls.__name__
        table = []
        for sym, stem, raw in BIN:
            table.append((f"__{stem}__", _make_value_contract(cn, sym, stem, raw, False)))
            table.append((f"__r{stem}__", _make_value_contract(cn, sym, "r" + stem, raw, True)))
        for sym, stem, raw in CMP:
            table.append((f"__{stem}__", _make_value_contract(cn, sym, stem, raw, False)))
        for sym, stem, _, raw in INP:
            table.append((f"__{stem}__", _make_inplace_contract(cn, sym, stem, raw)))
        for name, (cond, err) in table:
            fn = cls.__dict__.get(name)
            if fn is None or not callable(fn):
                continue
            wrapped = icontract.snapshot(snapshot_operand_values, name="vals")(
                icontract.ensure(cond, error=err)(fn))
            setattr(cls, name, wrapped)
            _ATTACHED[f"{cn}.{name}"] = True
    return _ATTACHED


# ------------------------------------------------------------------------------------------
# generation
# ------------------------------------------------------------------------------------------
VA = [1, -2, 0.5, 3]
VB = [4, 2.0, -1, 6]
SCALARS = [-2, 0, 1, 3, 0.5]
VB_ID = [1, 2.0, -1, 1]         # right-operand values of the operation-sequence pairs: include the identity of *
CHAIN_SCALARS = [3, -2, 0.5, 10]
# in-place forms applied after a value-returning operator (to its result, or to one of its operands) and their operand
CHAIN_THEN = [("+=", 5), ("*=", 4), ("-=", 0.5), ("<<=", 100)]


def _vec_spec(vec, values, default=0):
    out = []
    for i, s in enumerate(vec):
        if s == 1:
            out.append([i, default])
        elif s == 2:
            out.append([i, values[i % len(values)]])
    return out


def generate(rng, tier, shard, nshards, mon):
    idx = 0
    # (i) operator table ------------------------------------------------------------------
    vals = VALS_QUICK if tier == "quick" else VALS_QUICK + VALS_EXTRA
    for sym, _, _ in BIN + CMP:
        for kind in BIN_KINDS:
            for a in vals:
                if idx % nshards == shard:
                    yield {"kind": "optable", "form": "binary", "op": sym, "okind": kind, "a": a, "bs": vals,
                           "coords": _coords_for(kind, idx)}
                idx += 1
    for sym, _, _, _ in INP:
        for kind in INP_KINDS:
            for a in vals:
                if idx % nshards == shard:
                    yield {"kind": "optable", "form": "inplace", "op": sym, "okind": kind, "a": a, "bs": vals,
                           "coords": _coords_for(kind, idx)}
                idx += 1
    # operator SEQUENCES: r = x op y, then an in-place form on r (or on an operand): every value-returning arithmetic
    # operator x operand kind x ordered value pair x in-place form
    for sym, _, _ in BIN:
        for kind in BIN_KINDS:
            for a in vals:
                if idx % nshards == shard:
                    yield {"kind": "chain", "op": sym, "okind": kind, "a": a, "bs": vals, "rot": idx,
                           "coords": _coords_for(kind, idx)}
                idx += 1
    mon.exhaustive[f"operator-sequence-table-{len(vals)}x{len(vals)}-values"] = True
    mon.exhaustive[f"operator-table-{len(vals)}x{len(vals)}-values"] = True
    mon.exhaustive[f"element-element-table-{len(vals)}x{len(vals)}-values-x-{len(COORD_PAIRS)}-coordinate-pairs"] = True
    # (ii) fibers: all ordered pairs of 3-state leaf fibers over {0..3} ----------------------------
    vecs = list(itertools.product(range(3), repeat=4))
    for va in vecs:
        for vb in vecs:
            if idx % nshards == shard:
                yield {"kind": "ff", "a": {"build": "ctor", "spec": _vec_spec(va, VA), "default": 0,
                                           "shape": [None, 4, 6][idx // nshards % 3]},
                       "b": {"build": "ctor", "spec": _vec_spec(vb, VB), "default": 0,
                             "shape": [None, 4, 6][idx // nshards % 3]}}
            idx += 1
    mon.exhaustive["fiber-pairs-3state-n4"] = True
    # operation sequences on fibers: every ordered pair of 2-state fibers over {0..3} whose values include the
    # identities of the two operators (0 is the empty value; 1), followed by an in-place scaling (see _ff_chain)
    vecs01 = list(itertools.product((0, 2), repeat=4))
    for va in vecs01:
        for vb in vecs01:
            if idx % nshards == shard:
                yield {"kind": "ff", "chain_only": True, "s2": CHAIN_SCALARS[idx // nshards % len(CHAIN_SCALARS)],
                       "a": {"build": "ctor", "spec": _vec_spec(va, VA), "default": 0, "shape": [None, 4, 6][idx // nshards % 3]},
                       "b": {"build": "ctor", "spec": _vec_spec(vb, VB_ID), "default": 0,
                             "shape": [None, 4, 6][idx // nshards % 3]}}
            idx += 1
    mon.exhaustive["fiber-pairs-2state-n4-then-inplace"] = True
    for va in vecs:
        for s in SCALARS:
            for shape, active in ((None, None), (4, None), (6, None), (6, [1, 3]), (8, [4, 8])):
                if idx % nshards == shard:
                    yield {"kind": "fs", "a": {"build": "ctor", "spec": _vec_spec(va, VA), "default": 0,
                                               "shape": shape, "active": active}, "s": s}
                idx += 1
    mon.exhaustive["fiber-scalar-3state-n4"] = True
    # the same small fibers with a saved search position other than the one a fresh fiber has: every 3-state left
    # operand x every non-zero valid position; right operand 2-state (absent / value), fresh or at its last position
    vecs2 = list(itertools.product((0, 2), repeat=4))
    for va in vecs:
        spec_a = _vec_spec(va, VA)
        for k in range(1, len(spec_a)):
            for vb in vecs2:
                if idx % nshards == shard:
                    b = {"build": "ctor", "spec": _vec_spec(vb, VB), "default": 0, "shape": [None, 4, 6][idx // nshards % 3]}
                    if (idx // nshards) % 2:
                        b["history"] = [["savedpos-at", 3]]
                    yield {"kind": "ff", "a": {"build": "ctor", "spec": spec_a, "default": 0, "shape": b["shape"],
                                               "history": [["savedpos-at", k]]}, "b": b}
                idx += 1
            for s in SCALARS:
                if idx % nshards == shard:
                    yield {"kind": "fs", "a": {"build": "ctor", "spec": spec_a, "default": 0,
                                               "shape": [None, 4, 6][idx // nshards % 3], "active": None,
                                               "history": [["savedpos-at", k]]}, "s": s}
                idx += 1
    mon.exhaustive["fiber-pairs-and-scalars-3state-n4-x-saved-position"] = True
    # random ---------------------------------------------------------------------------------------
    nrand = (6000 if tier == "quick" else 160000) // nshards
    for _ in range(nrand):
        yield _random_case(rng)
    nvals = (600 if tier == "quick" else 8000) // nshards
    for _ in range(nvals):
        yield _random_optable(rng)


def _coords_for(okind, idx):
    """Coordinate pairs of an operator-table case.  element o element: every pair of COORD_PAIRS is run for every
    value pair; one element: the pairs are taken in rotation along the value list (start depends on the case)."""
    if okind == "elem-elem":
        return COORD_PAIRS
    if "elem" not in okind:
        return None
    k = idx % len(COORD_PAIRS)
    return COORD_PAIRS[k:] + COORD_PAIRS[:k]


def _rand_coord(rng, v=None):
    r = rng.random()
    if r < 0.5:
        return rng.randint(0, 12)
    if r < 0.65:
        return rng.choice([0, 1 << 31, 10 ** 12, 255])
    if r < 0.75 and isinstance(v, int) and not isinstance(v, bool):
        return v                    # a coordinate that happens to equal a value
    return [rng.randint(0, 4) for _ in range(rng.choice([2, 2, 3]))]


def _rand_coord_pairs(rng, a, bs):
    out = []
    for b in bs[:3]:
        ca = _rand_coord(rng, b)
        out.append([ca, ca if rng.random() < 0.25 else _rand_coord(rng, a)])
    return out


def _rand_value(rng):
    r = rng.random()
    if r < 0.45:
        return rng.randint(-20, 20)
    if r < 0.6:
        return rng.choice([0, 1, -1, 2, 1 << 33, -(1 << 35), 255, 1024])
    if r < 0.9:
        return rng.randint(-80, 80) / 4.0
    return rng.choice([True, False, 0.0, -0.0, 1e6, 1e-3])


def _random_optable(rng):
    form = rng.choice(["binary", "binary", "inplace", "chain"])
    if form == "chain":
        a = _rand_value(rng)
        kind = rng.choice(BIN_KINDS)
        bs = [_rand_value(rng) for _ in range(4)] + [1, rng.choice([0, -1, 1.0, 2])]
        return {"kind": "chain", "op": rng.choice(BIN)[0], "okind": kind, "a": a, "bs": bs, "rot": rng.randrange(8),
                "coords": _rand_coord_pairs(rng, a, bs) if "elem" in kind else None}
    if form == "binary":
        sym = rng.choice(BIN + CMP)[0]
        kind = rng.choice(BIN_KINDS)
    else:
        sym = rng.choice(INP)[0]
        kind = rng.choice(INP_KINDS)
    a = _rand_value(rng)
    bs = [_rand_value(rng) for _ in range(6)]
    if kind == "elem-elem" and rng.random() < 0.5:
        bs[rng.randrange(len(bs))] = a          # equal values (at whatever coordinates)
    return {"kind": "optable", "form": form, "op": sym, "okind": kind, "a": a, "bs": bs,
            "coords": _rand_coord_pairs(rng, a, bs) if "elem" in kind else None}


def _rand_leaf(rng, lo, hi, default, p_present=0.5, p_explicit=0.15, floats=True):
    vals = [1, 2, 3, 5, -1, -2, 7, 10] + ([0.5, 2.5, -1.5] if floats else [])
    out = []
    for c in range(lo, hi):
        r = rng.random()
        if r < p_explicit:
            out.append([c, default])
        elif r < p_explicit + p_present:
            out.append([c, rng.choice(vals)])
    return out


_RANGE_MOVING_OPS = ("iadd", "populate")


def _rand_history(rng, ext):
    """1-3 earlier public operations on the operand (see _apply_history)."""
    out = []
    for _ in range(rng.choice([1, 1, 2, 3])):
        r = rng.random()
        frac = round(rng.random(), 3)
        if r < 0.20:
            out.append(["savedpos", frac])
        elif r < 0.40:
            out.append([rng.choice(["lookup", "lookup", "lookup-ref", "position"]), rng.randrange(ext), frac])
        elif r < 0.48:
            out.append(["walk", frac])
        elif r < 0.68:
            out.append(["imul", _rand_leaf(rng, 0, ext, 0, 0.8, 0.1)])
        elif r < 0.86:
            out.append(["iadd", _rand_leaf(rng, 0, ext, 0, rng.choice([0.3, 0.6]), 0.1)])
        elif r < 0.94:
            out.append(["populate", _rand_leaf(rng, 0, ext, 0, 0.5, 0.0)])
        else:
            out.append(["imul-s", rng.choice([2, -1, 3])])
    return out


def _rand_fiber_desc(rng, ext, default, lo=0, hi=None):
    """A JSON description of how to build one leaf operand: construction + (in about 4 of 10) a history of earlier
    public operations on it."""
    desc = _rand_fresh_desc(rng, ext, default, lo, hi)
    if rng.random() < 0.4:
        desc["history"] = _rand_history(rng, ext)
        if desc.get("fmt") == "U":
            # a format-U fiber presents its ACTIVE RANGE; a populate (also the one inside f += g) takes the active range
            # over from its right operand, which is populate's matter (C05/C14), not arithmetic's
            desc["history"] = [h for h in desc["history"] if h[0] not in _RANGE_MOVING_OPS]
    return desc


def _rand_fresh_desc(rng, ext, default, lo=0, hi=None):
    hi = ext if hi is None else hi
    r = rng.random()
    dens = rng.choice([0.2, 0.5, 0.8, 1.0])
    if r < 0.10:
        spec = []
    else:
        spec = _rand_leaf(rng, lo, hi, default, dens, rng.choice([0.0, 0.15, 0.3]))
    r = rng.random()
    if r < 0.50:
        shape = rng.choice([None, ext, ext + rng.randint(1, 4)])
        active = None
        if shape is not None and rng.random() < 0.5:
            a0 = rng.randint(0, shape - 1)
            active = [a0, rng.randint(a0 + 1, shape)]
        return {"build": "ctor", "spec": spec, "default": default, "shape": shape, "active": active}
    if r < 0.75:
        # a partition of a larger fiber: shape = parent's, active range = the partition's
        shape = ext + rng.randint(0, 3)
        step = rng.randint(1, max(1, ext // 2 + 1))
        return {"build": "split", "spec": spec, "default": default, "shape": shape, "step": step,
                "part": rng.randint(0, 5), "post_halo": rng.choice([0, 0, 1, 2]), "pre_halo": rng.choice([0, 0, 1])}
    fmt = "C"
    if default == 0 and rng.random() < 0.3:
        fmt = "U"
    return {"build": "tensor", "spec": spec, "default": default, "shape": ext + rng.randint(0, 3), "fmt": fmt}


# kernel-style loops that combine elements handed out by iterating TWO fibers (elements at unrelated coordinates)
_TWO_FIBER_ELEMENT_KERNELS = ("element-pairs", "element-zip", "element-zip-inplace")


def _random_case(rng):
    r = rng.random()
    default = rng.choice([0, 0, 0, 0, 7, -1, 2.5])
    ext = rng.randint(1, 12)
    if r < 0.40:
        db = 0      # guard: right operand of fiber+fiber has default 0 (see SPEC assumptions)
        if rng.random() < 0.2:      # disjoint halves
            mid = ext // 2
            a = _rand_fiber_desc(rng, ext, default, 0, mid)
            b = _rand_fiber_desc(rng, ext, db, mid, ext)
        else:
            a = _rand_fiber_desc(rng, ext, default)
            b = _rand_fiber_desc(rng, ext, db)
        if default != 0 or db != 0:
            for d in (a, b):
                if "fmt" in d:
                    d["fmt"] = "C"      # format-U operands only when both defaults are 0 (see assumptions)
        case = {"kind": "ff", "a": a, "b": b, "metrics": rng.random() < 0.3 and a.get("shape") is not None}
        if default == 0 and "fmt" not in a and "fmt" not in b and rng.random() < 0.5:
            case["s2"] = rng.choice(CHAIN_SCALARS)      # ... followed by an in-place scaling (see _ff_chain)
        return case
    if r < 0.75:
        return {"kind": "fs", "a": _rand_fiber_desc(rng, ext, default), "s": rng.choice(SCALARS + [2, 10, -1, 2.5, 7]),
                "boxed": rng.random() < 0.25, "metrics": rng.random() < 0.2}
    if r < 0.85:
        e = [rng.randint(1, 4), rng.randint(1, 5)]
        a = _rand_tree2(rng, e)
        if not a:
            a = [[rng.randrange(e[0]), []]]     # an unowned empty root cannot know that it is interior
        case = {"kind": "tree2", "a": a, "b": _rand_tree2(rng, e)}
        for h in ("ha", "hb"):
            if rng.random() < 0.35:         # state on the root fibers (the leaves are reached through them)
                steps = []
                for _ in range(rng.choice([1, 2])):
                    r = rng.random()
                    if r < 0.4:
                        steps.append(["savedpos", round(rng.random(), 3)])
                    elif r < 0.6:
                        steps.append(["lookup", rng.randrange(e[0]), round(rng.random(), 3)])
                    else:
                        steps.append([rng.choice(["imul", "iadd"]), _rand_tree2(rng, e)])
                case[h] = steps
        return case
    k = rng.choice(["dot", "accumulate", "elements", "elements-inplace", "reduce",
                    "element-pairs", "element-pairs", "element-zip", "element-zip-inplace"])
    a, b = _rand_fiber_desc(rng, ext, 0), _rand_fiber_desc(rng, ext, 0)
    if k in _TWO_FIBER_ELEMENT_KERNELS and rng.random() < 0.5:
        # the second fiber lives at other coordinates (shifted / disjoint) and holds the same values in part
        shift = rng.randint(1, 6)
        src = a["spec"] if rng.random() < 0.6 else b["spec"]
        b = {"build": "ctor", "spec": [[c + shift, (v if rng.random() < 0.7 else v + 1)] for c, v in src],
             "default": 0, "shape": ext + shift + rng.randint(0, 2), "active": None}
    for d in (a, b):
        if "fmt" in d:
            d["fmt"] = "C"          # kernel loops iterate compressed operands (traversal modes are C07's)
    return {"kind": "kernel", "kernel": k, "a": a, "b": b, "s": rng.choice([2, -1, 3, 0.5]),
            "metrics": (k not in _TWO_FIBER_ELEMENT_KERNELS and rng.random() < 0.4
                        and a["build"] != "tensor" and b["build"] != "tensor")}


def _rand_tree2(rng, e):
    out = []
    for c in range(e[0]):
        r = rng.random()
        if r < 0.15:
            out.append([c, []])
        elif r < 0.75:
            out.append([c, _rand_leaf(rng, 0, e[1], 0, 0.6, 0.15)])
    return out


# ------------------------------------------------------------------------------------------
# building operands (through public constructors only)
# ------------------------------------------------------------------------------------------
def build_fiber(desc, mon=None):
    """-> (fiber, declared shape or None, keepalive).  The operand is built through public constructors and then
    taken through desc["history"]: earlier public operations on the same fiber (see _apply_history)."""
    f, shape, keep = _build_fresh(desc)
    if desc.get("history"):
        _apply_history(mon, f, desc["history"], desc.get("default", 0))
    return f, shape, keep


def _build_fresh(desc):
    spec = desc["spec"]
    coords = [c for c, _ in spec]
    pays = [p for _, p in spec]
    d = desc.get("default", 0)
    kind = desc["build"]
    if kind == "ctor":
        kw = {}
        if desc.get("shape") is not None:
            kw["shape"] = desc["shape"]
        if desc.get("active") is not None:
            kw["active_range"] = tuple(desc["active"])
        return Fiber(coords, pays, default=d, **kw), desc.get("shape"), None
    if kind == "split":
        parent = Fiber(coords, pays, default=d, shape=desc["shape"])
        parts = parent.splitUniform(desc["step"], pre_halo=desc.get("pre_halo", 0), post_halo=desc.get("post_halo", 0))
        subs = [p for p in parts.payloads if isinstance(p, Fiber)]
        if not subs:
            return Fiber([], [], default=d, shape=desc["shape"]), desc["shape"], None
        return subs[desc["part"] % len(subs)], desc["shape"], (parent, parts)
    if kind == "tensor":
        f = Fiber(coords, pays, default=d)
        t = Tensor.fromFiber(rank_ids=["K"], fiber=f, shape=[desc["shape"]], default=d)
        if desc.get("fmt", "C") != "C":
            t.setFormat("K", desc["fmt"])
        return t.getRoot(), desc["shape"], t
    raise ValueError(kind)


def build_tree2(spec):
    coords = [c for c, _ in spec]
    subs = [Fiber([c for c, _ in s], [p for _, p in s]) for _, s in spec]
    return Fiber(coords, subs)


def raw_map(f):
    """{coord: raw value} of the stored elements of a leaf fiber, from the raw lists."""
    out = {}
    dup = False
    for c, p in zip(f.coords, f.payloads):
        if c in out:
            dup = True
        out[c] = val(p)
    return out, dup


def raw_points(f, prefix=()):
    out = {}
    for c, p in zip(f.coords, f.payloads):
        if isinstance(p, Fiber):
            out.update(raw_points(p, prefix + (c,)))
        else:
            out[prefix + (c,)] = val(p)
    return out


# ------------------------------------------------------------------------------------------
# operand history: earlier PUBLIC operations on the same fiber.  They leave state behind that is not part of
# the fiber's content (the saved search position and its statistics, an active range taken over from an earlier
# right operand, explicit default elements); the content of an arithmetic result must not depend on it.
# ------------------------------------------------------------------------------------------
def _pos_for(f, c, frac):
    """A shortcut position that satisfies the documented precondition of start_pos for a lookup of coordinate c:
    a position whose coordinate is <= c (chosen among them by frac), else 0."""
    ok = [i for i, x in enumerate(f.coords) if x <= c]
    return ok[min(int(frac * len(ok)), len(ok) - 1)] if ok else 0


def _apply_history(mon, f, history, default, tree=False):
    for step in history:
        op = step[0]
        n = len(f.coords)
        mon.count("history_steps:" + op)
        if op == "savedpos":                    # a shortcut position set by the client (any valid position)
            f.setSavedPos(min(int(step[1] * n), n - 1) if n else 0)
        elif op == "savedpos-at":
            f.setSavedPos(min(step[1], n - 1) if n else 0)
        elif op == "lookup":                    # shortcut lookups: they save the position they arrived at
            f.getPayload(step[1], start_pos=_pos_for(f, step[1], step[2]))
        elif op == "lookup-ref":                # (inserts an explicit default element when the coordinate is empty)
            f.getPayloadRef(step[1], start_pos=_pos_for(f, step[1], step[2]))
        elif op == "position":
            f.getPosition(step[1], start_pos=_pos_for(f, step[1], step[2]))
        elif op == "walk":                      # an iteration resumed from a shortcut position
            if n:
                for _ in f.iterOccupancy(tick=False, start_pos=min(int(step[1] * n), n - 1)):
                    pass
        elif op in ("imul", "iadd"):            # an earlier in-place product / sum with a fresh fiber
            sym = "*" if op == "imul" else "+"
            if tree:
                if not any(isinstance(p, Fiber) for p in f.payloads):
                    continue            # an unowned empty root cannot know that it is interior (see assumptions)
                h = build_tree2(step[1])
                _call(mon, f"Fiber.{sym}=fiber:depth2", lambda: (operator.imul if sym == "*" else operator.iadd)(f, h))
            else:
                h = Fiber([c for c, _ in step[1]], [v for _, v in step[1]])
                _ff_once(mon, sym, True, f, h, default, 0, history_step=True)
        elif op == "populate":                  # an earlier populate loop into the fiber
            h = Fiber([c for c, _ in step[1]], [v for _, v in step[1]])

            def loop(h=h):
                for _, (ref, v) in f << h:
                    ref <<= v
            _call(mon, "populate-assign", loop)
        elif op == "imul-s":
            _call(mon, "Fiber.*=scalar", lambda: operator.imul(f, step[1]))
        else:
            raise ValueError(op)


def _wellformed(f):
    """Stored coordinates strictly increasing (an ordered fiber without duplicates), at every level."""
    cs = f.coords
    return all(x < y for x, y in zip(cs, cs[1:])) and all(_wellformed(p) for p in f.payloads if isinstance(p, Fiber))


def _state_note(mon, what, *operands):
    """Counts the operation as run on stateful operands when one of them carries a non-zero saved search position
    (read through the public getter) and returns a text for the messages."""
    pos = [x.getSavedPos() for x in operands]
    if any(pos):
        mon.count("stateful_ops")
        mon.count("stateful_ops:" + what)
        for side, p in zip(("left", "right"), pos):
            if p:
                mon.count("stateful_ops:" + side)
        return f" [operand saved search positions {pos}]"
    return ""


# ------------------------------------------------------------------------------------------
# run_case
# ------------------------------------------------------------------------------------------
def run_case(case, mon):
    ensure_contracts()
    _CUR["mon"] = mon
    kind = case["kind"]
    try:
        if kind == "optable":
            _CUR["phase"] = "optable"
            _run_optable(case, mon)
        elif kind == "chain":
            _CUR["phase"] = "optable"
            _run_chain(case, mon)
        elif kind == "ff":
            _CUR["phase"] = "fiber"
            _run_ff(case, mon)
        elif kind == "fs":
            _CUR["phase"] = "fiber"
            _run_fs(case, mon)
        elif kind == "tree2":
            _CUR["phase"] = "fiber"
            _run_tree2(case, mon)
        elif kind == "kernel":
            _CUR["phase"] = "kernel"
            _run_kernel(case, mon)
    finally:
        _CUR["phase"] = "idle"


# -- operator table -----------------------------------------------------------------------
def _as_coord(c):
    """A coordinate from its JSON form (a point coordinate is a tuple)."""
    return tuple(_as_coord(x) for x in c) if isinstance(c, (list, tuple)) else c


def _mk(kind, v, coord=3):
    if kind == "box":
        return Payload(v)
    if kind == "elem":
        return CoordPayload(_as_coord(coord), Payload(v))
    return v


def _defines(x, name):
    """Does the class of x (or a base other than the metaclass) define `name`?"""
    return any(name in k.__dict__ for k in type(x).__mro__)


def _blame(x, y, stem, inplace=False):
    """Which class lacks which method when `x op y` is unsupported: (class name, form)."""
    lx, ly = libname(x), libname(y)
    if lx is not None and not _defines(x, f"__{stem}__"):
        if inplace and not _defines(x, f"__i{stem}__"):
            return lx, "inplace"
        if not inplace:
            return lx, "forward"
    if ly is not None and not _defines(y, f"__r{stem}__"):
        return ly, "reflected"
    return (lx or ly), "unsupported"


def _unsupported(e):
    s = str(e)
    return isinstance(e, TypeError) and ("unsupported operand type" in s or "not supported between" in s)


def _optable_once(mon, sym, stem, fn, inplace, ka, kb, a, b, ca, cb, rhow, rexp):
    """One execution of `x op y` / `x op= y`; the expected outcome (rhow, rexp) is the raw operator's on (a, b) -
    it does not depend on the coordinates (ca, cb) the elements sit at."""
    x, y = _mk(ka, a, ca), _mk(kb, b, cb)
    owner = libname(x) or libname(y)
    box = x.__dict__.get("payload") if isinstance(x, CoordPayload) else x
    mon.count("optable_executions")
    okind = f"{ka}-{kb}"
    rel = ""
    if ka == "elem" and kb == "elem":
        rel = "same-coord" if _as_coord(ca) == _as_coord(cb) else "distinct-coords"
        mon.count("elem_pairs:" + rel)
        if rel == "distinct-coords" and a == b:
            mon.count("elem_pairs:distinct-coords:equal-values")
    elif ka == "elem" or kb == "elem":
        mon.count("elem_single:coord-varied")
    sa = f"elem@{_as_coord(ca)!r}({a!r})" if ka == "elem" else f"{ka}({a!r})"
    sb = f"elem@{_as_coord(cb)!r}({b!r})" if kb == "elem" else f"{kb}({b!r})"
    shown = f"{sa} {sym} {sb}"
    try:
        res = fn(x, y)
    except C11ContractViolation:
        return                      # reported by the postcondition
    except BaseException as e:      # noqa
        if rhow == "exc" and type(e) is type(rexp):
            mon.count("exceptions_agreed")
            mon.count("oracle_evals")
            return
        if _unsupported(e):
            cls, form = _blame(x, y, stem[1:] if inplace else stem, inplace)
            key = f"{cls}:missing-operator:{sym if form == 'inplace' else sym.rstrip('=') if inplace else sym}:{form}"
        else:
            key = f"{owner}.{sym}:raised:{type(e).__name__}"
        want = f"raises {type(rexp).__name__}" if rhow == "exc" else f"gives {rexp!r}"
        mon.violation(key, f"{shown} raised {type(e).__name__}: {e}; the same operator on the values {want}")
        return
    if rhow == "exc":
        mon.check(False, f"{owner}.{sym}:should-raise",
                  f"{shown} returned {val(res)!r}; the values raise {type(rexp).__name__}")
        return
    if inplace:
        mon.count("inplace_identity_checked")
        if res is None:
            mon.check(False, f"{owner}.{sym}:returns-None", f"{shown}: the in-place form rebinds the name to None")
        else:
            mon.check(res is x, f"{owner}.{sym}:rebinds-new-box",
                      f"{shown}: the in-place form rebinds the name to a new {type(res).__name__} "
                      f"(original box still holds {val(x)!r}, expected {rexp!r})")
        if isinstance(x, CoordPayload):
            mon.check(x.__dict__.get("payload") is box, f"{owner}.{sym}:payload-box-replaced",
                      f"{shown}: the element's payload box was replaced, not updated")
        if res is x or res is None:
            mon.check(same(val(box), rexp), f"{owner}.{sym}:value",
                      f"{shown}: the box holds {val(box)!r} afterwards, expected {rexp!r}")
    else:
        got = val(res)
        mon.check(same(got, rexp), f"{owner}.{sym}:value", f"{shown} gave {got!r}, the values give {rexp!r}")
        mon.state((sym, okind, rel, repr(rexp)) if rel else (sym, okind, repr(rexp)))


def _run_optable(case, mon):
    sym, okind, a = case["op"], case["okind"], case["a"]
    ka, kb = okind.split("-")
    inplace = case["form"] == "inplace"
    if inplace:
        stem, fn, raw = INP_BY_SYM[sym]
    else:
        stem, fn = (BIN_BY_SYM.get(sym) or CMP_BY_SYM[sym])
        raw = fn
    any_ok = False
    both_elems = ka == "elem" and kb == "elem"
    coords = case.get("coords") or [[3, 3]]
    for j, b in enumerate(case["bs"]):
        if sym == "<<" and isinstance(b, int) and b > 128:
            continue                    # guard: shift counts stay small (the raw result must be representable)
        rhow, rexp = raw_apply(raw, a, b)
        any_ok = any_ok or rhow == "ok"
        # element o element: every coordinate pair of the case; one element: the pairs in rotation
        for ca, cb in (coords if both_elems else [coords[j % len(coords)]]):
            _optable_once(mon, sym, stem, fn, inplace, ka, kb, a, b, ca, cb, rhow, rexp)
    if any_ok:
        mon.nontrivial()


# -- operator sequences ---------------------------------------------------------------------
def _run_chain(case, mon):
    """r = x op y followed by an in-place form: the same program on the values (numbers are values: an in-place form
    on one name changes that name only) gives what every box must hold afterwards.
      direction "result":  r op2= z   -> r holds op2(op(a, b), z); x still holds a, y still holds b
      direction "operand": x op2= z   -> r still holds op(a, b)   (x: the left operand, else the right one)
    The first operator itself (value, exceptions, missing operators) is the operator table's matter: a sequence whose
    first step raises, or does not return a box, is not continued."""
    sym, okind, a = case["op"], case["okind"], case["a"]
    ka, kb = okind.split("-")
    stem, fn = BIN_BY_SYM[sym]
    coords = case.get("coords") or [[3, 3]]
    rot = case.get("rot", 0)
    any_ok = False
    for j, b in enumerate(case["bs"]):
        if sym == "<<" and isinstance(b, int) and b > 128:
            continue
        rhow, e1 = raw_apply(fn, a, b)
        if rhow != "ok":
            continue
        ca, cb = coords[j % len(coords)]
        for t, (sym2, z) in enumerate(CHAIN_THEN):
            for direction in ("result", "operand"):
                x, y = _mk(ka, a, ca), _mk(kb, b, cb)
                owner = libname(x) or libname(y)
                try:
                    r = fn(x, y)
                except BaseException:       # noqa  judged by the operator table (and by the postconditions)
                    mon.count("chain_skipped:first-step-raised")
                    continue
                if libname(r) is None:
                    mon.count("chain_skipped:first-step-result-not-a-box")
                    continue
                target = r if direction == "result" else (x if libname(x) else y)
                if sym2 == "<<=" and isinstance(target, CoordPayload):
                    continue                # element <<= is judged on its own in the operator table
                _, fn2, raw2 = INP_BY_SYM[sym2]
                tv = val(target)
                zz = Payload(z) if (rot + j + t) % 3 == 0 else z       # the in-place operand: scalar or box
                h2, e2 = raw_apply(raw2, tv, z)
                if h2 != "ok":
                    continue
                try:
                    fn2(target, zz)
                except BaseException:       # noqa  the in-place form itself is the operator table's matter
                    mon.count("chain_skipped:inplace-step-raised")
                    continue
                mon.count("chain_sequences")
                mon.count("chain_sequences:" + direction)
                if same(b, 1) or same(a, 1) or same(b, 0) or same(a, 0):
                    mon.count("chain_sequences:identity-operand")
                shown = f"r = {ka}({a!r}) {sym} {kb}({b!r}); {'r' if direction == 'result' else 'operand'} {sym2} {z!r}"
                any_ok = True
                if direction == "result":
                    mon.check(same(val(r), e2), f"{owner}.{sym}:then-inplace-on-result:value",
                              f"{shown}: r holds {val(r)!r}, the values give {e2!r}")
                    okx = libname(x) is None or same(val(x), a)
                    oky = libname(y) is None or same(val(y), b)
                    mon.check(okx and oky, f"{owner}.{sym}:operand-changed-by-later-inplace-on-result",
                              f"{shown}: the operands now hold {val(x)!r}, {val(y)!r} (they held {a!r}, {b!r}): "
                              f"the result of {sym} is not a value of its own")
                else:
                    mon.check(same(val(r), e1), f"{owner}.{sym}:result-changed-by-later-inplace-on-operand",
                              f"{shown}: r now holds {val(r)!r}, {a!r} {sym} {b!r} gave {e1!r}")
                    mon.check(same(val(target), e2), f"{owner}.{sym}:then-inplace-on-operand:value",
                              f"{shown}: the operand holds {val(target)!r}, the values give {e2!r}")
                if zz is not z:
                    mon.check(same(val(zz), z), f"{owner}.{sym2}:boxed-operand-changed",
                              f"{shown}: the boxed right operand of {sym2} now holds {val(zz)!r}")
                mon.count("oracle_evals", 2)
    if any_ok:
        mon.nontrivial()
        mon.state(("chain", sym, okind, repr(a)))


# -- fibers -------------------------------------------------------------------------------
def _nz(*defaults):
    return ":nonzero-default" if any(d != 0 for d in defaults) else ""


def _judge_fiber(mon, what, res, expected, region, d_res, suffix="", note="", loose=()):
    """Dense-view comparison.  expected: {coord: value} for the coordinates that must hold a value;
    every other coordinate must be empty (absent or holding d_res).  region(c) names the coordinate class.
    loose: coordinates whose expected value is compared with == only (see _loose_coords)."""
    mon.count("fiber_ops_checked")
    if not isinstance(res, Fiber):
        mon.check(False, f"{what}:result-not-fiber", f"{what} returned {type(res).__name__}")
        return False
    got, dup = raw_map(res)
    if not mon.check(not dup, f"{what}:result-duplicate-coords",
                     f"{what}: result stores a coordinate twice: {res.coords}{note}"):
        return False
    mon.count("result_wellformed_checked")
    if not mon.check(_wellformed(res), f"{what}:result-coords-not-increasing",
                     f"{what}: the stored coordinates of the result are not strictly increasing: {res.coords}{note}"):
        return False
    bad = {}
    for c, e in expected.items():
        g = got.get(c, d_res)
        if not same(g, e) and not ((c not in got or c in loose) and g == e):
            bad.setdefault(region(c), []).append((c, g, e))
    for c, g in got.items():
        if c not in expected and g != d_res:
            bad.setdefault(region(c), []).append((c, g, "empty"))
    ok = True
    for reg in ("both", "self-only", "other-only", "neither"):
        items = bad.get(reg)
        if items is None:
            mon.count("oracle_evals")
            continue
        ok = False
        c, g, e = items[0]
        mon.violation(f"{what}:content:{reg}{suffix}",
                      f"{what}: at coordinate {c} ({reg}) the result holds {g!r}, expected {e!r} "
                      f"({len(items)} such coordinates; result coords {res.coords}){note}")
    return ok


def _call(mon, what, fn, metrics=False):
    """Run a library operation (optionally while Metrics collection is on); -> (ok, result)."""
    try:
        if metrics:
            Metrics.beginCollect()
            mon.count("ops_under_metrics_collection")
        try:
            return True, fn()
        finally:
            if metrics:
                Metrics.endCollect()
    except C11ContractViolation:
        return False, None
    except BaseException as e:      # noqa
        mon.violation(f"{what}:raised:{type(e).__name__}", f"{what} raised {type(e).__name__}: {e}")
        return False, None


def _loose_coords(m, d):
    """Coordinates of stored elements that are empty (== default) without being the default type-strictly, e.g. a
    stored -1.0 (an earlier product) under default -1: whether the operation reads the stored value or the fiber's
    default there is not fixed by the statement, so the numeric type of the result at such a coordinate is not judged."""
    return {c for c, v in m.items() if v == d and not same(v, d)}


def _nonempty(m, d):
    return {c for c, v in m.items() if v != d}


def _in_shape(m, shape):
    return all(isinstance(c, int) and 0 <= c < shape for c in m)


def _ff_once(mon, sym, inplace, a, b, da, db, met=False, history_step=False):
    """One fiber o fiber operation on the operands AS THEY ARE NOW (whatever earlier operations left on them): the
    expected dense view comes from their raw lists read just before.  -> None (not run / failed) or whether the
    expected result is non-trivial."""
    what = f"Fiber.{sym}{'=' if inplace else ''}fiber"
    if not (_wellformed(a) and _wellformed(b)):
        mon.count("skipped:operand-illformed-after-history")     # the operation that broke it has been reported
        return None
    suffix = _nz(da, db)
    ma, _ = raw_map(a)
    mb, _ = raw_map(b)
    na, nb = _nonempty(ma, da), _nonempty(mb, db)
    if sym == "+":
        cs = na | nb
        exp = {c: ma.get(c, da) + mb.get(c, db) for c in cs}
    else:
        cs = na & nb
        exp = {c: ma[c] * mb[c] for c in cs}

    def region(c, na=na, nb=nb):
        return "both" if (c in na and c in nb) else "self-only" if c in na else "other-only" if c in nb else "neither"
    note = _state_note(mon, what, a, b)
    loose = _loose_coords(ma, da) | _loose_coords(mb, db)
    if history_step:
        mon.count("history_steps_judged")
    if inplace:
        ok, res = _call(mon, what, lambda: (operator.iadd if sym == "+" else operator.imul)(a, b), met)
        if not ok:
            return None
        mon.count("inplace_identity_checked")
        mon.check(res is a, f"{what}:rebinds", f"{what} returned {type(res).__name__} instead of the updated fiber itself")
        _judge_fiber(mon, what, a, exp, region, da, suffix, note, loose)
        mb2, _ = raw_map(b)
        mon.check(mb2 == mb, f"{what}:other-operand-changed", f"{what} changed the right operand: {mb} -> {mb2}{note}")
    else:
        ok, res = _call(mon, what, lambda: (operator.add if sym == "+" else operator.mul)(a, b), met)
        if not ok:
            return None
        _judge_fiber(mon, what, res, exp, region, da, suffix, note, loose)
        ma2, _ = raw_map(a)
        mb2, _ = raw_map(b)
        mon.check(ma2 == ma and mb2 == mb, f"{what}:operand-changed",
                  f"{what} changed an operand: {ma} -> {ma2}, {mb} -> {mb2}{note}")
    if not history_step:
        mon.state((what, sorted(exp.items())))
    return bool(ma and mb and any(v != da for v in exp.values()))


def _ff_chain(mon, sym, direction, a, b, s):
    """h = a op b followed by an in-place scaling by the scalar s (default-0 operands):
      direction "result":  h *= s  -> h holds the scaled sum / product; a and b hold what they held
      direction "operand": a *= s  -> h still holds the sum / product
    Expected contents from the operands' raw lists read before the sequence."""
    what = f"Fiber.{sym}fiber"
    if not (_wellformed(a) and _wellformed(b)):
        return None
    ma, _ = raw_map(a)
    mb, _ = raw_map(b)
    na, nb = _nonempty(ma, 0), _nonempty(mb, 0)
    if sym == "+":
        exp1 = {c: ma.get(c, 0) + mb.get(c, 0) for c in na | nb}
    else:
        exp1 = {c: ma[c] * mb[c] for c in na & nb}

    def region(c, na=na, nb=nb):
        return "both" if (c in na and c in nb) else "self-only" if c in na else "other-only" if c in nb else "neither"
    loose = _loose_coords(ma, 0) | _loose_coords(mb, 0)
    ok, h = _call(mon, what, lambda: (operator.add if sym == "+" else operator.mul)(a, b))
    if not ok or not isinstance(h, Fiber) or not _wellformed(h):
        return None                 # judged where the form is run on its own
    target = h if direction == "result" else a
    ok, _ = _call(mon, "Fiber.*=scalar", lambda: operator.imul(target, s))
    if not ok:
        return None
    mon.count("fiber_sequences")
    mon.count(f"fiber_sequences:{sym}:{direction}")
    if any(same(mb[c], 1) for c in (na & nb)):
        mon.count("fiber_sequences:identity-element")
    same_map = lambda m1, m2: set(m1) == set(m2) and all(same(m1[c], m2[c]) for c in m1)     # noqa
    ma2, _ = raw_map(a)
    mb2, _ = raw_map(b)
    if direction == "result":
        _judge_fiber(mon, f"{what}:then:*=scalar", h, {c: (v * s if v != 0 else v) for c, v in exp1.items()}, region, 0, "", "", loose)
        mon.check(same_map(ma, ma2) and same_map(mb, mb2), f"{what}:operand-changed-by-later-inplace-on-result",
                  f"h = f {sym} g; h *= {s!r} changed an operand: f {ma} -> {ma2}, g {mb} -> {mb2}")
    else:
        _judge_fiber(mon, f"{what}:result-changed-by-later-inplace-on-operand", h, exp1, region, 0, "", "", loose)
        mon.check(same_map(mb, mb2), f"{what}:then:*=scalar:other-operand-changed",
                  f"h = f {sym} g; f *= {s!r} changed g: {mb} -> {mb2}")
    return bool(exp1)


def _run_ff(case, mon):
    da, db = case["a"].get("default", 0), case["b"].get("default", 0)
    met = bool(case.get("metrics"))
    nontrivial = False
    if case.get("s2") is not None and da == 0 and db == 0:
        for sym in ("+", "*"):
            for direction in ("result", "operand"):
                a, _, ka = build_fiber(case["a"], mon)
                b, _, kb = build_fiber(case["b"], mon)
                if _ff_chain(mon, sym, direction, a, b, case["s2"]):
                    nontrivial = True
    for sym, inplace in (() if case.get("chain_only") else (("+", False), ("*", False), ("+", True), ("*", True))):
        a, _, ka = build_fiber(case["a"], mon)
        b, _, kb = build_fiber(case["b"], mon)
        if _ff_once(mon, sym, inplace, a, b, da, db, met):
            nontrivial = True
    if nontrivial:
        mon.nontrivial()


def _run_fs(case, mon):
    da = case["a"].get("default", 0)
    s = case["s"]
    suffix = _nz(da)
    met = bool(case.get("metrics"))
    nontrivial = False
    forms = [("Fiber.+scalar", "+", "f+s"), ("scalar.+Fiber", "+", "s+f"), ("Fiber.*scalar", "*", "f*s"),
             ("scalar.*Fiber", "*", "s*f"), ("Fiber.+=scalar", "+", "f+=s"), ("Fiber.*=scalar", "*", "f*=s")]
    for what, sym, form in forms:
        a, shape, keep = build_fiber(case["a"], mon)
        if not _wellformed(a):
            mon.count("skipped:operand-illformed-after-history")     # the operation that broke it has been reported
            continue
        ma, _ = raw_map(a)
        if shape is None:
            shape = (max(ma) + 1) if ma else 0          # documented estimate
        if not _in_shape(ma, shape):
            mon.count("fs_skipped_out_of_shape")
            return
        na = _nonempty(ma, da)
        if sym == "+":
            exp = {c: (s + ma.get(c, da)) for c in range(shape)}
        else:
            exp = {c: s * ma[c] for c in na}

        def region(c, na=na):
            return "self-only" if c in na else "neither"
        sc = Payload(s) if case.get("boxed") else s          # a boxed scalar is a scalar too
        note = _state_note(mon, what, a)
        loose = _loose_coords(ma, da)
        if form == "f+s":
            ok, res = _call(mon, what, lambda: a + sc, met)
        elif form == "s+f":
            ok, res = _call(mon, what, lambda: sc + a, met)
        elif form == "f*s":
            ok, res = _call(mon, what, lambda: a * sc, met)
        elif form == "s*f":
            ok, res = _call(mon, what, lambda: sc * a, met)
        elif form == "f+=s":
            ok, res = _call(mon, what, lambda: operator.iadd(a, sc), met)
        else:
            ok, res = _call(mon, what, lambda: operator.imul(a, sc), met)
        if case.get("boxed"):
            mon.check(same(val(sc), s), f"{what}:boxed-scalar-changed", f"{what} changed the boxed scalar operand to {val(sc)!r}")
        if not ok:
            continue
        if form in ("f+=s", "f*=s"):
            mon.count("inplace_identity_checked")
            mon.check(res is a, f"{what}:rebinds", f"{what} returned {type(res).__name__} instead of the updated fiber itself")
            _judge_fiber(mon, what, a, exp, region, da, suffix, note, loose)
        else:
            _judge_fiber(mon, what, res, exp, region, da, suffix, note, loose)
            ma2, _ = raw_map(a)
            mon.check(ma2 == ma, f"{what}:operand-changed", f"{what} changed its operand: {ma} -> {ma2}{note}")
        if ma and any(v != da for v in exp.values()):
            nontrivial = True
        mon.state((what, s, sorted(exp.items())))
    if nontrivial:
        mon.nontrivial()


def _run_tree2(case, mon):
    nontrivial = False
    for sym, inplace in (("+", False), ("*", False), ("+", True), ("*", True)):
        a, b = build_tree2(case["a"]), build_tree2(case["b"])
        if case.get("ha"):
            _apply_history(mon, a, case["ha"], 0, tree=True)
        if case.get("hb"):
            _apply_history(mon, b, case["hb"], 0, tree=True)
        if not (_wellformed(a) and _wellformed(b)):
            mon.count("skipped:operand-illformed-after-history")     # the operation that broke it has been reported
            continue
        pa, pb = raw_points(a), raw_points(b)
        na = {p for p, v in pa.items() if v != 0}
        nb = {p for p, v in pb.items() if v != 0}
        if sym == "+":
            exp = {p: pa.get(p, 0) + pb.get(p, 0) for p in na | nb}
        else:
            exp = {p: pa[p] * pb[p] for p in na & nb}
        exp = {p: v for p, v in exp.items() if v != 0}
        what = f"Fiber.{sym}{'=' if inplace else ''}fiber:depth2"
        note = _state_note(mon, what, a, b)
        if inplace:
            ok, res = _call(mon, what, lambda: (operator.iadd if sym == "+" else operator.imul)(a, b))
            if not ok:
                continue
            mon.check(res is a, f"{what}:rebinds", f"{what} did not return the updated fiber itself")
            res = a
        else:
            ok, res = _call(mon, what, lambda: (operator.add if sym == "+" else operator.mul)(a, b))
            if not ok:
                continue
        mon.count("fiber_ops_checked")
        if not mon.check(isinstance(res, Fiber), f"{what}:result-not-fiber", f"{what} returned {type(res).__name__}"):
            continue
        mon.count("result_wellformed_checked")
        if not mon.check(_wellformed(res), f"{what}:result-coords-not-increasing",
                         f"{what}: the stored coordinates of the result are not strictly increasing at some level "
                         f"(root coords {res.coords}){note}"):
            continue
        got = {p: v for p, v in raw_points(res).items() if v != 0}
        bad = {}
        for p in set(got) | set(exp):
            if p not in got or p not in exp or not same(got[p], exp[p]):
                reg = "both" if (p in na and p in nb) else "self-only" if p in na else "other-only" if p in nb else "neither"
                bad.setdefault(reg, []).append((p, got.get(p, "empty"), exp.get(p, "empty")))
        for reg in ("both", "self-only", "other-only", "neither"):
            if reg in bad:
                p, g, e = sorted(bad[reg])[0]
                mon.violation(f"{what}:content:{reg}", f"{what}: at point {p} ({reg}) the result holds {g!r}, expected {e!r} "
                                                       f"({len(bad[reg])} such points){note}")
            else:
                mon.count("oracle_evals")
        if exp:
            nontrivial = True
    if nontrivial:
        mon.nontrivial()


# -- kernel-style loops ----------------------------------------------------------------------
# what a loop body does with two elements ea, eb (and with one of them unpacked to its box): the operators
# CoordPayload documents for element o element / element o box
_PAIR_OP_NAMES = ["elem+elem", "elem-elem", "elem*elem", "elem==elem", "elem!=elem", "elem<elem", "elem<=elem",
                  "elem>elem", "elem>=elem", "elem==box", "elem!=box", "box==elem", "box!=elem", "elem+box", "box*elem"]


def _elem_pair_ops(ea, eb):
    pa, pb = ea.payload, eb.payload
    return (ea + eb, ea - eb, ea * eb, ea == eb, ea != eb, ea < eb, ea <= eb, ea > eb, ea >= eb,
            ea == pb, ea != pb, pa == eb, pa != eb, ea + pb, pa * eb)


def _raw_pair_ops(va, vb):
    return (va + vb, va - vb, va * vb, va == vb, va != vb, va < vb, va <= vb, va > vb, va >= vb,
            va == vb, va != vb, va == vb, va != vb, va + vb, va * vb)


def _run_kernel(case, mon):
    k = case["kernel"]
    a, _, keep_a = build_fiber(case["a"], mon)
    b, _, keep_b = build_fiber(case["b"], mon)
    if not (_wellformed(a) and _wellformed(b)):
        mon.count("skipped:operand-illformed-after-history")     # the operation that broke it has been reported
        return
    if a.getSavedPos() or b.getSavedPos():
        mon.count("stateful_ops:kernel")
    s = case["s"]
    ma, _ = raw_map(a)
    mb, _ = raw_map(b)
    na, nb = _nonempty(ma, 0), _nonempty(mb, 0)
    what = f"kernel:{k}"

    def body():
        if k == "dot":
            z = Payload(0)
            z0 = z
            for _, (av, bv) in a & b:
                z += av * bv
            return z0, z
        if k == "reduce":
            z = Payload(0)
            z0 = z
            for el in a:
                z += el * s
                z -= el
                z += el.payload
            return z0, z
        if k == "accumulate":
            z = Fiber([], [], default=0, shape=32)
            for _, (z_ref, (av, bv)) in z << (a & b):
                z_ref += av * bv
                z_ref *= s
            return z, None
        if k == "elements":
            out = []
            for el in a:
                out.append((el.coord, val(el + s), val(s + el), val(el * s), val(s * el), val(el - s), val(s - el),
                            el > s, el >= s, el < s, el <= s, el == s, el != s, val(el + el), val(el * el)))
            return out, None
        if k == "elements-inplace":
            for el in a:
                el += s
            for el in a:
                el *= s
            for el in a:
                el -= 1
            return a, None
        if k == "element-pairs":
            # every element of a against every element of b: the coordinates are unrelated to the values
            out = []
            for ea in a:
                for eb in b:
                    out.append((ea.coord, eb.coord) + tuple(val(r) for r in _elem_pair_ops(ea, eb)))
            return out, None
        if k == "element-zip":
            # walk the two fibers in lock step by position (not by coordinate)
            out = []
            agree = differ = 0
            for ea, eb in zip(a, b):
                out.append((ea.coord, eb.coord) + tuple(val(r) for r in _elem_pair_ops(ea, eb)))
                if ea == eb:
                    agree += 1
                if ea != eb:
                    differ += 1
            return out, (agree, differ)
        if k == "element-zip-inplace":
            for ea, eb in zip(a, b):
                ea += eb
            for ea, eb in zip(a, b):
                ea *= eb
            for ea, eb in zip(a, b):
                ea -= eb
            return a, None
        raise ValueError(k)
    ok, res = _call(mon, what, body, bool(case.get("metrics")))
    if not ok:
        return
    mon.count("kernel_results_checked")
    if k == "dot":
        z0, z = res
        exp = 0
        for c in sorted(na & nb):
            exp = exp + ma[c] * mb[c]
        mon.check(z is z0, f"{what}:accumulator-rebound", "z += av * bv rebound the accumulator box")
        mon.check(same(val(z0), exp), f"{what}:value", f"dot product over {sorted(na & nb)} gave {val(z0)!r}, expected {exp!r}")
        nt = bool(na & nb)
    elif k == "reduce":
        z0, z = res
        exp = 0
        cs = sorted(na)
        for c in cs:
            exp = exp + ma[c] * s
            exp = exp - ma[c]
            exp = exp + ma[c]
        mon.check(z is z0, f"{what}:accumulator-rebound", "in-place updates rebound the accumulator box")
        mon.check(same(val(z0), exp), f"{what}:value", f"reduction over {cs} gave {val(z0)!r}, expected {exp!r}")
        nt = bool(cs)
    elif k == "accumulate":
        z, _ = res
        exp = {c: (0 + ma[c] * mb[c]) * s for c in na & nb}
        got, _ = raw_map(z)
        got = {c: v for c, v in got.items() if v != 0}
        exp = {c: v for c, v in exp.items() if v != 0}
        mon.check(got == exp and all(same(got[c], exp[c]) for c in exp), f"{what}:value",
                  f"z << (a & b) accumulate gave {got}, expected {exp}")
        nt = bool(exp)
    elif k == "elements":
        out, _ = res
        exp = [(c, ma[c] + s, s + ma[c], ma[c] * s, s * ma[c], ma[c] - s, s - ma[c], ma[c] > s, ma[c] >= s,
                ma[c] < s, ma[c] <= s, ma[c] == s, ma[c] != s, ma[c] + ma[c], ma[c] * ma[c]) for c in sorted(na)]
        okv = len(out) == len(exp) and all(len(o) == len(e) and all(same(x, y) for x, y in zip(o, e))
                                           for o, e in zip(out, exp))
        mon.check(okv, f"{what}:value", f"element-wise operators over iterated elements gave {out}, expected {exp}")
        nt = bool(exp)
    elif k in ("element-pairs", "element-zip"):
        out, counts = res
        la, lb = sorted(na), sorted(nb)
        pairs = [(ca, cb) for ca in la for cb in lb] if k == "element-pairs" else list(zip(la, lb))
        exp = [(ca, cb) + tuple(_raw_pair_ops(ma[ca], mb[cb])) for ca, cb in pairs]
        mon.count("kernel_element_pairs", len(pairs))
        mon.count("kernel_element_pairs:distinct-coords", sum(1 for ca, cb in pairs if ca != cb))
        mon.count("kernel_element_pairs:distinct-coords:equal-values",
                  sum(1 for ca, cb in pairs if ca != cb and ma[ca] == mb[cb]))
        if mon.check([o[:2] for o in out] == pairs, f"{what}:pairing",
                     f"iterating the two fibers paired coordinates {[o[:2] for o in out]}, expected {pairs}"):
            # one verdict per operator (column), over all element pairs
            for i, name in enumerate(_PAIR_OP_NAMES):
                bad = [(o[0], o[1], o[2 + i], e[2 + i]) for o, e in zip(out, exp) if not same(o[2 + i], e[2 + i])]
                if bad:
                    ca, cb, g, e = bad[0]
                    mon.violation(f"{what}:{name}:value",
                                  f"{name} on the elements at {ca} (value {ma[ca]!r}) and {cb} (value {mb[cb]!r}) of two "
                                  f"fibers gave {g!r}, the values give {e!r} ({len(bad)} such pairs)")
                else:
                    mon.count("oracle_evals")
        if counts is not None:
            ea = sum(1 for ca, cb in pairs if ma[ca] == mb[cb])
            ed = sum(1 for ca, cb in pairs if ma[ca] != mb[cb])
            mon.check(counts == (ea, ed), f"{what}:agree-count",
                      f"positional walk counted {counts[0]} equal / {counts[1]} unequal element pairs, the values give "
                      f"{ea} / {ed} (a {sorted(ma.items())}, b {sorted(mb.items())})")
        nt = bool(pairs)
    elif k == "element-zip-inplace":
        got, _ = raw_map(a)
        mb2, _ = raw_map(b)
        # each pass pairs, by position, the elements that are non-empty at that moment; b never changes
        cur = dict(ma)
        lb = sorted(nb)
        for step in ("+", "*", "-"):
            la = [c for c in sorted(cur) if cur[c] != 0]
            for ca, cb in zip(la, lb):
                cur[ca] = cur[ca] + mb[cb] if step == "+" else cur[ca] * mb[cb] if step == "*" else cur[ca] - mb[cb]
                mon.count("kernel_element_pairs")
                if ca != cb:
                    mon.count("kernel_element_pairs:distinct-coords")
        mon.check(set(got) == set(cur) and all(same(got[c], cur[c]) for c in cur), f"{what}:value",
                  f"element op= element over a positional walk of two fibers left {got}, expected {cur}")
        mon.check(mb2 == mb and all(same(mb2[c], mb[c]) for c in mb), f"{what}:other-operand-changed",
                  f"element op= element changed the right-hand fiber: {mb} -> {mb2}")
        nt = bool(na and nb)
    else:
        got, _ = raw_map(a)
        # each pass visits the elements that are non-empty at that moment
        cur = dict(ma)
        for step in ("+", "*", "-"):
            for c in sorted(cur):
                if cur[c] != 0:
                    cur[c] = cur[c] + s if step == "+" else cur[c] * s if step == "*" else cur[c] - 1
        mon.check(set(got) == set(cur) and all(same(got[c], cur[c]) for c in cur), f"{what}:value",
                  f"in-place updates through iterated elements left {got}, expected {cur}")
        nt = bool(na)
    if nt:
        mon.nontrivial()
