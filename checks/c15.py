"""C15 - metrics collection is transparent, exact and session-isolated.

Monitors:
 (i)   differential run: the same kernel on identical operands with collection off and on (any subset of
       ranks / trace types registered) must leave the same output tensor (values and structure);
 (ii)  independent counter: sys.monitoring PY_START taps on the Payload operator methods count the
       operator executions actually performed (reading `self.value` from the instrumented frame to apply
       the documented add/update rule); Metrics.dump()/Compute.numOps must report exactly those; the
       interpreter's observer counts loop bodies per rank, Compute.numIters of each traced rank's `iter`
       trace must equal them;
 (iii) session isolation: the kernel under test is run as a session before, after and after-again a random
       sequence of other sessions (other kernels and trace sets, same prefix, other flush thresholds,
       sessions abandoned by an exception, projection sessions that match ranks of the kernel under test);
       its dump and its trace files must be identical every time.
"""
import os
import random
import shutil
import tempfile

from fibertree import Fiber, Payload, Tensor
from fibertree.core.metrics import Metrics
from fibertree.model.compute import Compute

from fvmon import kernels
from fvmon.observe import snap_values
from fvmon.taps import OpCounter

SPEC = {
    "anchors": ["fibertree.core.metrics:Metrics.beginCollect", "fibertree.core.metrics:Metrics.endCollect", "fibertree.core.metrics:Metrics.incCount", "fibertree.core.metrics:Metrics.registerRank", "fibertree.core.metrics:Metrics.trace", "fibertree.core.payload:Payload.__mul__", "fibertree.core.payload:Payload.__iadd__", "fibertree.core.iterators:iterRange", "fibertree.core.iterators:__and__", "fibertree.core.iterators:__lshift__", "fibertree.model.compute:Compute.numOps", "fibertree.model.compute:Compute.numIters"],
    "rule": ("case = one kernel from the C06 family (random operand values incl. empty operands, optional tiling, "
             "either intersection style, any loop order) + a subset of (rank, trace type) registrations + a sequence "
             "of 0-4 earlier sessions of 5 kinds.  Non-trivial = the kernel executes at least 2 leaf bodies with "
             "collection on and at least one rank is traced; distinct = distinct case."),
    "shards": {"quick": 16, "thorough": 16},
    "min_counts": {"quick": {"evaluations": 150, "differential_runs": 150, "op_executions_tapped": 1000,
                             "numiters_checked": 150, "isolation_sessions": 200, "dump_compares": 300, "conv_runs": 60,
                             "nary_runs": 60, "conv_runs_with_prebuilt_projections": 20}},
    "assumptions": [
        "num_cached_uses is configuration, not session state: it is set to the same value before every run of the kernel under test",
        "counting rule for adds follows the documented choice: an accumulate into a zero-valued box is an update, not an add",
        "operands are tensors with declared shapes (populate under collection asserts a shape on the destination)",
        "a loop level driven directly by the dense (shape) iterator of a single uncompressed-format operand emits no iter rows (iterRangeShape never calls addUse); such levels are excluded from the iteration-count clause",
    ],
}

TRACE_TYPES = ["iter", "intersect_0", "intersect_1", "populate_1", "populate_read_0", "populate_write_0", "intersect_2", "intersect_3"]
_ops = {"c": None}


def generate(rng, tier, shard, nshards, mon):
    n = (960 if tier == "quick" else 40000) // nshards
    for i in range(n):
        if i % 6 == 5:
            # 1-D convolution through project(): O[q] += I[q + s] * F[s]
            W = rng.randint(2, 9)
            S = rng.randint(1, 3)
            from fvmon import gen
            yield {"kind": "conv", "i": gen.rand_leaf_spec(rng, W, 0.7, 0.0, 0), "f": gen.rand_leaf_spec(rng, S, 0.8, 0.0, 0),
                   "W": W, "S": S, "sp": rng.choice(["none", "plain", "boxed", "boxed"]),
                   # the projected (lazy) fibers may be built in the loop, before the session, or used by an earlier session too
                   "build": rng.choice(["inline", "inline", "before-session", "previous-session"]),
                   "traces": rng.choice(["all", "all", "some", "none"]), "ncu": rng.choice([2, 3, 1000])}
            continue
        if i % 6 == 2:
            # three or four operands co-iterated on one rank, as nested `&`, as one flat Fiber.intersection(...), or leader-follower
            spec = kernels.rand_spec(rng, family=rng.choice(kernels.FAMILIES3), tiles=False)
            spec["style"] = rng.choice(["two-finger", "two-finger", "leader-follower"])
            yield {"kind": "nary", "spec": spec, "flat": rng.random() < 0.6, "ncu": rng.choice([2, 1000]),
                   "traces": [[kernels.rid(v), "iter"] for v in spec["order"] if rng.random() < 0.5]}
            continue
        spec = kernels.rand_spec(rng, tiles=True)
        lv = spec["order"]
        # uncompressed-format ranks (zero-valued operands reach the body) and a pre-populated, dirty output
        if rng.random() < 0.5:
            fm = []
            for name, idx in spec["ops"] + [["Z", spec["out"]]]:
                for x in kernels.loop_vars_of(idx, spec):
                    if rng.random() < 0.35:
                        fm.append([name, kernels.rid(x)])
            spec["fmts"] = fm
        zl = sorted(kernels.loop_vars_of(spec["out"], spec), key=lv.index)
        if zl and rng.random() < (0.8 if len(zl) > 1 else 0.4):
            from fvmon import gen
            spec["zinit"] = gen.rand_tree_spec(rng, [spec["ext"][x[0]] for x in zl], 0.5, 0.6, 0)
        traces = []
        mode = rng.random()
        for v in lv:
            if mode < 0.4:      # maximal instrumentation
                traces += [[kernels.rid(v), tt] for tt in TRACE_TYPES]
                continue
            if rng.random() < 0.6:
                traces.append([kernels.rid(v), "iter"])
            for tt in TRACE_TYPES[1:]:
                if rng.random() < 0.25:
                    traces.append([kernels.rid(v), tt])
        earlier = []
        for _ in range(rng.choice([0, 1, 2, 2, 3, 4])):
            kind = rng.choice(["kernel", "kernel-same-traces", "abandoned", "project", "project-abandoned", "threshold"])
            e = {"kind": kind, "seed": rng.randrange(1 << 20)}
            if kind.startswith("kernel") or kind in ("abandoned", "threshold"):
                e["spec"] = kernels.rand_spec(random.Random(e["seed"]), tiles=False)
            if kind.startswith("project"):
                ranks = [kernels.rid(v) for v in lv]
                if len(ranks) >= 2:
                    e["src"], e["dst"] = rng.sample(ranks, 2)
                else:
                    e["src"], e["dst"] = ranks[0], "Q"
            earlier.append(e)
        yield {"spec": spec, "traces": traces, "earlier": earlier, "ncu": rng.choice([2, 3, 7, 1000])}


def _counter():
    if _ops["c"] is None:
        _ops["c"] = OpCounter()
        _ops["c"].install()
    return _ops["c"]


class _Bodies(kernels.Observer):
    def __init__(self):
        self.per_rank = {}
        self.leaves = 0
        self.tally = {"payload_mul": 0, "payload_add": 0, "payload_update": 0}

    def body(self, d, var, coord, point):
        r = kernels.rid(var)
        self.per_rank[r] = self.per_rank.get(r, 0) + 1

    def leaf(self, point, factors, prod, updated, old=None):
        self.leaves += 1
        # what the kernel itself executed at this leaf: (factors - 1) multiplies and, if it reduced, one update
        # that is an add unless it accumulated into a zero-valued box (documented counting rule)
        self.tally["payload_mul"] += len(factors) - 1
        if updated:
            self.tally["payload_update"] += 1
            if old != 0:
                self.tally["payload_add"] += 1


def _read_files(prefix):
    d = os.path.dirname(prefix)
    base = os.path.basename(prefix)
    out = {}
    for fn in sorted(os.listdir(d)):
        if fn.startswith(base + "-"):
            with open(os.path.join(d, fn)) as fh:
                out[fn] = fh.read()
    return out


def _session(spec, prefix, traces, ncu, tap=None, abandon_after=None):
    """Run one collection session of a kernel.  Returns dict(dump, files, bodies, zsnap, leaves)."""
    tensors, Z, lvars, zl = kernels.build(spec, zinit=spec.get("zinit"))
    obs = _Bodies()
    Metrics.setNumCachedUses(ncu)
    Metrics.beginCollect(prefix)
    for r, tt in traces:
        Metrics.trace(r, type_=tt)
    if tap is not None:
        tap.reset()
        tap.active = True
    try:
        if abandon_after is not None:
            class _Quit(Exception):
                pass

            class _Ab(_Bodies):
                def leaf(self_, point, factors, prod, updated, old=None):
                    self_.leaves += 1
                    if self_.leaves > abandon_after:
                        raise _Quit()
            try:
                kernels.execute(spec, tensors, Z, lvars, zl, observer=_Ab())
            except _Quit:
                return None         # session abandoned: no endCollect
        kernels.execute(spec, tensors, Z, lvars, zl, observer=obs)
    finally:
        if tap is not None:
            tap.active = False
    Metrics.endCollect()
    dump = Metrics.dump()
    return {"dump": {k: dict(v) for k, v in (dump or {}).items()}, "files": _read_files(prefix), "bodies": dict(obs.per_rank),
            "zsnap": snap_values(Z), "leaves": obs.leaves, "tally": dict(obs.tally)}


def _project_session(e, prefix, abandon):
    """A little convolution-like session that matches rank e['src'] to e['dst'] through project()."""
    src, dst = e["src"], e["dst"]
    i_t = Tensor.fromUncompressed(rank_ids=[src], root=[1, 2, 0, 3, 4, 5], shape=[6])
    z_t = Tensor(rank_ids=[dst], shape=[6])
    Metrics.beginCollect(prefix)
    Metrics.trace(src, type_="iter")
    Metrics.trace(dst, type_="populate_read_0")
    Metrics.trace(dst, type_="populate_write_0")
    Metrics.trace(dst, type_="populate_1")
    n = 0
    lazy = z_t.getRoot() << i_t.getRoot().project(trans_fn=lambda w: w - 1, interval=(0, 5), rank_id=dst, tick=True)
    for q, (z_ref, i_val) in lazy.iterOccupancy(tick=False):
        z_ref += i_val
        n += 1
        if abandon and n == 2:
            return
    Metrics.endCollect()


def _conv(case, prefix, collect):
    """-> (content of O, dump, tally)"""
    from fvmon import gen
    from fvmon.observe import content
    W, S = case["W"], case["S"]
    Q = W
    i_t = Tensor.fromFiber(rank_ids=["W"], fiber=gen.fiber_from_spec(case["i"], 0), shape=[W])
    f_t = Tensor.fromFiber(rank_ids=["S"], fiber=gen.fiber_from_spec(case["f"], 0), shape=[S])
    o_t = Tensor(rank_ids=["Q"], shape=[Q])
    i_w, f_s, o_q = i_t.getRoot(), f_t.getRoot(), o_t.getRoot()
    tally = {"payload_mul": 0, "payload_add": 0, "payload_update": 0}
    sp = None
    if case["sp"] != "none" and len(i_w.coords) > 0:
        sp = Payload(0) if case["sp"] == "boxed" else 0
    kw = {} if sp is None else {"start_pos": sp}
    build = case.get("build", "inline") if collect else "inline"
    hoisted = {}
    if build != "inline":
        for s in f_s.coords:
            hoisted[s] = i_w.project(trans_fn=lambda w, s=s: w - s, interval=(0, Q), rank_id="Q", tick=True, **kw)

    def begin():
        Metrics.setNumCachedUses(case["ncu"])
        Metrics.beginCollect(prefix)
        if case["traces"] != "none":
            names = [("S", "iter"), ("W", "iter"), ("W", "project_0"), ("W", "project_1"), ("Q", "populate_read_0"),
                     ("Q", "populate_write_0"), ("Q", "populate_1"), ("W", "project_2")]
            if case["traces"] == "some":
                names = names[::2]
            for r, tt in names:
                Metrics.trace(r, type_=tt)
    if collect and build == "previous-session":
        # an earlier session walks the same projected fibers (into a scratch output)
        begin()
        scratch = Tensor(rank_ids=["Q"], shape=[Q]).getRoot()
        for s, f_val in f_s:
            for q, (o_ref, i_val) in (scratch << hoisted[s]).iterOccupancy(tick=False):
                pass
        Metrics.endCollect()
    if collect:
        begin()
    for s, f_val in f_s:
        src = hoisted[s] if build != "inline" else i_w.project(trans_fn=lambda w, s=s: w - s, interval=(0, Q), rank_id="Q", tick=True, **kw)
        lazy = o_q << src
        for q, (o_ref, i_val) in lazy.iterOccupancy(tick=False):
            old = Payload.get(o_ref)
            o_ref += i_val * f_val
            tally["payload_mul"] += 1
            tally["payload_update"] += 1
            if old != 0:
                tally["payload_add"] += 1
    dump = None
    if collect:
        Metrics.endCollect()
        dump = {k: dict(v) for k, v in (Metrics.dump() or {}).items()}
    return content(o_t, 0), dump, tally


def _run_conv(case, mon):
    tmp = tempfile.mkdtemp(prefix="fv15c-")
    tap = _counter()
    try:
        try:
            c_off, _, t_off = _conv(case, None, False)
            tap.reset()
            tap.active = True
            try:
                c_on, dump, tally = _conv(case, os.path.join(tmp, "c"), True)
            finally:
                tap.active = False
        except BaseException as e:      # noqa
            if isinstance(e, KeyboardInterrupt):
                raise
            _abort_session()
            mon.violation(f"conv-under-collection:raised:{type(e).__name__}", f"projection kernel raised {type(e).__name__}: {e}; {case}")
            return
        mon.count("conv_runs")
        if case.get("build", "inline") != "inline":
            mon.count("conv_runs_with_prebuilt_projections")
        mon.count("differential_runs")
        want = {}
        iv, fv = dict((c, v) for c, v in case["i"]), dict((c, v) for c, v in case["f"])
        for s_, f_ in fv.items():
            for w_, i_ in iv.items():
                if 0 <= w_ - s_ < case["W"] and i_ * f_ != 0:
                    want[(w_ - s_,)] = want.get((w_ - s_,), 0) + i_ * f_
        want = {k: v for k, v in want.items() if v != 0}
        mon.check(c_off == want, "conv:result", f"projection kernel result {c_off}, dense convolution {want}; {case}")
        mon.check(c_on == c_off, "transparency:output-differs", f"projection kernel output differs between collection off and on; {case}")
        tapped = tap.expected_metrics()
        mon.count("op_executions_tapped", sum(tap.counts.values()))
        mon.check(tapped == tally, "exactness:library-runs-payload-arithmetic-of-its-own",
                  f"operator executions tapped inside the session {tapped} differ from what the kernel body executed {tally}; {case}")
        comp = (dump or {}).get("Compute", {})
        for metric, w in tally.items():
            mon.check(comp.get(metric, 0) == w, f"exactness:{metric}",
                      f"Metrics reports {metric}={comp.get(metric, 0)}, the kernel executed {w}; projection kernel {case}")
        if tally["payload_mul"] >= 2:
            mon.nontrivial()
        mon.state(("conv", tally["payload_mul"], case["sp"], case["traces"]))
    finally:
        _abort_session()
        shutil.rmtree(tmp, ignore_errors=True)


def _run_nary(case, mon):
    spec = case["spec"]
    nested = not case["flat"]
    tap = _counter()
    tmp = tempfile.mkdtemp(prefix="fv15n-")
    what = f"kernel {spec['ops']}->{spec['out']!r} order={spec['order']} style={spec['style']} flat={case['flat']}"
    try:
        try:
            tensors, Z, lvars, zl = kernels.build(spec)
            kernels.execute(spec, tensors, Z, lvars, zl, nested_and=nested)
            z_off = kernels.z_content(spec, Z, zl)
            tensors, Z, lvars, zl = kernels.build(spec)
            obs = _Bodies()
            Metrics.setNumCachedUses(case["ncu"])
            Metrics.beginCollect(os.path.join(tmp, "n"))
            for r, tt in case["traces"]:
                Metrics.trace(r, type_=tt)
            tap.reset()
            tap.active = True
            try:
                kernels.execute(spec, tensors, Z, lvars, zl, observer=obs, nested_and=nested)
            finally:
                tap.active = False
            Metrics.endCollect()
            dump = {k: dict(v) for k, v in (Metrics.dump() or {}).items()}
            z_on = kernels.z_content(spec, Z, zl)
        except BaseException as e:      # noqa
            if isinstance(e, KeyboardInterrupt):
                raise
            _abort_session()
            mon.violation(f"kernel-under-collection:raised:{type(e).__name__}:nary", f"{what} raised {type(e).__name__}: {e}")
            return
        mon.count("nary_runs")
        mon.count("differential_runs")
        mon.check(z_off == kernels.dense(spec), "nary:result", f"{what}: result {z_off}, dense {kernels.dense(spec)}")
        mon.check(z_on == z_off, "transparency:output-differs", f"{what}: output differs between collection off and on")
        tally = obs.tally
        tapped = tap.expected_metrics()
        mon.count("op_executions_tapped", sum(tap.counts.values()))
        mon.check(tapped == tally, "exactness:library-runs-payload-arithmetic-of-its-own",
                  f"{what}: operator executions tapped inside the session {tapped} differ from what the kernel body executed {tally}")
        comp = dump.get("Compute", {})
        for metric, w in tally.items():
            mon.check(comp.get(metric, 0) == w, f"exactness:{metric}", f"{what}: Metrics reports {metric}={comp.get(metric, 0)}, the kernel executed {w}")
        if tally["payload_mul"] >= 2:
            mon.nontrivial()
        mon.state(("nary", spec["style"], case["flat"], tally["payload_mul"]))
    finally:
        _abort_session()
        shutil.rmtree(tmp, ignore_errors=True)


def run_case(case, mon):
    if case.get("kind") == "conv":
        _run_conv(case, mon)
        return
    if case.get("kind") == "nary":
        _run_nary(case, mon)
        return
    spec = case["spec"]
    traces = [tuple(t) for t in case["traces"]]
    ncu = case["ncu"]
    tap = _counter()
    tmp = tempfile.mkdtemp(prefix="fv15-")
    prefix = os.path.join(tmp, "s")
    try:
        try:
            # reference: collection off
            tensors, Z, lvars, zl = kernels.build(spec, zinit=spec.get("zinit"))
            if Metrics.isCollecting():
                Metrics.endCollect()
            kernels.execute(spec, tensors, Z, lvars, zl)
            z_off = snap_values(Z)
            # (i) + (ii): collection on, tapped
            s0 = _session(spec, prefix, traces, ncu, tap=tap)
        except BaseException as e:      # noqa
            if isinstance(e, KeyboardInterrupt):
                raise
            _abort_session()
            mon.violation(f"kernel-under-collection:raised:{type(e).__name__}",
                          f"kernel {spec['ops']}->{spec['out']!r} order={spec['order']} style={spec['style']} traces={traces} "
                          f"raised {type(e).__name__}: {e}")
            return
        mon.count("differential_runs")
        mon.check(s0["zsnap"] == z_off, "transparency:output-differs",
                  f"kernel output differs between collection off and on (traces {traces}); spec {spec['ops']}->{spec['out']!r} "
                  f"order={spec['order']} style={spec['style']} tiles={spec['tiles']}")
        exp = s0["tally"]           # the operations the kernel itself executed (interpreter's own tally)
        tapped = tap.expected_metrics()
        n_ops = sum(tap.counts.values())
        mon.count("op_executions_tapped", n_ops)
        # every Payload operator execution inside the session is one the kernel wrote: the library itself must not
        # run (and count) payload arithmetic for its bookkeeping
        mon.check(tapped == exp, "exactness:library-runs-payload-arithmetic-of-its-own",
                  f"operator executions tapped inside the session {tapped} differ from what the kernel body executed {exp}")
        comp = s0["dump"].get("Compute", {})
        for metric, want in exp.items():
            got = comp.get(metric, 0)
            mon.check(got == want, f"exactness:{metric}",
                      f"Metrics reports {metric}={got}, the kernel executed {want} (operator executions tapped {dict(tap.counts)}, "
                      f"accumulates into non-zero boxes {tap.iadd_nonzero})")
            if "Compute" in s0["dump"]:
                try:
                    g2 = Compute.numOps(s0["dump"], metric[len("payload_"):])
                    mon.check(g2 == want, f"exactness:numOps:{metric}", f"Compute.numOps gives {g2}, taps saw {want}")
                except BaseException as e:      # noqa
                    mon.violation(f"exactness:numOps:raised:{type(e).__name__}", f"Compute.numOps raised {e!r}")
        extra = set(comp) - set(exp)
        mon.check(not extra, "exactness:unknown-metric", f"unexpected Compute metrics {extra}")
        dense_driven = set()
        fm = {(n, r) for n, r in spec.get("fmts", [])}
        zl_ = kernels.loop_vars_of(spec["out"], spec)
        for v in spec["order"]:
            part = [n for n, idx in spec["ops"] if v in kernels.loop_vars_of(idx, spec)]
            if len(part) == 1 and v not in zl_ and (part[0], kernels.rid(v)) in fm:
                dense_driven.add(kernels.rid(v))
        for r, tt in traces:
            if tt != "iter" or r in dense_driven:
                continue
            fn = f"{prefix}-{r}-iter.csv"
            want = s0["bodies"].get(r, 0)
            if not os.path.exists(fn):
                mon.check(want == 0, "iters:trace-file-missing", f"rank {r} executed {want} loop bodies but has no iter trace file")
                continue
            mon.count("numiters_checked")
            got = Compute.numIters(fn)
            mon.check(got == want, "iters:count", f"numIters({r})={got}, loop bodies executed at that rank: {want}")
        # (iii) isolation
        for e in case["earlier"]:
            mon.count("isolation_sessions")
            try:
                k = e["kind"]
                if k == "kernel":
                    r2 = random.Random(e["seed"])
                    tr = [(kernels.rid(v), r2.choice(TRACE_TYPES)) for v in e["spec"]["order"] if r2.random() < 0.7]
                    _session(e["spec"], prefix, tr, r2.choice([2, 5, 1000]))
                elif k == "kernel-same-traces":
                    _session(e["spec"], prefix, traces, ncu)
                elif k == "threshold":
                    _session(e["spec"], prefix, [], 2)
                elif k == "abandoned":
                    _session(e["spec"], prefix, [(kernels.rid(v), "iter") for v in e["spec"]["order"]], ncu, abandon_after=e["seed"] % 3)
                elif k == "project":
                    _project_session(e, prefix, False)
                else:
                    _project_session(e, prefix, True)
            except BaseException as ex:     # noqa
                if isinstance(ex, KeyboardInterrupt):
                    raise
                mon.count(f"earlier-session-raised:{type(ex).__name__}")
        try:
            s1 = _session(spec, prefix, traces, ncu)
            s2 = _session(spec, prefix, traces, ncu)
        except BaseException as e:      # noqa
            if isinstance(e, KeyboardInterrupt):
                raise
            _abort_session()
            kinds = "+".join(sorted({x["kind"] for x in case["earlier"]})) or "none"
            mon.violation(f"isolation:raised:{type(e).__name__}",
                          f"the kernel under test raised {type(e).__name__}: {e} when run after sessions [{kinds}]")
            return
        for tag, s in (("after-earlier-sessions", s1), ("repeated", s2)):
            mon.count("dump_compares")
            mon.check(s["dump"] == s0["dump"], f"isolation:dump:{tag}",
                      f"dump {s['dump']} differs from the first session's {s0['dump']} ({[x['kind'] for x in case['earlier']]})")
            mine = {f"s-{r}-{tt}.csv" for r, tt in traces}
            f_now = {k: v for k, v in s["files"].items() if k in mine}
            f_first = {k: v for k, v in s0["files"].items() if k in mine}
            if f_now != f_first:
                diff = [k for k in sorted(mine) if f_now.get(k) != f_first.get(k)]
                started = any(f_first.get(k) for k in diff)
                kinds = "content" if started else "never-started-trace-keeps-old-rows"
                mon.violation(f"isolation:trace-files:{kinds}:{tag}",
                              f"trace files of this session differ from the first session's: {diff[:3]} "
                              f"(earlier sessions {[x['kind'] for x in case['earlier']]})")
            else:
                mon.count("oracle_evals")
            mon.check(s["zsnap"] == z_off, f"isolation:output:{tag}", "kernel output differs in a later session")
        if s0["leaves"] >= 2 and traces:
            mon.nontrivial()
        mon.state((str(spec["ops"]), spec["out"], s0["leaves"], len(traces)))
    finally:
        _abort_session()
        shutil.rmtree(tmp, ignore_errors=True)


def _abort_session():
    try:
        if Metrics.isCollecting():
            # drain consumable traces so endCollect's assertion cannot fire, then close
            Metrics.traces = {}
            Metrics.endCollect()
    except BaseException:       # noqa
        Metrics.collecting = False
