"""C15 - metrics collection is transparent, exact and session-isolated.

Monitors:
 (i)   differential run: the same kernel on identical operands with collection off and on (any subset of
       ranks / trace types registered) must leave the same output tensor (values and structure);
 (ii)  independent counter: sys.monitoring PY_START taps on the Payload operator methods count the
       operator executions actually performed (reading `self.value` from the instrumented frame to apply
       the documented add/update rule); Metrics.dump()/Compute.numOps must report exactly those; the
       interpreter's observer counts loop bodies per rank, Compute.numIters of each traced rank's `iter`
       trace must equal them;
 (iii) session isolation: the kernel under test is run as a session before, after and after-again a random
       sequence of other sessions (other kernels and trace sets, same prefix, other flush thresholds,
       sessions abandoned by an exception, projection sessions that match ranks of the kernel under test,
       sessions with consumable in-memory traces - consumed, or left unconsumed and therefore never closed);
       its dump and its trace files must be identical every time.
The generated loop nests reach their output by populate or by direct reference (getPayloadRef in the loop body of
each output rank), and their operands are fresh, written by an earlier populate kernel, or already read by an
earlier kernel run (a run that raises only with collection off, or only on, is a difference in results).
Besides the generated loop nests, hand-written kernels in the library's other idioms go through the same three
monitors: projection-driven convolutions, n-ary co-iteration, kernels that hand a whole rank to one fiber-level
operator (`a_k * b_k`, `a_k + b_k`, `a_k += b_k`, `a_k *= s` ...; the operations executed are counted from the raw
operand lists) and convolution / gather kernels that look their input up by coordinate (getPayload) in a tensor whose
rank no loop iterates.
"""
import os
import random
import shutil
import tempfile

from fibertree import Fiber, Payload, Tensor
from fibertree.core.metrics import Metrics
from fibertree.model.compute import Compute

from fvmon import kernels
from fvmon.observe import snap_values
from fvmon.taps import OpCounter

SPEC = {
    "anchors": ["fibertree.core.metrics:Metrics.beginCollect", "fibertree.core.metrics:Metrics.endCollect", "fibertree.core.metrics:Metrics.incCount", "fibertree.core.metrics:Metrics.registerRank", "fibertree.core.metrics:Metrics.trace", "fibertree.core.payload:Payload.__mul__", "fibertree.core.payload:Payload.__iadd__", "fibertree.core.iterators:iterRange", "fibertree.core.iterators:__and__", "fibertree.core.iterators:__lshift__", "fibertree.model.compute:Compute.numOps", "fibertree.model.compute:Compute.numIters",
                "fibertree.core.fiber:Fiber.__mul__", "fibertree.core.fiber:Fiber.__add__", "fibertree.core.fiber:Fiber.__iadd__", "fibertree.core.fiber:Fiber.getPayload",
                "fibertree.core.fiber:Fiber.getPayloadRef", "fibertree.core.iterators:intersection", "fibertree.core.metrics:Metrics.consumeTrace"],
    "rule": ("case = one kernel from the C06 family (random operand values incl. empty operands, optional tiling, "
             "either intersection style, any loop order) + a subset of (rank, trace type) registrations + a sequence "
             "of 0-4 earlier sessions of 7 kinds (other kernels and trace sets, abandoned sessions, projection sessions, sessions "
             "with consumable in-memory traces that were consumed and closed / not consumed so that endCollect() refused / never "
             "closed).  The kernel reaches its output by populate (z << ...) or, for a quarter of the kernels, by direct reference "
             "(z_x.getPayloadRef(coord) in the body of the loop over each output rank).  Each operand is built from its values, "
             "or written by an earlier populate kernel, or already read by an earlier run of the kernel (operand histories, "
             "applied before the session opens, identically for the run without collection).  Every registration of the kernel "
             "under test (generated and fiber-operator / lookup kernels) is kept in its file, in memory (consumable=True, read back "
             "with consumeTrace before endCollect), or both - registered file-first or memory-first; the iteration count is checked "
             "on every copy (numIters of the file; use rows of the consumed list) and consumed traces must repeat across sessions.  "
             "In two-finger kernels any non-leading operand of a co-iteration may call the rank it contributes by a name of its own "
             "(A[M,K] & B[K_B]); loop ranks and registrations keep the leading operand's names.  Non-trivial = the kernel executes at least 2 leaf bodies with "
             "collection on and at least one rank is traced; distinct = distinct case.  Plus hand-written kernels of the same "
             "Einsum family in the library's other idioms: (a) projection-driven and (b) n-ary co-iteration kernels, (c) kernels "
             "whose innermost rank is handled by one fiber-level operator per row (fiber * fiber, fiber + fiber, fiber *= fiber, "
             "fiber += fiber, fiber *= scalar, fiber += scalar; reduced into Z_m or populated into Z_mk): the element-wise "
             "operations the operator executes on the kernel's behalf are counted from the raw operand lists (intersection for *, "
             "union for +, right operand's elements for +=, non-empty elements for *= scalar, whole shape for += scalar), "
             "(d) convolution / gather kernels that look the input up by coordinate (getPayload(w), getPayload(w, allocate=False, "
             "default=0), getPayload(c, w) from the root) in a tensor whose rank is not one of the loop ranks, in loop orders "
             "QS and SQ, with or without a co-iterated channel rank, any subset of (rank, trace type) registered - also for "
             "the rank that is only looked up; every hand-written kernel is run off / on / on-again (same prefix)."),
    "shards": {"quick": 16, "thorough": 16},
    "min_counts": {"quick": {"evaluations": 150, "differential_runs": 150, "op_executions_tapped": 1000,
                             "numiters_checked": 150, "isolation_sessions": 200, "dump_compares": 300, "kept_reports_checked": 100, "conv_runs": 60,
                             "nary_runs": 60, "conv_runs_with_prebuilt_projections": 20, "fiberop_runs": 60,
                             "fiberop_elementwise_ops": 400, "lookup_runs": 60, "lookup_kernel_ops": 400,
                             "output_by_reference_runs": 40, "operand_history_runs": 120, "operand_history_runs_leader_follower": 30,
                             "consumable_sessions": 50, "consumable_sessions_left_open": 30,
                             "traces_in_file_then_memory": 300, "traces_in_memory_then_file": 300, "traces_in_memory_only": 300,
                             "in_memory_iter_counts_checked": 150, "operand_own_rank_name_runs": 30,
                             "operand_own_rank_name_runs_uncompressed": 8}},
    "assumptions": [
        "num_cached_uses is configuration, not session state: it is set to the same value before every run of the kernel under test",
        "counting rule for adds follows the documented choice: an accumulate into a zero-valued box is an update, not an add",
        "operands are tensors with declared shapes (populate under collection asserts a shape on the destination)",
        "a loop level driven directly by the dense (shape) iterator of a single uncompressed-format operand emits no iter rows (iterRangeShape never calls addUse); such levels are excluded from the iteration-count clause",
        "likewise the Q loop of the lookup kernels (iterShapeRef) and the rank handled by a fiber-level operator (iterated implicitly inside the operator as well) are excluded from the iteration-count clause; the outer ranks of those kernels are not",
        "fiber *= fiber also empties the left operand's elements outside the intersection; whether emptying is a counted update is not fixed by the statement, so for that form only the multiply and add counts are compared",
        "a kernel that raises with collection off but completes with collection on (or the reverse) counts as producing different results",
        "a session with an unconsumed consumable trace stays open when its endCollect() refuses (documented assertion); the next beginCollect() must still start clean",
        "an in-memory (consumable) trace holds one heading row (column names) followed by one row per use; the kernel's author consumes it once, after the loop nest and before endCollect()",
        "the rank id of a co-iteration is the leading operand's (library convention, fibers[0] / self); the other operands' rank ids are free",
        "fiber-with-scalar value-returning operators (fiber * s, s + fiber, ...) are not generated: they compute on unboxed values, so nothing they do is a payload operation (observed, not claimed; see FIBER_FORMS_GUARDED)",
    ],
}

TRACE_TYPES = ["iter", "intersect_0", "intersect_1", "populate_1", "populate_read_0", "populate_write_0", "intersect_2", "intersect_3"]
_ops = {"c": None}


def generate(rng, tier, shard, nshards, mon):
    n = (1280 if tier == "quick" else 52000) // nshards
    for i in range(n):
        if i % 8 == 0:
            yield _gen_fiberop(rng)
            continue
        if i % 8 == 4:
            yield _gen_lookup(rng)
            continue
        if i % 8 == 5:
            # 1-D convolution through project(): O[q] += I[q + s] * F[s]
            W = rng.randint(2, 9)
            S = rng.randint(1, 3)
            from fvmon import gen
            yield {"kind": "conv", "i": gen.rand_leaf_spec(rng, W, 0.7, 0.0, 0), "f": gen.rand_leaf_spec(rng, S, 0.8, 0.0, 0),
                   "W": W, "S": S, "sp": rng.choice(["none", "plain", "boxed", "boxed"]),
                   # the projected (lazy) fibers may be built in the loop, before the session, or used by an earlier session too
                   "build": rng.choice(["inline", "inline", "before-session", "previous-session"]),
                   "traces": rng.choice(["all", "all", "some", "none"]), "ncu": rng.choice([2, 3, 1000])}
            continue
        if i % 8 == 2:
            # three or four operands co-iterated on one rank, as nested `&`, as one flat Fiber.intersection(...), or leader-follower
            spec = kernels.rand_spec(rng, family=rng.choice(kernels.FAMILIES3), tiles=False)
            spec["style"] = rng.choice(["two-finger", "two-finger", "leader-follower"])
            hist = {name: rng.choice(OPERAND_HISTORIES[1:]) for name, _ in spec["ops"] if rng.random() < 0.45}
            if hist:
                spec["ophist"] = hist
            yield {"kind": "nary", "spec": spec, "flat": rng.random() < 0.6, "ncu": rng.choice([2, 1000]),
                   "traces": [[kernels.rid(v), "iter"] for v in spec["order"] if rng.random() < 0.5]}
            continue
        spec = kernels.rand_spec(rng, tiles=True)
        lv = spec["order"]
        # the output reached by direct reference (z_m.getPayloadRef(m) in the loop over M) instead of populate
        if spec["out"] and rng.random() < 0.25:
            spec["zref"] = True
        # operands with a history: produced by an earlier (populate) kernel, or already used by an earlier kernel
        hist = {name: rng.choice(OPERAND_HISTORIES[1:]) for name, _ in spec["ops"] if rng.random() < 0.45}
        if hist:
            spec["ophist"] = hist
        # uncompressed-format ranks (zero-valued operands reach the body) and a pre-populated, dirty output
        if not spec.get("zref") and rng.random() < 0.5:
            fm = []
            for name, idx in spec["ops"] + [["Z", spec["out"]]]:
                for x in kernels.loop_vars_of(idx, spec):
                    if rng.random() < 0.35:
                        fm.append([name, kernels.rid(x)])
            spec["fmts"] = fm
        # operand rank names: a co-iteration takes its rank from its leading operand, so any other operand may call the
        # rank it contributes something else (A[M,K] & B[J]); the loop ranks - and the registrations - are unchanged
        if spec["style"] == "two-finger" and rng.random() < 0.5:
            al = []
            for x in lv:
                part = [name for name, idx in spec["ops"] if x in kernels.loop_vars_of(idx, spec)]
                al += [[name, kernels.rid(x)] for name in part[1:] if rng.random() < 0.5]
            if al:
                spec["alias"] = al
                # such an operand is as likely as any other to be stored in uncompressed format
                if not spec.get("zref"):
                    fm = spec.get("fmts") or []
                    spec["fmts"] = fm + [x for x in al if x not in fm and rng.random() < 0.5]
        zl = sorted(kernels.loop_vars_of(spec["out"], spec), key=lv.index)
        if zl and rng.random() < (0.8 if len(zl) > 1 else 0.4):
            from fvmon import gen
            spec["zinit"] = gen.rand_tree_spec(rng, [spec["ext"][x[0]] for x in zl], 0.5, 0.6, 0)
        traces = []
        mode = rng.random()
        if len(zl) > 1 and rng.random() < 0.35:
            # an output that already holds empty sub-fibers / explicit defaults at many places, fully instrumented
            from fvmon import gen
            spec["zinit"] = gen.rand_tree_spec(rng, [spec["ext"][x[0]] for x in zl], 0.3, 1.0, 0)
            mode = 0.0
        for v in lv:
            if mode < 0.4:      # maximal instrumentation
                traces += [[kernels.rid(v), tt] for tt in TRACE_TYPES]
                continue
            if rng.random() < 0.6:
                traces.append([kernels.rid(v), "iter"])
            for tt in TRACE_TYPES[1:]:
                if rng.random() < 0.25:
                    traces.append([kernels.rid(v), tt])
        earlier = []
        for _ in range(rng.choice([0, 1, 2, 2, 3, 4])):
            kind = rng.choice(EARLIER_KINDS)
            e = {"kind": kind, "seed": rng.randrange(1 << 20)}
            if kind.startswith("kernel") or kind in ("abandoned", "threshold", "consumable"):
                e["spec"] = kernels.rand_spec(random.Random(e["seed"]), tiles=False)
            if kind.startswith("project"):
                ranks = [kernels.rid(v) for v in lv]
                if len(ranks) >= 2:
                    e["src"], e["dst"] = rng.sample(ranks, 2)
                else:
                    e["src"], e["dst"] = ranks[0], "Q"
            earlier.append(e)
        yield {"spec": spec, "traces": traces, "earlier": earlier, "ncu": rng.choice([2, 3, 7, 1000]),
               "stores": _rand_stores(rng, traces)}


VALS = [1, 2, 3, -1, -2, 4]
# kinds of earlier sessions ("consumable": in-memory traces registered with consumable=True; the session consumed them and
# closed, or did not consume them - its endCollect() then refuses, as documented, and the session stays open - or was never closed)
EARLIER_KINDS = ["kernel", "kernel-same-traces", "abandoned", "project", "project-abandoned", "threshold", "consumable"]
# where an operand tensor comes from: built from its values, written by an earlier populate kernel (its fibers carry the
# search positions that kernel left), or already read by an earlier run of a kernel (collection off)
OPERAND_HISTORIES = ["fresh", "produced", "produced", "used"]
# fiber-level operator forms (the element-wise loop is implicit, executed inside the library on the kernel's behalf)
FIBER_FORMS = ["mul", "mul", "add", "imul", "iadd", "imul-scalar", "iadd-scalar"]
# Observed, not claimed (DESIGN 12.3): `fiber * scalar`, `scalar * fiber`, `fiber + scalar`, `scalar + fiber` compute on the
# unboxed values, so the element-wise multiplications / additions they execute are not *payload* operations and are
# reported as 0 (their in-place forms do count); the quantifier is the C06 family of loop nests, so these forms are
# not generated (they would report under exactness:<metric>:fiber-scalar-operator).
FIBER_FORMS_GUARDED = ["mul-scalar", "rmul-scalar", "add-scalar", "radd-scalar"]
# (a scatter-style kernel that fetches its output element with getPayloadRef(q) on a rank that no loop iterates raised
# AssertionError - Metrics.addUse: rank not registered - only when collection is on, until repository fix 42e82d0:
# key lookup-kernel-under-collection:raised:AssertionError:getPayloadRef)
LOOKUPS = ["getPayload", "getPayload", "getPayload-noalloc", "getPayload-point", "getPayloadRef-scatter"]
LOOKUPS_GUARDED = []


# where a registered trace is kept: in its file (Metrics.trace(rank, type_)), in memory (consumable=True, read back with
# Metrics.consumeTrace before the session closes), or both - registered in either order
STORES = ["file", "file", "file+mem", "mem+file", "mem"]


def _rand_stores(rng, traces):
    """One storage per registration of `traces` (None: every trace in its file only)."""
    if not traces or rng.random() < 0.45:
        return None
    return [rng.choice(STORES) for _ in traces]


def _register(traces, stores):
    for j, (r, tt) in enumerate(traces):
        for where in (stores[j] if stores else "file").split("+"):
            Metrics.trace(r, type_=tt, consumable=(where == "mem"))


def _consume(traces, stores):
    """Read back every in-memory trace of the session (as the kernel's author must before endCollect())."""
    out = {}
    for j, (r, tt) in enumerate(traces):
        if stores and "mem" in stores[j]:
            out[f"{r}-{tt}"] = [list(row) for row in Metrics.consumeTrace(r, tt)]
    return out


def _has_file(stores, j):
    return not stores or "file" in stores[j]


def _mem_rows(rows):
    """Number of uses recorded in a consumed trace (its first row is the heading: column names)."""
    return sum(1 for row in rows if not (row and isinstance(row[0], str)))


def _count_stores(mon, stores):
    for st in stores or []:
        if st == "file+mem":
            mon.count("traces_in_file_then_memory")
        elif st == "mem+file":
            mon.count("traces_in_memory_then_file")
        elif st == "mem":
            mon.count("traces_in_memory_only")


def _rand_traces(rng, ranks):
    mode = rng.random()
    if mode < 0.2:
        return []
    out = []
    for r in ranks:
        if mode < 0.5:
            out += [[r, tt] for tt in TRACE_TYPES]
            continue
        if rng.random() < 0.6:
            out.append([r, "iter"])
        for tt in TRACE_TYPES[1:]:
            if rng.random() < 0.2:
                out.append([r, tt])
    return out


def _gen_fiberop(rng):
    from fvmon import gen
    M, K = rng.randint(1, 4), rng.randint(1, 5)
    form = rng.choice(FIBER_FORMS)
    case = {"kind": "fiberop", "form": form, "M": M, "K": K, "out": rng.choice(["m", "m", "mk"]),
            "a": gen.rand_nest(rng, [M, K], rng.choice([0.3, 0.6, 0.9, 1.0]), 0, VALS),
            "traces": _rand_traces(rng, ["M", "K"]), "ncu": rng.choice([2, 3, 1000])}
    case["stores"] = _rand_stores(rng, case["traces"])
    if form.endswith("scalar"):
        case["s"] = rng.choice([2, 3, -1, 2, 0])
    else:
        case["b"] = gen.rand_nest(rng, [M, K], rng.choice([0.0, 0.3, 0.6, 0.9, 1.0]), 0, VALS)
    return case


def _gen_lookup(rng):
    from fvmon import gen
    W = rng.randint(2, 8)
    S = rng.randint(1, min(3, W))
    C = rng.choice([0, 0, 1, 2, 3])
    lookup = rng.choice(LOOKUPS)
    if lookup == "getPayload-point" and C == 0:
        C = rng.randint(1, 3)
    di, df = rng.choice([0.0, 0.4, 0.7, 1.0]), rng.choice([0.3, 0.7, 1.0])
    case = {"kind": "lookup", "W": W, "S": S, "C": C, "lookup": lookup, "order": rng.choice(["qs", "sq"]),
            "skipzero": rng.random() < 0.4,
            "i": gen.rand_nest(rng, ([C] if C else []) + [W], di, 0, VALS),
            "f": gen.rand_nest(rng, ([C] if C else []) + [S], df, 0, VALS),
            "traces": _rand_traces(rng, ["Q", "S", "W"] + (["C"] if C else [])), "ncu": rng.choice([2, 3, 1000])}
    case["stores"] = _rand_stores(rng, case["traces"])
    return case


def _counter():
    if _ops["c"] is None:
        _ops["c"] = OpCounter()
        _ops["c"].install()
    return _ops["c"]


class _Bodies(kernels.Observer):
    def __init__(self):
        self.per_rank = {}
        self.leaves = 0
        self.tally = {"payload_mul": 0, "payload_add": 0, "payload_update": 0}

    def body(self, d, var, coord, point):
        r = kernels.rid(var)
        self.per_rank[r] = self.per_rank.get(r, 0) + 1

    def leaf(self, point, factors, prod, updated, old=None):
        self.leaves += 1
        # what the kernel itself executed at this leaf: (factors - 1) multiplies and, if it reduced, one update
        # that is an add unless it accumulated into a zero-valued box (documented counting rule)
        self.tally["payload_mul"] += len(factors) - 1
        if updated:
            self.tally["payload_update"] += 1
            if old != 0:
                self.tally["payload_add"] += 1


def _produced(t):
    """The same tensor written by a producer kernel:  T'[...] = T[...]  populated rank by rank with `<<`."""
    ids = t.getRankIds()
    out = Tensor(rank_ids=list(ids), shape=list(t.getShape()), name=t.getName())

    def copy(o_f, s_f, d):
        for _, (o_ref, s_val) in o_f << s_f:
            if d == len(ids) - 1:
                o_ref += s_val
            else:
                copy(o_ref, s_val, d + 1)
    copy(out.getRoot(), t.getRoot(), 0)
    return out


def _build(spec):
    """_build_hist + the operands' own rank names (spec["alias"]: [operand name, rank id] -> that rank is called
    <rank id>_<operand name> in the operand tensor)."""
    tensors, Z, lvars, zl = _build_hist(spec)
    for name, r in spec.get("alias") or []:
        t = tensors[name]
        t.setRankIds([f"{x}_{name}" if x == r else x for x in t.getRankIds()])
    return tensors, Z, lvars, zl


def _build_hist(spec):
    """kernels.build + the operands' histories (spec["ophist"]: operand name -> "produced" | "used")."""
    hist = spec.get("ophist") or {}
    if not hist:
        return kernels.build(spec, zinit=spec.get("zinit"))
    tensors, Z, lvars, zl = kernels.build(spec, fmts=[], zinit=spec.get("zinit"))
    for name, how in hist.items():
        if how == "produced":
            tensors[name] = _produced(tensors[name])
    want = {(n, r) for n, r in spec.get("fmts") or []}
    for name, t in list(tensors.items()) + [("Z", Z)]:
        for r in t.getRankIds():
            if (name, r) in want:
                t.setFormat(r, "U")
    if "used" in hist.values():
        # an earlier run of the same kernel read the operands (into an output of its own)
        z_scratch = Tensor(rank_ids=list(Z.getRankIds()), shape=list(Z.getShape()), name="Z")
        _execute(spec, tensors, z_scratch, lvars, zl)
    return tensors, Z, lvars, zl


def _execute(spec, tensors, Z, lvars, zl, observer=None, nested_and=True):
    if spec.get("zref"):
        return _exec_zref(spec, tensors, Z, lvars, zl, observer)
    return kernels.execute(spec, tensors, Z, lvars, zl, observer=observer, nested_and=nested_and)


def _exec_zref(spec, tensors, Z, lvars, zl, observer=None):
    """The loop nest of kernels.execute with the output reached by direct reference: the loops co-iterate the operands
    only, and in the body of the loop over an output rank the kernel fetches  z_ref = z_x.getPayloadRef(coord)."""
    order, style = spec["order"], spec["style"]
    names = [n for n, _ in spec["ops"]]
    obs = observer or kernels.Observer()
    count = [0]

    def level(d, cur, zcur, point):
        if d == len(order):
            vals = [cur[n] for n in names]
            prod = vals[0]
            for x in vals[1:]:
                prod = prod * x
            updated = False
            old = Payload.get(zcur)
            if style != "leader-follower" or Payload.get(prod) != 0:
                zcur += prod
                updated = True
            count[0] += 1
            obs.leaf(point, vals, prod, updated, old)
            return
        v = order[d]
        part = [n for n in names if v in lvars[n]]
        fibers = [cur[n] for n in part]
        assert len(fibers) <= 2
        if len(fibers) == 1:
            co = fibers[0]
        elif style == "leader-follower":
            co = Fiber.intersection(*fibers, style="leader-follower")
        else:
            co = fibers[0] & fibers[1]
        for c, p in co:
            obs.body(d, v, c, point + [c])
            z_ref = zcur.getPayloadRef(c) if v in zl else zcur
            nxt = dict(cur)
            for n, val in zip(part, [p] if len(fibers) == 1 else list(Payload.get(p))):
                nxt[n] = val
            level(d + 1, nxt, z_ref, point + [c])

    level(0, {n: tensors[n].getRoot() for n in names}, Z.getRoot(), [])
    return count[0]


def _consumable_session(e, prefix):
    """An earlier session that keeps traces in memory (consumable=True).  seed % 3: 0 - did not consume them, so its
    endCollect() refused (documented AssertionError) and the session stays open; 1 - never closed; 2 - consumed, closed."""
    spec = e["spec"]
    r2 = random.Random(e["seed"])
    tensors, Z, lvars, zl = kernels.build(spec)
    Metrics.beginCollect(prefix)
    regs = []
    for v in spec["order"]:
        tt = r2.choice(TRACE_TYPES[:3])
        if r2.random() < 0.4:
            Metrics.trace(kernels.rid(v), type_=tt)         # kept in a file as well
        Metrics.trace(kernels.rid(v), type_=tt, consumable=True)
        regs.append((kernels.rid(v), tt))
    kernels.execute(spec, tensors, Z, lvars, zl)
    how = e["seed"] % 3
    if how == 2:
        for r, tt in regs:
            Metrics.consumeTrace(r, tt)
        Metrics.endCollect()
    elif how == 0:
        try:
            Metrics.endCollect()
        except AssertionError:
            pass


def _read_files(prefix):
    d = os.path.dirname(prefix)
    base = os.path.basename(prefix)
    out = {}
    for fn in sorted(os.listdir(d)):
        if fn.startswith(base + "-"):
            with open(os.path.join(d, fn)) as fh:
                out[fn] = fh.read()
    return out


def _session(spec, prefix, traces, ncu, tap=None, abandon_after=None, stores=None):
    """Run one collection session of a kernel.  Returns dict(dump, files, bodies, zsnap, leaves)."""
    tensors, Z, lvars, zl = _build(spec)
    obs = _Bodies()
    Metrics.setNumCachedUses(ncu)
    Metrics.beginCollect(prefix)
    _register(traces, stores)
    if tap is not None:
        tap.reset()
        tap.active = True
    try:
        if abandon_after is not None:
            class _Quit(Exception):
                pass

            class _Ab(_Bodies):
                def leaf(self_, point, factors, prod, updated, old=None):
                    self_.leaves += 1
                    if self_.leaves > abandon_after:
                        raise _Quit()
            try:
                _execute(spec, tensors, Z, lvars, zl, observer=_Ab())
            except _Quit:
                return None         # session abandoned: no endCollect
        _execute(spec, tensors, Z, lvars, zl, observer=obs)
    finally:
        if tap is not None:
            tap.active = False
    mem = _consume(traces, stores)
    Metrics.endCollect()
    dump = Metrics.dump()
    return {"dump": {k: dict(v) for k, v in (dump or {}).items()}, "dump_object": dump, "files": _read_files(prefix), "bodies": dict(obs.per_rank), "mem": mem,
            "zsnap": snap_values(Z), "leaves": obs.leaves, "tally": dict(obs.tally)}


def _project_session(e, prefix, abandon):
    """A little convolution-like session that matches rank e['src'] to e['dst'] through project()."""
    src, dst = e["src"], e["dst"]
    i_t = Tensor.fromUncompressed(rank_ids=[src], root=[1, 2, 0, 3, 4, 5], shape=[6])
    z_t = Tensor(rank_ids=[dst], shape=[6])
    Metrics.beginCollect(prefix)
    Metrics.trace(src, type_="iter")
    Metrics.trace(dst, type_="populate_read_0")
    Metrics.trace(dst, type_="populate_write_0")
    Metrics.trace(dst, type_="populate_1")
    n = 0
    lazy = z_t.getRoot() << i_t.getRoot().project(trans_fn=lambda w: w - 1, interval=(0, 5), rank_id=dst, tick=True)
    for q, (z_ref, i_val) in lazy.iterOccupancy(tick=False):
        z_ref += i_val
        n += 1
        if abandon and n == 2:
            return
    Metrics.endCollect()


def _conv(case, prefix, collect):
    """-> (content of O, dump, tally)"""
    from fvmon import gen
    from fvmon.observe import content
    W, S = case["W"], case["S"]
    Q = W
    i_t = Tensor.fromFiber(rank_ids=["W"], fiber=gen.fiber_from_spec(case["i"], 0), shape=[W])
    f_t = Tensor.fromFiber(rank_ids=["S"], fiber=gen.fiber_from_spec(case["f"], 0), shape=[S])
    o_t = Tensor(rank_ids=["Q"], shape=[Q])
    i_w, f_s, o_q = i_t.getRoot(), f_t.getRoot(), o_t.getRoot()
    tally = {"payload_mul": 0, "payload_add": 0, "payload_update": 0}
    sp = None
    if case["sp"] != "none" and len(i_w.coords) > 0:
        sp = Payload(0) if case["sp"] == "boxed" else 0
    kw = {} if sp is None else {"start_pos": sp}
    build = case.get("build", "inline") if collect else "inline"
    hoisted = {}
    if build != "inline":
        for s in f_s.coords:
            hoisted[s] = i_w.project(trans_fn=lambda w, s=s: w - s, interval=(0, Q), rank_id="Q", tick=True, **kw)

    def begin():
        Metrics.setNumCachedUses(case["ncu"])
        Metrics.beginCollect(prefix)
        if case["traces"] != "none":
            names = [("S", "iter"), ("W", "iter"), ("W", "project_0"), ("W", "project_1"), ("Q", "populate_read_0"),
                     ("Q", "populate_write_0"), ("Q", "populate_1"), ("W", "project_2")]
            if case["traces"] == "some":
                names = names[::2]
            for r, tt in names:
                Metrics.trace(r, type_=tt)
    if collect and build == "previous-session":
        # an earlier session walks the same projected fibers (into a scratch output)
        begin()
        scratch = Tensor(rank_ids=["Q"], shape=[Q]).getRoot()
        for s, f_val in f_s:
            for q, (o_ref, i_val) in (scratch << hoisted[s]).iterOccupancy(tick=False):
                pass
        Metrics.endCollect()
    if collect:
        begin()
    for s, f_val in f_s:
        src = hoisted[s] if build != "inline" else i_w.project(trans_fn=lambda w, s=s: w - s, interval=(0, Q), rank_id="Q", tick=True, **kw)
        lazy = o_q << src
        for q, (o_ref, i_val) in lazy.iterOccupancy(tick=False):
            old = Payload.get(o_ref)
            o_ref += i_val * f_val
            tally["payload_mul"] += 1
            tally["payload_update"] += 1
            if old != 0:
                tally["payload_add"] += 1
    dump = None
    if collect:
        Metrics.endCollect()
        dump = {k: dict(v) for k, v in (Metrics.dump() or {}).items()}
    return content(o_t, 0), dump, tally


def _run_conv(case, mon):
    tmp = tempfile.mkdtemp(prefix="fv15c-")
    tap = _counter()
    try:
        try:
            c_off, _, t_off = _conv(case, None, False)
            tap.reset()
            tap.active = True
            try:
                c_on, dump, tally = _conv(case, os.path.join(tmp, "c"), True)
            finally:
                tap.active = False
        except BaseException as e:      # noqa
            if isinstance(e, KeyboardInterrupt):
                raise
            _abort_session()
            mon.violation(f"conv-under-collection:raised:{type(e).__name__}", f"projection kernel raised {type(e).__name__}: {e}; {case}")
            return
        mon.count("conv_runs")
        if case.get("build", "inline") != "inline":
            mon.count("conv_runs_with_prebuilt_projections")
        mon.count("differential_runs")
        want = {}
        iv, fv = dict((c, v) for c, v in case["i"]), dict((c, v) for c, v in case["f"])
        for s_, f_ in fv.items():
            for w_, i_ in iv.items():
                if 0 <= w_ - s_ < case["W"] and i_ * f_ != 0:
                    want[(w_ - s_,)] = want.get((w_ - s_,), 0) + i_ * f_
        want = {k: v for k, v in want.items() if v != 0}
        mon.check(c_off == want, "conv:result", f"projection kernel result {c_off}, dense convolution {want}; {case}")
        mon.check(c_on == c_off, "transparency:output-differs", f"projection kernel output differs between collection off and on; {case}")
        tapped = tap.expected_metrics()
        mon.count("op_executions_tapped", sum(tap.counts.values()))
        mon.check(tapped == tally, "exactness:library-runs-payload-arithmetic-of-its-own",
                  f"operator executions tapped inside the session {tapped} differ from what the kernel body executed {tally}; {case}")
        comp = (dump or {}).get("Compute", {})
        for metric, w in tally.items():
            mon.check(comp.get(metric, 0) == w, f"exactness:{metric}",
                      f"Metrics reports {metric}={comp.get(metric, 0)}, the kernel executed {w}; projection kernel {case}")
        if tally["payload_mul"] >= 2:
            mon.nontrivial()
        mon.state(("conv", tally["payload_mul"], case["sp"], case["traces"]))
    finally:
        _abort_session()
        shutil.rmtree(tmp, ignore_errors=True)


def _run_nary(case, mon):
    spec = case["spec"]
    nested = not case["flat"]
    tap = _counter()
    tmp = tempfile.mkdtemp(prefix="fv15n-")
    what = (f"kernel {spec['ops']}->{spec['out']!r} order={spec['order']} style={spec['style']} flat={case['flat']} "
            f"operand-histories={spec.get('ophist') or {}}")
    try:
        off_exc = None
        try:
            tensors, Z, lvars, zl = _build(spec)
            kernels.execute(spec, tensors, Z, lvars, zl, nested_and=nested)
            z_off = kernels.z_content(spec, Z, zl)
        except BaseException as e:      # noqa
            if isinstance(e, KeyboardInterrupt):
                raise
            off_exc = e
        try:
            tensors, Z, lvars, zl = _build(spec)
            obs = _Bodies()
            Metrics.setNumCachedUses(case["ncu"])
            Metrics.beginCollect(os.path.join(tmp, "n"))
            for r, tt in case["traces"]:
                Metrics.trace(r, type_=tt)
            tap.reset()
            tap.active = True
            try:
                kernels.execute(spec, tensors, Z, lvars, zl, observer=obs, nested_and=nested)
            finally:
                tap.active = False
            Metrics.endCollect()
            dump = {k: dict(v) for k, v in (Metrics.dump() or {}).items()}
            z_on = kernels.z_content(spec, Z, zl)
        except BaseException as e:      # noqa
            if isinstance(e, KeyboardInterrupt):
                raise
            _abort_session()
            if off_exc is None:
                mon.violation(f"kernel-under-collection:raised:{type(e).__name__}:nary",
                              f"{what} runs with collection off but raised {type(e).__name__}: {e} with collection on")
            else:
                mon.violation(f"kernel:raised-with-and-without-collection:{type(e).__name__}:nary",
                              f"{what} raised {type(off_exc).__name__}: {off_exc} with collection off and {type(e).__name__}: {e} with collection on")
            return
        if off_exc is not None:
            mon.violation(f"transparency:raised-only-without-collection:{type(off_exc).__name__}:nary",
                          f"{what} runs with collection on but raised {type(off_exc).__name__}: {off_exc} with collection off")
            return
        mon.count("nary_runs")
        mon.count("differential_runs")
        if spec.get("ophist"):
            mon.count("operand_history_runs")
            if spec["style"] == "leader-follower":
                mon.count("operand_history_runs_leader_follower")
        mon.check(z_off == kernels.dense(spec), "nary:result", f"{what}: result {z_off}, dense {kernels.dense(spec)}")
        mon.check(z_on == z_off, "transparency:output-differs", f"{what}: output differs between collection off and on")
        tally = obs.tally
        tapped = tap.expected_metrics()
        mon.count("op_executions_tapped", sum(tap.counts.values()))
        mon.check(tapped == tally, "exactness:library-runs-payload-arithmetic-of-its-own",
                  f"{what}: operator executions tapped inside the session {tapped} differ from what the kernel body executed {tally}")
        comp = dump.get("Compute", {})
        for metric, w in tally.items():
            mon.check(comp.get(metric, 0) == w, f"exactness:{metric}", f"{what}: Metrics reports {metric}={comp.get(metric, 0)}, the kernel executed {w}")
        if tally["payload_mul"] >= 2:
            mon.nontrivial()
        mon.state(("nary", spec["style"], case["flat"], tally["payload_mul"]))
    finally:
        _abort_session()
        shutil.rmtree(tmp, ignore_errors=True)


# ------------------------------------------------------------------------------------------
# hand-written kernels: fiber-level operator forms, lookups by coordinate
# ------------------------------------------------------------------------------------------
METRICS = ("payload_mul", "payload_add", "payload_update")


def _begin(case, prefix):
    Metrics.setNumCachedUses(case["ncu"])
    Metrics.beginCollect(prefix)
    _register([tuple(t) for t in case["traces"]], case.get("stores"))


def _end(case, prefix):
    mem = _consume([tuple(t) for t in case["traces"]], case.get("stores"))
    Metrics.endCollect()
    return {k: dict(v) for k, v in (Metrics.dump() or {}).items()}, _read_files(prefix), mem


def _fiberop(case, prefix, collect):
    """Z_m = sum_k op(A_mk, B_mk)  or  Z_mk = op(A_mk, B_mk), the K rank handled by ONE fiber-level operator per row
    (fiber * fiber, fiber + fiber, fiber *= fiber, fiber += fiber, fiber *= scalar, fiber += scalar, ...).
    -> {"z": content of Z, "dump", "files", "bodies"}"""
    from fvmon.observe import content
    M, K, form = case["M"], case["K"], case["form"]
    two = "b" in case
    out_mk = case["out"] == "mk"
    a_t = Tensor.fromUncompressed(rank_ids=["M", "K"], root=case["a"], shape=[M, K], name="A")
    b_t = Tensor.fromUncompressed(rank_ids=["M", "K"], root=case["b"], shape=[M, K], name="B") if two else None
    z_t = Tensor(rank_ids=["M", "K"] if out_mk else ["M"], shape=[M, K] if out_mk else [M], name="Z")
    s = case.get("s")
    bodies = {"M": 0}
    if collect:
        _begin(case, prefix)
    a_m, z_m = a_t.getRoot(), z_t.getRoot()
    src = (a_m & b_t.getRoot()) if two else a_m
    for m, (z_x, p) in z_m << src:
        bodies["M"] += 1
        if two:
            a_k, b_k = p
        else:
            a_k, b_k = p, None
        if form == "mul":
            t_k = a_k * b_k
        elif form == "add":
            t_k = a_k + b_k
        elif form == "imul":
            a_k *= b_k
            t_k = a_k
        elif form == "iadd":
            a_k += b_k
            t_k = a_k
        elif form == "imul-scalar":
            a_k *= s
            t_k = a_k
        elif form == "iadd-scalar":
            a_k += s
            t_k = a_k
        elif form == "mul-scalar":
            t_k = a_k * s
        elif form == "rmul-scalar":
            t_k = s * a_k
        elif form == "add-scalar":
            t_k = a_k + s
        else:
            t_k = s + a_k
        if out_mk:
            for k, (z_ref, t) in z_x << t_k:
                z_ref += t
        else:
            for k, t in t_k:
                z_x += t
    res = {"bodies": bodies}
    if collect:
        res["dump"], res["files"], res["mem"] = _end(case, prefix)
    res["z"] = content(z_t, 0)
    return res


def _fiberop_oracle(case):
    """The same Einsum on the raw lists: result, element-wise operations executed (one per element the operator's
    documented domain covers: intersection for *, union for +, the elements of the right operand for fiber += fiber,
    the non-empty elements for *= scalar, the whole shape for += scalar), loop bodies."""
    M, K, form = case["M"], case["K"], case["form"]
    out_mk = case["out"] == "mk"
    s = case.get("s")
    t_ = {"payload_mul": 0, "payload_add": 0, "payload_update": 0}
    z, bodies = {}, {"M": 0}
    for m in range(M):
        ra = case["a"][m]
        rb = case["b"][m] if "b" in case else None
        if not any(ra) or (rb is not None and not any(rb)):
            continue
        bodies["M"] += 1
        if form in ("mul", "imul"):
            t = {k: ra[k] * rb[k] for k in range(K) if ra[k] != 0 and rb[k] != 0}
            t_["payload_mul"] += len(t)
        elif form == "add":
            t = {k: ra[k] + rb[k] for k in range(K) if ra[k] != 0 or rb[k] != 0}
            t_["payload_add"] += len(t)
        elif form == "iadd":
            t = {k: ra[k] + rb[k] for k in range(K) if ra[k] != 0 or rb[k] != 0}
            for k in range(K):
                if rb[k] != 0:
                    t_["payload_update"] += 1
                    t_["payload_add"] += 1 if ra[k] != 0 else 0
        elif form in ("imul-scalar", "mul-scalar", "rmul-scalar"):
            t = {k: ra[k] * s for k in range(K) if ra[k] != 0}
            t_["payload_mul"] += len(t)
            if form == "imul-scalar":
                t_["payload_update"] += len(t)
        elif form == "iadd-scalar":
            t = {k: ra[k] + s for k in range(K)}
            t_["payload_update"] += K
            t_["payload_add"] += sum(1 for k in range(K) if ra[k] != 0)
        else:
            t = {k: ra[k] + s for k in range(K)}
            t_["payload_add"] += K
        for k in sorted(t):
            if t[k] == 0:
                continue
            key = (m, k) if out_mk else (m,)
            old = z.get(key, 0)
            z[key] = old + t[k]
            t_["payload_update"] += 1
            t_["payload_add"] += 1 if old != 0 else 0
    if form == "imul":
        # `fiber *= fiber` also empties the elements of the left operand outside the intersection; whether emptying
        # an element is one of "those payload operations" is not fixed by the statement: the update clause is skipped
        t_["payload_update"] = None
    return {k: v for k, v in z.items() if v != 0}, t_, bodies


def _lookup(case, prefix, collect):
    """O_q = sum_s I_(q+s) * F_s  (optionally with a channel rank C on I and F): the input is NOT co-iterated, it is
    looked up by coordinate inside loops over other ranks.  -> {"z", "dump", "files", "bodies", "tally"}"""
    from fvmon.observe import content
    W, S, C, lk = case["W"], case["S"], case["C"], case["lookup"]
    Q = W - S + 1
    top, tshape = (["C"], [C]) if C else ([], [])
    i_t = Tensor.fromUncompressed(rank_ids=top + ["W"], root=case["i"], shape=tshape + [W], name="I")
    f_t = Tensor.fromUncompressed(rank_ids=top + ["S"], root=case["f"], shape=tshape + [S], name="F")
    o_t = Tensor(rank_ids=["Q"], shape=[Q], name="O")
    bodies = {"C": 0, "Q": 0, "S": 0, "W": 0}
    tally = {"payload_mul": 0, "payload_add": 0, "payload_update": 0}
    if collect:
        _begin(case, prefix)
    o_q = o_t.getRoot()

    def fetch(i_x, c, w):
        if lk == "getPayload":
            return i_x.getPayload(w)
        if lk == "getPayload-noalloc":
            return i_x.getPayload(w, allocate=False, default=0)
        return i_x.getPayload(c, w)         # a point, from the root of I

    def mac(o_ref, i_val, f_val):
        if case["skipzero"] and Payload.get(i_val) == 0:
            return
        old = Payload.get(o_ref)
        o_ref += i_val * f_val
        tally["payload_mul"] += 1
        tally["payload_update"] += 1
        if old != 0:
            tally["payload_add"] += 1

    def inner(i_x, f_s, c):
        if lk == "getPayloadRef-scatter":
            for s, f_val in f_s:
                bodies["S"] += 1
                for w, i_val in i_x:
                    bodies["W"] += 1
                    if 0 <= w - s < Q:
                        mac(o_q.getPayloadRef(w - s), i_val, f_val)
        elif case["order"] == "qs":
            for q, o_ref in o_q.iterShapeRef():
                bodies["Q"] += 1
                for s, f_val in f_s:
                    bodies["S"] += 1
                    mac(o_ref, fetch(i_x, c, q + s), f_val)
        else:
            for s, f_val in f_s:
                bodies["S"] += 1
                for q, o_ref in o_q.iterShapeRef():
                    bodies["Q"] += 1
                    mac(o_ref, fetch(i_x, c, q + s), f_val)

    if not C:
        inner(i_t.getRoot(), f_t.getRoot(), None)
    elif lk == "getPayload-point":
        for c, f_s in f_t.getRoot():
            bodies["C"] += 1
            inner(i_t.getRoot(), f_s, c)
    else:
        for c, (i_w, f_s) in i_t.getRoot() & f_t.getRoot():
            bodies["C"] += 1
            inner(i_w, f_s, c)
    res = {"bodies": bodies, "tally": tally}
    if collect:
        res["dump"], res["files"], res["mem"] = _end(case, prefix)
    res["z"] = content(o_t, 0)
    return res


def _lookup_oracle(case):
    W, S, C, lk = case["W"], case["S"], case["C"], case["lookup"]
    Q = W - S + 1
    t_ = {"payload_mul": 0, "payload_add": 0, "payload_update": 0}
    z, bodies = {}, {"C": 0, "Q": 0, "S": 0, "W": 0}

    def mac(q, i, f):
        if case["skipzero"] and i == 0:
            return
        old = z.get((q,), 0)
        z[(q,)] = old + i * f
        t_["payload_mul"] += 1
        t_["payload_update"] += 1
        t_["payload_add"] += 1 if old != 0 else 0

    if not C:
        rows = [(case["i"], case["f"])]
    elif lk == "getPayload-point":
        rows = [(case["i"][c], case["f"][c]) for c in range(C) if any(case["f"][c])]
    else:
        rows = [(case["i"][c], case["f"][c]) for c in range(C) if any(case["f"][c]) and any(case["i"][c])]
    for ri, rf in rows:
        if C:
            bodies["C"] += 1
        sv = [(s, rf[s]) for s in range(S) if rf[s] != 0]
        if lk == "getPayloadRef-scatter":
            for s, f in sv:
                bodies["S"] += 1
                for w in range(W):
                    if ri[w] != 0:
                        bodies["W"] += 1
                        if 0 <= w - s < Q:
                            mac(w - s, ri[w], f)
        elif case["order"] == "qs":
            for q in range(Q):
                bodies["Q"] += 1
                for s, f in sv:
                    bodies["S"] += 1
                    mac(q, ri[q + s], f)
        else:
            for s, f in sv:
                bodies["S"] += 1
                for q in range(Q):
                    bodies["Q"] += 1
                    mac(q, ri[q + s], f)
    return {k: v for k, v in z.items() if v != 0}, t_, bodies


def _run_handwritten(case, mon):
    fiberop = case["kind"] == "fiberop"
    kern, oracle = (_fiberop, _fiberop_oracle) if fiberop else (_lookup, _lookup_oracle)
    label = "fiber-operator-kernel" if fiberop else "lookup-kernel"
    flavour = case["form"] if fiberop else case["lookup"].split("-")[0]      # the operator form / the lookup method
    # clause suffix of the exactness keys: which family of kernel statements executed the operations
    if not fiberop:
        fam = "lookup-kernel"
    elif flavour in FIBER_FORMS_GUARDED:
        fam = "fiber-scalar-operator"
    else:
        fam = "fiber-level-operator"
    what = f"{label} {case}"
    tmp = tempfile.mkdtemp(prefix="fv15h-")
    prefix = os.path.join(tmp, "h")
    tap = _counter()
    try:
        want_z, want, want_bodies = oracle(case)
        try:
            r_off = kern(case, None, False)
        except BaseException as e:      # noqa
            if isinstance(e, KeyboardInterrupt):
                raise
            mon.violation(f"{label}:raised-without-collection:{type(e).__name__}:{flavour}", f"{what} raised {type(e).__name__}: {e} with collection off")
            return
        try:
            tap.reset()
            tap.active = True
            try:
                r_on = kern(case, prefix, True)
            finally:
                tap.active = False
        except BaseException as e:      # noqa
            if isinstance(e, KeyboardInterrupt):
                raise
            _abort_session()
            mon.violation(f"{label}-under-collection:raised:{type(e).__name__}:{flavour}",
                          f"{what} runs with collection off but raised {type(e).__name__}: {e} with collection on")
            return
        mon.count("fiberop_runs" if fiberop else "lookup_runs")
        mon.count("differential_runs")
        mon.check(r_off["z"] == want_z, f"{label}:result", f"{what}: result {r_off['z']}, dense reference {want_z}")
        mon.check(r_off["bodies"] == want_bodies, f"{label}:bodies", f"{what}: loop bodies {r_off['bodies']}, dense reference {want_bodies}")
        mon.check(r_on["z"] == r_off["z"], "transparency:output-differs", f"{what}: output differs between collection off and on")
        if not fiberop:
            mon.check(r_on["tally"] == want, f"{label}:tally", f"{what}: the kernel body executed {r_on['tally']}, dense reference {want}")
        comp = r_on["dump"].get("Compute", {})
        tapped = tap.expected_metrics()
        n_el = 0
        for metric in METRICS:
            if want[metric] is None:
                continue
            n_el += want[metric]
            mon.check(comp.get(metric, 0) == want[metric], f"exactness:{metric}:{fam}",
                      f"Metrics reports {metric}={comp.get(metric, 0)}, the kernel executed {want[metric]}; {what}")
        mon.count("fiberop_elementwise_ops" if fiberop else "lookup_kernel_ops", n_el)
        mon.count("op_executions_tapped", sum(tap.counts.values()))
        for metric in METRICS:
            mon.check(comp.get(metric, 0) == tapped[metric], f"exactness:{metric}:reported-differs-from-operator-executions",
                      f"Metrics reports {metric}={comp.get(metric, 0)}, Payload operator executions observed in the session "
                      f"amount to {tapped[metric]} ({dict(tap.counts)}); {what}")
        mon.check(not (set(comp) - set(METRICS)), "exactness:unknown-metric", f"unexpected Compute metrics {set(comp) - set(METRICS)}")
        stores = case.get("stores")
        _count_stores(mon, stores)
        for j, (r, tt) in enumerate(case["traces"]):
            if tt != "iter" or r == "K" or (r == "Q" and flavour != "getPayloadRef"):
                # K: also iterated implicitly inside the fiber-level operator; Q: driven by the dense (shape) iterator
                continue
            fn = f"{prefix}-{r}-iter.csv"
            wb = want_bodies.get(r, 0)
            if f"{r}-iter" in r_on["mem"]:
                mon.count("in_memory_iter_counts_checked")
                got = _mem_rows(r_on["mem"][f"{r}-iter"])
                mon.check(got == wb, "iters:count:in-memory-trace",
                          f"the consumed in-memory iter trace of rank {r} holds {got} uses, loop bodies executed at that rank: {wb}; {what}")
            if not _has_file(stores, j):
                continue
            if not os.path.exists(fn):
                mon.check(wb == 0, "iters:trace-file-missing", f"rank {r} executed {wb} loop bodies but has no iter trace file; {what}")
                continue
            mon.count("numiters_checked")
            got = Compute.numIters(fn)
            mon.check(got == wb, "iters:count", f"numIters({r})={got}, loop bodies executed at that rank: {wb}; {what}")
        # isolation: the same kernel again, same prefix
        try:
            r2 = kern(case, prefix, True)
        except BaseException as e:      # noqa
            if isinstance(e, KeyboardInterrupt):
                raise
            _abort_session()
            mon.violation(f"isolation:raised:{type(e).__name__}", f"{what} raised {type(e).__name__}: {e} when run as a second session")
            return
        mon.count("isolation_sessions")
        mon.count("dump_compares")
        mon.check(r2["dump"] == r_on["dump"], "isolation:dump:repeated", f"dump {r2['dump']} differs from the first session's {r_on['dump']}; {what}")
        mon.check(r2["files"] == r_on["files"], "isolation:trace-files:content:repeated",
                  f"trace files differ from the first session's: {[k for k in sorted(set(r2['files']) | set(r_on['files'])) if r2['files'].get(k) != r_on['files'].get(k)][:3]}; {what}")
        mon.check(r2["mem"] == r_on["mem"], "isolation:in-memory-traces:repeated",
                  f"consumed in-memory traces differ from the first session's: {[k for k in sorted(r_on['mem']) if r2['mem'].get(k) != r_on['mem'][k]][:3]}; {what}")
        mon.check(r2["z"] == r_off["z"], "isolation:output:repeated", f"{what}: output differs in a later session")
        if n_el >= 2:
            mon.nontrivial()
        mon.state((case["kind"], flavour, case.get("out") or case.get("order"), n_el, len(case["traces"])))
    finally:
        _abort_session()
        shutil.rmtree(tmp, ignore_errors=True)


def run_case(case, mon):
    if case.get("kind") in ("fiberop", "lookup"):
        _run_handwritten(case, mon)
        return
    if case.get("kind") == "conv":
        _run_conv(case, mon)
        return
    if case.get("kind") == "nary":
        _run_nary(case, mon)
        return
    spec = case["spec"]
    traces = [tuple(t) for t in case["traces"]]
    stores = case.get("stores")
    ncu = case["ncu"]
    tap = _counter()
    tmp = tempfile.mkdtemp(prefix="fv15-")
    prefix = os.path.join(tmp, "s")
    try:
        what = (f"kernel {spec['ops']}->{spec['out']!r} order={spec['order']} style={spec['style']} tiles={spec['tiles']} "
                f"output-by-reference={bool(spec.get('zref'))} operand-histories={spec.get('ophist') or {}} "
                f"operand-rank-names={spec.get('alias') or []} formats={spec.get('fmts') or []}")
        off_exc = None
        try:
            # reference: collection off
            if Metrics.isCollecting():
                Metrics.endCollect()
            tensors, Z, lvars, zl = _build(spec)
            _execute(spec, tensors, Z, lvars, zl)
            z_off = snap_values(Z)
        except BaseException as e:      # noqa
            if isinstance(e, KeyboardInterrupt):
                raise
            off_exc = e
        try:
            # (i) + (ii): collection on, tapped
            s0 = _session(spec, prefix, traces, ncu, tap=tap, stores=stores)
        except BaseException as e:      # noqa
            if isinstance(e, KeyboardInterrupt):
                raise
            _abort_session()
            if off_exc is None:
                mon.violation(f"kernel-under-collection:raised:{type(e).__name__}",
                              f"{what} traces={traces} runs with collection off but raised {type(e).__name__}: {e} with collection on")
            else:
                mon.violation(f"kernel:raised-with-and-without-collection:{type(e).__name__}",
                              f"{what} raised {type(off_exc).__name__}: {off_exc} with collection off and {type(e).__name__}: {e} with collection on")
            return
        if off_exc is not None:
            mon.violation(f"transparency:raised-only-without-collection:{type(off_exc).__name__}",
                          f"{what} traces={traces} runs with collection on but raised {type(off_exc).__name__}: {off_exc} with collection off")
            return
        mon.count("differential_runs")
        if spec.get("alias"):
            mon.count("operand_own_rank_name_runs")
            if any([n, r] in [list(a) for a in spec["alias"]] for n, r in spec.get("fmts") or []):
                mon.count("operand_own_rank_name_runs_uncompressed")
        if spec.get("zref"):
            mon.count("output_by_reference_runs")
        if spec.get("ophist"):
            mon.count("operand_history_runs")
            if spec["style"] == "leader-follower":
                mon.count("operand_history_runs_leader_follower")
        mon.check(s0["zsnap"] == z_off, "transparency:output-differs",
                  f"kernel output differs between collection off and on (traces {traces}); {what}")
        exp = s0["tally"]           # the operations the kernel itself executed (interpreter's own tally)
        tapped = tap.expected_metrics()
        n_ops = sum(tap.counts.values())
        mon.count("op_executions_tapped", n_ops)
        # every Payload operator execution inside the session is one the kernel wrote: the library itself must not
        # run (and count) payload arithmetic for its bookkeeping
        mon.check(tapped == exp, "exactness:library-runs-payload-arithmetic-of-its-own",
                  f"operator executions tapped inside the session {tapped} differ from what the kernel body executed {exp}")
        comp = s0["dump"].get("Compute", {})
        for metric, want in exp.items():
            got = comp.get(metric, 0)
            mon.check(got == want, f"exactness:{metric}",
                      f"Metrics reports {metric}={got}, the kernel executed {want} (operator executions tapped {dict(tap.counts)}, "
                      f"accumulates into non-zero boxes {tap.iadd_nonzero})")
            if "Compute" in s0["dump"]:
                try:
                    g2 = Compute.numOps(s0["dump"], metric[len("payload_"):])
                    mon.check(g2 == want, f"exactness:numOps:{metric}", f"Compute.numOps gives {g2}, taps saw {want}")
                except BaseException as e:      # noqa
                    mon.violation(f"exactness:numOps:raised:{type(e).__name__}", f"Compute.numOps raised {e!r}")
        extra = set(comp) - set(exp)
        mon.check(not extra, "exactness:unknown-metric", f"unexpected Compute metrics {extra}")
        dense_driven = set()
        fm = {(n, r) for n, r in spec.get("fmts", [])}
        zl_ = kernels.loop_vars_of(spec["out"], spec)
        for v in spec["order"]:
            part = [n for n, idx in spec["ops"] if v in kernels.loop_vars_of(idx, spec)]
            if len(part) == 1 and v not in zl_ and (part[0], kernels.rid(v)) in fm:
                dense_driven.add(kernels.rid(v))
        _count_stores(mon, stores)
        for j, (r, tt) in enumerate(traces):
            if tt != "iter" or r in dense_driven:
                continue
            fn = f"{prefix}-{r}-iter.csv"
            want = s0["bodies"].get(r, 0)
            if f"{r}-iter" in s0["mem"]:
                mon.count("in_memory_iter_counts_checked")
                got = _mem_rows(s0["mem"][f"{r}-iter"])
                mon.check(got == want, "iters:count:in-memory-trace",
                          f"the consumed in-memory iter trace of rank {r} holds {got} uses, loop bodies executed at that rank: {want} "
                          f"(kept in {stores[j]})")
            if not _has_file(stores, j):
                continue
            if not os.path.exists(fn):
                mon.check(want == 0, "iters:trace-file-missing", f"rank {r} executed {want} loop bodies but has no iter trace file")
                continue
            mon.count("numiters_checked")
            got = Compute.numIters(fn)
            mon.check(got == want, "iters:count", f"numIters({r})={got}, loop bodies executed at that rank: {want}")
        # (iii) isolation
        for e in case["earlier"]:
            mon.count("isolation_sessions")
            try:
                k = e["kind"]
                if k == "kernel":
                    r2 = random.Random(e["seed"])
                    tr = [(kernels.rid(v), r2.choice(TRACE_TYPES)) for v in e["spec"]["order"] if r2.random() < 0.7]
                    _session(e["spec"], prefix, tr, r2.choice([2, 5, 1000]))
                elif k == "kernel-same-traces":
                    _session(e["spec"], prefix, traces, ncu, stores=stores)
                elif k == "threshold":
                    _session(e["spec"], prefix, [], 2)
                elif k == "abandoned":
                    _session(e["spec"], prefix, [(kernels.rid(v), "iter") for v in e["spec"]["order"]], ncu, abandon_after=e["seed"] % 3)
                elif k == "consumable":
                    _consumable_session(e, prefix)
                    mon.count("consumable_sessions")
                    if Metrics.isCollecting():
                        mon.count("consumable_sessions_left_open")
                elif k == "project":
                    _project_session(e, prefix, False)
                else:
                    _project_session(e, prefix, True)
            except BaseException as ex:     # noqa
                if isinstance(ex, KeyboardInterrupt):
                    raise
                mon.count(f"earlier-session-raised:{type(ex).__name__}")
        # the report handed out for the first session still says what that session did, whatever ran afterwards
        if case["earlier"]:
            mon.count("kept_reports_checked")
        kept = s0.get("dump_object")
        mon.check({k: dict(v) for k, v in (kept or {}).items()} == s0["dump"], "isolation:earlier-report-changed-by-later-session",
                  f"the object Metrics.dump() returned for the first session now reads {kept}, it read {s0['dump']} "
                  f"(later sessions {[x['kind'] for x in case['earlier']]})")
        try:
            s1 = _session(spec, prefix, traces, ncu, stores=stores)
            s2 = _session(spec, prefix, traces, ncu, stores=stores)
        except BaseException as e:      # noqa
            if isinstance(e, KeyboardInterrupt):
                raise
            _abort_session()
            kinds = "+".join(sorted({x["kind"] for x in case["earlier"]})) or "none"
            mon.violation(f"isolation:raised:{type(e).__name__}",
                          f"the kernel under test raised {type(e).__name__}: {e} when run after sessions [{kinds}]")
            return
        for tag, s in (("after-earlier-sessions", s1), ("repeated", s2)):
            mon.count("dump_compares")
            mon.check(s["dump"] == s0["dump"], f"isolation:dump:{tag}",
                      f"dump {s['dump']} differs from the first session's {s0['dump']} ({[x['kind'] for x in case['earlier']]})")
            mine = {f"s-{r}-{tt}.csv" for j, (r, tt) in enumerate(traces) if _has_file(stores, j)}
            f_now = {k: v for k, v in s["files"].items() if k in mine}
            f_first = {k: v for k, v in s0["files"].items() if k in mine}
            if f_now != f_first:
                diff = [k for k in sorted(mine) if f_now.get(k) != f_first.get(k)]
                started = any(f_first.get(k) for k in diff)
                kinds = "content" if started else "never-started-trace-keeps-old-rows"
                mon.violation(f"isolation:trace-files:{kinds}:{tag}",
                              f"trace files of this session differ from the first session's: {diff[:3]} "
                              f"(earlier sessions {[x['kind'] for x in case['earlier']]})")
            else:
                mon.count("oracle_evals")
            mon.check(s["mem"] == s0["mem"], f"isolation:in-memory-traces:{tag}",
                      f"consumed in-memory traces differ from the first session's: {[k for k in sorted(s0['mem']) if s['mem'].get(k) != s0['mem'][k]][:3]} "
                      f"(earlier sessions {[x['kind'] for x in case['earlier']]})")
            mon.check(s["zsnap"] == z_off, f"isolation:output:{tag}", "kernel output differs in a later session")
        if s0["leaves"] >= 2 and traces:
            mon.nontrivial()
        mon.state((str(spec["ops"]), spec["out"], s0["leaves"], len(traces)))
    finally:
        _abort_session()
        shutil.rmtree(tmp, ignore_errors=True)


def _abort_session():
    try:
        if Metrics.isCollecting():
            # drain consumable traces so endCollect's assertion cannot fire, then close
            Metrics.traces = {}
            Metrics.endCollect()
    except BaseException:       # noqa
        Metrics.collecting = False
